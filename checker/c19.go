package main

import (
	"fmt"
	"go/token"
	"go/types"
	"reflect"
	"sort"
	"strings"

	"golang.org/x/tools/go/ssa"
)

// C19 — configuration survives dump and reload (structural clauses).

func init() {
	register(&PropSpec{
		ID:       "C19",
		Patterns: []string{"./pkg/config/v2", "./pkg/configmanager", "./pkg/upstream/cluster", "./pkg/filter/stream/...", "./pkg/mosn", "./pkg/router"},
		Explanation: "(R1) mirror pairs: for every type of pkg/config/v2 with both MarshalJSON and UnmarshalJSON, the relation {derived field <- shadow field} extracted from the SSA of UnmarshalJSON and the relation {shadow field <- derived field} extracted from MarshalJSON must cover the same (derived, shadow) pairs, and every `json:\"-\"` field of the type must appear in both or be listed runtime-only with a reason. " +
			"(R2) tag lint over the type graph reachable from the dumped roots: no two fields of one struct (after embedding, at the winning depth) share a JSON key (encoding/json would drop both silently), no struct inherits a promoted MarshalJSON/UnmarshalJSON from an embedded field without defining its own (the promoted method would hijack the outer encoding). " +
			"(R3) the persisted dump reassembles every part of the effective model: transferConfig reads every field of effectiveConfig and stores listeners, routers (with their original path), clusters, cluster path and extends into the MOSNConfig it marshals. " +
			"(R4) producing the dump writes only memory allocated in the call. (R6) a MarshalJSON of pkg/config/v2 stores a zero value into its receiver copy only under emptiness guards (len(x) cmp 0, x cmp nil, x cmp \"\"), or when reflect.DeepEqual with the zero value established that nothing is lost. (R3, distinct elements) a pointer appended or stored inside a loop of transferConfig/DumpJSON designates storage allocated in that loop iteration. (R7) the read-back obligation on recorded host lists, shared with C12.R1. (R1 same-wire-type) every successful path of a custom UnmarshalJSON passes json.Unmarshal with a target of the type its MarshalJSON hands to json.Marshal. (R8) in the Parse*/parse*/trans* functions of pkg/configmanager no store into a field has a value computed by +,-,*,/,%,<<,>> from a load of the same field path.",
		Run: runC19,
	})
}

// runtime-only derived fields: not configuration, never persisted (one reason each).
var c19RuntimeOnly = map[string]string{
	"Listener.PerConnBufferLimitBytes":     "fixed default set at load; source comment: do not support config",
	"Listener.InheritListener":             "runtime handle of an inherited socket",
	"Listener.InheritPacketConn":           "runtime handle of an inherited socket",
	"Listener.Remain":                      "runtime marker used while inheriting listeners",
	"Listener.ListenerTag":                 "runtime identifier assigned by the connection handler",
	"Listener.ListenerScope":               "runtime label, never read from configuration",
	"ClusterManagerConfig.Clusters":        "filled from ClustersJson or the cluster config directory at load; dumped through ClustersJson or per-file",
	"RouterConfiguration.RouterConfigPath": "handled by (Un)MarshalJSON as a directory dump",
}

type mirrorPair struct{ derived, shadow string }

func runC19(c *Ctx) {
	c.Rule("C19.R1", "custom (Un)MarshalJSON pairs move the same (derived, shadow) field pairs in both directions", 20)
	c.Rule("C19.R2", "no duplicate JSON keys at the winning depth; no hijacking promoted (Un)MarshalJSON", 40)
	c.Rule("C19.R3", "the persisted dump reassembles every part of the effective model", 8)
	c.Rule("C19.R6", "MarshalJSON clears a field of its receiver copy only depending on emptiness, never on content", 1)
	c.Rule("C19.R8", "parse-time rewrites of the configuration are idempotent (no field recomputed arithmetically from its own value)", 1)
	c.Rule("C19.R7", "the hosts recorded for the dump are read back from the live host set, not taken from the update request", 1)
	c.Rule("C19.R5", "files written by the directory-mode dump carry the extension the loader requires", 2)
	c.Rule("C19.R4", "producing the persisted dump writes only freshly allocated memory", 5)
	c.Rule("C19.R9", "stream filters never write into a route's per_filter_config (the map the dump marshals)", 20)
	defer c19RouteConfigReadOnly(c)
	c.Rule("C19.R11", "a pointer-receiver MarshalJSON is never on a type stored by value (encoding/json would skip it for unaddressable values)", 1)
	defer c19MarshalersReachable(c)
	c.Rule("C19.R10", "a dump is decoded into an empty model (no pre-filled target)", 2)
	defer c19DecodeIntoZeroValue(c)
	c.NotDecided = append(c.NotDecided, "value-level equivalence of load(dump(load(x))) and load(x): defaults, omitempty vs explicit zero, duration/byte-size formatting (mosn.io/api)", "the shipped sample configurations (needs running the loader)", "per-filter free-form config maps")
	c.Assumptions = append(c.Assumptions, "encoding/json field resolution rules (shallowest depth wins; ties at the same depth drop the key)", "helper conversions named in a pair (metadataToConfig/configToMetadata, duration wrappers) are inverse of each other")

	tp := c.TypesPkg("pkg/config/v2")
	if tp == nil {
		c.Unresolved("C19.R1", "package pkg/config/v2")
		return
	}
	// R1
	names := tp.Scope().Names()
	npairs := 0
	for _, n := range names {
		tn, ok := tp.Scope().Lookup(n).(*types.TypeName)
		if !ok {
			continue
		}
		st, ok := tn.Type().Underlying().(*types.Struct)
		if !ok {
			continue
		}
		mar := declaredMethod(c, tn.Type(), "MarshalJSON")
		unm := declaredMethod(c, tn.Type(), "UnmarshalJSON")
		if mar == nil && unm == nil {
			continue
		}
		key := "pkg/config/v2." + n
		if mar == nil || unm == nil {
			c.Fail("C19.R1", key+":both-directions", tn.Pos(), "type defines only one of MarshalJSON/UnmarshalJSON: dump and load use different encodings")
			continue
		}
		npairs++
		c19Lossless(c, mar, key)
		c19SameWireType(c, mar, unm, key)
		// derived fields
		var derived []string
		for i := 0; i < st.NumFields(); i++ {
			f := st.Field(i)
			if f.Embedded() {
				continue
			}
			tag := reflect.StructTag(st.Tag(i)).Get("json")
			if tag == "-" {
				derived = append(derived, f.Name())
			}
		}
		mp := marshalPairs(mar, derived)
		up := unmarshalPairs(unm, derived)
		for _, d := range derived {
			dk := key + ":field-" + d
			if why, ok := c19RuntimeOnly[n+"."+d]; ok {
				c.Pass("C19.R1", dk, tn.Pos(), "runtime-only: "+why)
				continue
			}
			ms, us := mp[d], up[d]
			switch {
			case len(ms) == 0 && len(us) == 0:
				c.Fail("C19.R1", dk, tn.Pos(), fmt.Sprintf("`json:\"-\"` field %s.%s is moved by neither MarshalJSON nor UnmarshalJSON and is not declared runtime-only: it is dropped by a dump/reload", n, d))
			case len(ms) == 0:
				c.Fail("C19.R1", dk, mar.Pos(), fmt.Sprintf("UnmarshalJSON fills %s.%s (from %s) but MarshalJSON never writes it back: the value is lost in the dump", n, d, strings.Join(us, ",")))
			case len(us) == 0:
				c.Fail("C19.R1", dk, unm.Pos(), fmt.Sprintf("MarshalJSON dumps %s.%s (into %s) but UnmarshalJSON never restores it: the value is lost on reload", n, d, strings.Join(ms, ",")))
			default:
				sort.Strings(ms)
				sort.Strings(us)
				if sharesOne(ms, us) {
					c.Pass("C19.R1", dk, tn.Pos(), fmt.Sprintf("%s <-> %s in both directions", d, strings.Join(intersect(ms, us), ",")))
				} else {
					c.Fail("C19.R1", dk, tn.Pos(), fmt.Sprintf("%s.%s is dumped into %s but restored from %s: the pair is not mirrored", n, d, strings.Join(ms, ","), strings.Join(us, ",")))
				}
			}
		}
		if len(derived) == 0 {
			c.Pass("C19.R1", key+":no-derived-fields", tn.Pos(), "custom marshalers without `json:\"-\"` shadow fields")
		}
	}
	if npairs < 15 {
		c.Unresolved("C19.R1", fmt.Sprintf("custom marshaler pairs in pkg/config/v2 (found %d)", npairs))
	}
	c19TagLint(c, tp)
	c19Dump(c)
	c19DistinctElements(c)
	recordedHostsReadBack(c, "C19.R7")
	c19FileNames(c)
	c19ParseIdempotent(c)
}

// declaredMethod: method declared directly on T or *T (not promoted).
func declaredMethod(c *Ctx, t types.Type, name string) *ssa.Function {
	for _, tt := range []types.Type{t, types.NewPointer(t)} {
		ms := c.Prog.MethodSets.MethodSet(tt)
		for i := 0; i < ms.Len(); i++ {
			sel := ms.At(i)
			if sel.Obj().Name() == name && len(sel.Index()) == 1 {
				fn := c.Prog.MethodValue(sel)
				// value-receiver methods appear wrapped in the pointer method set: unwrap
				if fn != nil && fn.Synthetic != "" {
					fn = unwrapPromoted(fn)
				}
				if fn != nil && len(fn.Blocks) > 0 {
					c.FuncsSeen[fn.String()] = true
					return fn
				}
			}
		}
	}
	return nil
}

// recvField: if addr (or loaded value) is field d of the method's receiver, return d.
func recvFieldOf(fn *ssa.Function, v ssa.Value) (string, bool) {
	names := pathNames(v)
	if len(names) == 0 {
		return "", false
	}
	root := rootOf(v)
	recv := fn.Params[0]
	if sameParam(root, recv) {
		return strings.Join(names, "."), true
	}
	// value receiver spilled to an Alloc initialised from the parameter
	if al, ok := root.(*ssa.Alloc); ok {
		for _, r := range refs(al) {
			if st, ok := r.(*ssa.Store); ok && st.Addr == ssa.Value(al) && sameParam(st.Val, recv) {
				return strings.Join(names, "."), true
			}
		}
	}
	return "", false
}

func rootOf(v ssa.Value) ssa.Value {
	for i := 0; i < 20; i++ {
		switch x := v.(type) {
		case *ssa.FieldAddr:
			v = x.X
		case *ssa.Field:
			v = x.X
		case *ssa.IndexAddr:
			v = x.X
		case *ssa.UnOp:
			v = x.X
		default:
			return v
		}
	}
	return v
}

// sources: receiver field paths a value is computed from (through conversions, calls, phis).
func valueSources(fn *ssa.Function, v ssa.Value, seen map[ssa.Value]bool, out map[string]bool, depth int) {
	if seen[v] || depth > 12 {
		return
	}
	seen[v] = true
	if p, ok := recvFieldOf(fn, v); ok {
		if _, isLoad := v.(*ssa.UnOp); isLoad {
			out[p] = true
			return
		}
		if _, isF := v.(*ssa.Field); isF {
			out[p] = true
			return
		}
	}
	switch x := v.(type) {
	case *ssa.Convert:
		valueSources(fn, x.X, seen, out, depth+1)
	case *ssa.ChangeType:
		valueSources(fn, x.X, seen, out, depth+1)
	case *ssa.ChangeInterface:
		valueSources(fn, x.X, seen, out, depth+1)
	case *ssa.MakeInterface:
		valueSources(fn, x.X, seen, out, depth+1)
	case *ssa.Phi:
		for _, e := range x.Edges {
			valueSources(fn, e, seen, out, depth+1)
		}
	case *ssa.Call:
		for _, a := range x.Common().Args {
			valueSources(fn, a, seen, out, depth+1)
		}
		if x.Common().IsInvoke() {
			valueSources(fn, x.Common().Value, seen, out, depth+1)
		}
	case *ssa.Extract:
		valueSources(fn, x.Tuple, seen, out, depth+1)
	case *ssa.UnOp:
		if x.Op == token.MUL {
			// load of a local: follow stores
			if al, ok := x.X.(*ssa.Alloc); ok {
				for _, r := range refs(al) {
					if st, ok := r.(*ssa.Store); ok && st.Addr == ssa.Value(al) {
						valueSources(fn, st.Val, seen, out, depth+1)
					}
				}
			}
		} else {
			valueSources(fn, x.X, seen, out, depth+1)
		}
	case *ssa.BinOp:
		valueSources(fn, x.X, seen, out, depth+1)
		valueSources(fn, x.Y, seen, out, depth+1)
	case *ssa.Slice:
		valueSources(fn, x.X, seen, out, depth+1)
	case *ssa.MakeSlice:
		// make + copy(dst, src): look for copy calls with this destination
		for _, r := range refs(x) {
			if ci, ok := r.(ssa.CallInstruction); ok {
				if b, ok := ci.Common().Value.(*ssa.Builtin); ok && b.Name() == "copy" && ci.Common().Args[0] == ssa.Value(x) {
					valueSources(fn, ci.Common().Args[1], seen, out, depth+1)
				}
			}
		}
	}
}

func isDerived(path string, derived []string) (string, bool) {
	first := path
	if i := strings.Index(path, "."); i >= 0 {
		first = path[:i]
	}
	for _, d := range derived {
		if d == first {
			return d, true
		}
	}
	return "", false
}

// marshalPairs: derived field d -> shadow paths that receive a value computed from d.
func marshalPairs(fn *ssa.Function, derived []string) map[string][]string {
	out := map[string][]string{}
	forEachInstr(fn, false, func(_ *ssa.Function, in ssa.Instruction) {
		st, ok := in.(*ssa.Store)
		if !ok {
			return
		}
		dst, ok := recvFieldOf(fn, st.Addr)
		if !ok {
			return
		}
		if _, isD := isDerived(dst, derived); isD {
			return
		}
		src := map[string]bool{}
		valueSources(fn, st.Val, map[ssa.Value]bool{}, src, 0)
		for s := range src {
			if d, isD := isDerived(s, derived); isD {
				out[d] = appendUniq(out[d], dst)
			}
		}
	})
	// a derived field that is itself marshaled (passed to json.Marshal or read into a local struct that is marshaled)
	for _, d := range derived {
		if len(out[d]) > 0 {
			continue
		}
		used := false
		forEachInstr(fn, false, func(_ *ssa.Function, in ssa.Instruction) {
			if v, ok := in.(ssa.Value); ok {
				if p, ok := recvFieldOf(fn, v); ok {
					if dd, isD := isDerived(p, derived); isD && dd == d {
						if _, isFA := v.(*ssa.FieldAddr); isFA {
							for _, r := range refs(v) {
								if _, isLoad := r.(*ssa.UnOp); isLoad {
									used = true
								}
							}
						}
					}
				}
			}
		})
		if used {
			out[d] = []string{"(read)"}
		}
	}
	return out
}

// unmarshalPairs: derived field d -> shadow paths it is computed from.
func unmarshalPairs(fn *ssa.Function, derived []string) map[string][]string {
	out := map[string][]string{}
	forEachInstr(fn, false, func(_ *ssa.Function, in ssa.Instruction) {
		st, ok := in.(*ssa.Store)
		if !ok {
			return
		}
		dst, ok := recvFieldOf(fn, st.Addr)
		if !ok {
			return
		}
		d, isD := isDerived(dst, derived)
		if !isD {
			return
		}
		src := map[string]bool{}
		valueSources(fn, st.Val, map[ssa.Value]bool{}, src, 0)
		n := 0
		for s := range src {
			if _, sd := isDerived(s, derived); !sd {
				out[d] = appendUniq(out[d], s)
				n++
			}
		}
		if n == 0 {
			out[d] = appendUniq(out[d], "(written)")
		}
	})
	return out
}

func appendUniq(l []string, s string) []string {
	for _, x := range l {
		if x == s {
			return l
		}
	}
	return append(l, s)
}

func intersect(a, b []string) []string {
	var out []string
	for _, x := range a {
		for _, y := range b {
			if x == y {
				out = append(out, x)
			}
		}
	}
	return out
}

// sharesOne: the shadow sets agree on at least one concrete path, or one side is only known as read/written.
func sharesOne(ms, us []string) bool {
	if len(intersect(ms, us)) > 0 {
		return true
	}
	for _, m := range ms {
		if m == "(read)" {
			return true
		}
	}
	for _, u := range us {
		if u == "(written)" {
			return true
		}
	}
	// prefix relation (whole struct vs sub-field)
	for _, m := range ms {
		for _, u := range us {
			if strings.HasPrefix(m, u+".") || strings.HasPrefix(u, m+".") {
				return true
			}
		}
	}
	return false
}

// ---------------------------------------------------------------------------------------------
// R2

func c19TagLint(c *Ctx, tp *types.Package) {
	seen := map[string]bool{}
	var visit func(t types.Type, depth int)
	nStructs := 0
	visit = func(t types.Type, depth int) {
		if depth > 16 {
			return
		}
		if n, ok := t.(*types.Named); ok {
			name := typeName(n)
			if seen[name] {
				return
			}
			seen[name] = true
			if n.Obj().Pkg() == nil || !strings.HasPrefix(n.Obj().Pkg().Path(), modPath) {
				// foreign types: follow structure only for containers
				if _, isStruct := n.Underlying().(*types.Struct); isStruct {
					return
				}
			}
		}
		switch u := t.Underlying().(type) {
		case *types.Struct:
			if n, ok := t.(*types.Named); ok {
				nStructs++
				lintStruct(c, n, u)
			}
			for i := 0; i < u.NumFields(); i++ {
				visit(u.Field(i).Type(), depth+1)
			}
		case *types.Pointer:
			visit(u.Elem(), depth+1)
		case *types.Slice:
			visit(u.Elem(), depth+1)
		case *types.Array:
			visit(u.Elem(), depth+1)
		case *types.Map:
			visit(u.Elem(), depth+1)
		}
	}
	for _, root := range []string{"MOSNConfig", "Listener", "Cluster", "RouterConfiguration", "ExtendConfig"} {
		if o := tp.Scope().Lookup(root); o != nil {
			visit(o.Type(), 0)
		} else {
			c.Unresolved("C19.R2", "v2."+root)
		}
	}
	c.Extra["structs_linted"] = nStructs
}

type jsonField struct {
	key    string
	depth  int
	name   string
	tagged bool
}

func collectJSONFields(st *types.Struct, depth int, out *[]jsonField, stack map[*types.Struct]bool) {
	if stack[st] {
		return
	}
	stack[st] = true
	defer delete(stack, st)
	for i := 0; i < st.NumFields(); i++ {
		f := st.Field(i)
		tag := reflect.StructTag(st.Tag(i)).Get("json")
		name := strings.Split(tag, ",")[0]
		if name == "-" && !strings.Contains(tag, ",") {
			continue
		}
		if f.Embedded() && name == "" {
			ft := f.Type()
			if p, ok := ft.Underlying().(*types.Pointer); ok {
				ft = p.Elem()
			}
			if es, ok := ft.Underlying().(*types.Struct); ok {
				// an embedded struct with its own marshaler is encoded as one value under its type name… only if exported
				collectJSONFields(es, depth+1, out, stack)
				continue
			}
		}
		if !f.Exported() {
			continue
		}
		key := name
		if key == "" {
			key = f.Name()
		}
		*out = append(*out, jsonField{key, depth, f.Name(), name != ""})
	}
}

func lintStruct(c *Ctx, n *types.Named, st *types.Struct) {
	key := strings.ReplaceAll(typeName(n), modPath+"/", "")
	var fs []jsonField
	collectJSONFields(st, 0, &fs, map[*types.Struct]bool{})
	byKey := map[string][]jsonField{}
	for _, f := range fs {
		byKey[f.key] = append(byKey[f.key], f)
	}
	dups := []string{}
	for k, l := range byKey {
		if len(l) < 2 {
			continue
		}
		min := 99
		for _, f := range l {
			if f.depth < min {
				min = f.depth
			}
		}
		var atMin []jsonField
		for _, f := range l {
			if f.depth == min {
				atMin = append(atMin, f)
			}
		}
		if len(atMin) > 1 {
			tagged := 0
			for _, f := range atMin {
				if f.tagged {
					tagged++
				}
			}
			if tagged != 1 { // exactly one tagged field wins over untagged ones
				names := []string{}
				for _, f := range atMin {
					names = append(names, f.name)
				}
				sort.Strings(names)
				dups = append(dups, k+"("+strings.Join(names, ",")+")")
			}
		}
	}
	sort.Strings(dups)
	c.Check("C19.R2", key+":unique-json-keys", n.Obj().Pos(), len(dups) == 0, fmt.Sprintf("%d JSON keys, unique at their winning depth", len(byKey)),
		"fields share a JSON key at the same embedding depth (encoding/json drops all of them silently): "+strings.Join(dups, "; "))
	// promoted marshalers
	for _, m := range []string{"MarshalJSON", "UnmarshalJSON"} {
		for _, tt := range []types.Type{n, types.NewPointer(n)} {
			ms := types.NewMethodSet(tt)
			for i := 0; i < ms.Len(); i++ {
				sel := ms.At(i)
				if sel.Obj().Name() == m && len(sel.Index()) > 1 {
					c.Fail("C19.R2", key+":promoted-"+m, n.Obj().Pos(), fmt.Sprintf("%s inherits %s from an embedded field: the embedded type's encoding replaces the whole struct and the other fields are dropped", n.Obj().Name(), m))
				}
			}
		}
	}
}

// ---------------------------------------------------------------------------------------------
// R3 / R4

func c19Dump(c *Ctx) {
	pkg := "pkg/configmanager"
	fn := c.F(pkg, "transferConfig")
	if fn == nil {
		c.Unresolved("C19.R3", "configmanager.transferConfig")
		return
	}
	fk := funcKey(fn)
	// every field of effectiveConfig is read
	ec := c.Named(pkg, "effectiveConfig")
	if ec == nil {
		c.Unresolved("C19.R3", "configmanager.effectiveConfig")
		return
	}
	read := map[string]bool{}
	forEachInstr(fn, true, func(_ *ssa.Function, in ssa.Instruction) {
		if fa, ok := in.(*ssa.FieldAddr); ok {
			if g, ok := fa.X.(*ssa.Global); ok && g.Name() == "conf" {
				read[derefStruct(fa.X.Type()).Field(fa.Field).Name()] = true
			}
		}
	})
	st := ec.Underlying().(*types.Struct)
	for i := 0; i < st.NumFields(); i++ {
		f := st.Field(i).Name()
		c.Check("C19.R3", fk+":reads-"+f, fn.Pos(), read[f], "transferConfig reads conf."+f, "the persisted dump never reads conf."+f+": that part of the running configuration is missing from the file a restart loads")
	}
	// the marshaled value is the local copy into which the parts were stored
	var marshaled *ssa.Alloc
	for _, cs := range callsIn(fn, false, func(cc *ssa.CallCommon) bool { return strings.HasPrefix(calleeName(cc), "encoding/json.Marshal") }) {
		if u, ok := stripIface(cs.Instr.Common().Args[0]).(*ssa.UnOp); ok {
			marshaled, _ = u.X.(*ssa.Alloc)
		}
	}
	if marshaled == nil {
		c.Fail("C19.R3", fk+":marshals-copy", fn.Pos(), "transferConfig does not marshal its local MOSNConfig copy")
		return
	}
	// required stores into the copy: path suffix -> source description
	want := map[string]string{"Listeners": "listeners", "Routers": "routers", "Clusters": "clusters", "ClusterConfigPath": "cluster path", "Extends": "extends"}
	got := map[string]bool{}
	forEachInstr(fn, false, func(_ *ssa.Function, in ssa.Instruction) {
		s, ok := in.(*ssa.Store)
		if !ok {
			return
		}
		if rootOf(s.Addr) != ssa.Value(marshaled) {
			return
		}
		names := pathNames(s.Addr)
		if len(names) > 0 {
			got[names[len(names)-1]] = true
		}
	})
	for f, what := range want {
		c.Check("C19.R3", fk+":stores-"+f, fn.Pos(), got[f], "stores the "+what+" into the dumped MOSNConfig", "transferConfig no longer stores the "+what+" ("+f+") into the MOSNConfig it marshals")
	}
	// router path restored
	rp := false
	forEachInstr(fn, false, func(_ *ssa.Function, in ssa.Instruction) {
		if s, ok := in.(*ssa.Store); ok {
			names := pathNames(s.Addr)
			if len(names) > 0 && names[len(names)-1] == "RouterConfigPath" {
				if _, f, _, ok := loadedFieldOrLookup(s.Val); ok && f == "routerConfigPath" {
					rp = true
				}
			}
		}
	})
	c.Check("C19.R3", fk+":router-path-restored", fn.Pos(), rp, "RouterConfigPath restored from conf.routerConfigPath", "the router's original config path is not restored in the dump")

	// R4 freshness of transferConfig
	req := map[*ssa.Function]map[int]bool{}
	fr := &freshCtx{fn: fn, req: req}
	ord := ordCounter{}
	forEachInstr(fn, false, func(_ *ssa.Function, in ssa.Instruction) {
		for _, w := range fr.writeTargets(in) {
			key := ord.next(fn, "write")
			ok, _ := fr.fresh(w, in, 0)
			c.Check("C19.R4", key, nearestPos(in), ok, "target memory allocated in this call", "producing the persisted dump writes into memory shared with the live configuration (a slice/pointer/map of conf): the running model is modified while only the read lock is held")
		}
	})
}

// loadedFieldOrLookup: v is a load of a field or a map lookup on a loaded field.
func loadedFieldOrLookup(v ssa.Value) (string, string, ssa.Value, bool) {
	if l, ok := v.(*ssa.Lookup); ok {
		return loadedField(l.X)
	}
	if e, ok := v.(*ssa.Extract); ok {
		if l, ok := e.Tuple.(*ssa.Lookup); ok {
			return loadedField(l.X)
		}
	}
	return loadedField(v)
}

// R5: writer/reader agreement of the directory mode (clusters_configs / router_configs): the loader
// (utils.ReadJsonFile) silently ignores every file whose extension is not ".json", so every file name the dump
// writes must end in ".json" — the extension has to be the last thing appended (no truncation afterwards).
func c19FileNames(c *Ctx) {
	pkg := "pkg/config/v2"
	n := 0
	for _, fn := range c.PkgFuncs(pkg) {
		for _, cs := range callsIn(fn, false, func(cc *ssa.CallCommon) bool { return strings.HasSuffix(calleeName(cc), "utils.WriteFileSafety") }) {
			n++
			key := fmt.Sprintf("%s:written-file#%d", funcKey(fn), n)
			name := cs.Instr.Common().Args[0]
			ok, why := endsWithJSONExt(name, map[ssa.Value]bool{}, 0)
			c.Check("C19.R5", key, cs.Instr.Pos(), ok, "file name ends in the literal \".json\" appended last", "the name of a dumped config file may not end in \".json\" ("+why+"): the loader ignores such files, so the cluster / virtual host silently disappears on reload")
		}
	}
	if n < 2 {
		c.Unresolved("C19.R5", fmt.Sprintf("WriteFileSafety calls in pkg/config/v2 (found %d)", n))
	}
}

func endsWithJSONExt(v ssa.Value, seen map[ssa.Value]bool, depth int) (bool, string) {
	if depth > 12 {
		return false, "value flow too deep"
	}
	if seen[v] {
		return true, ""
	}
	seen[v] = true
	switch x := v.(type) {
	case *ssa.BinOp:
		if x.Op == token.ADD {
			if k, ok := x.Y.(*ssa.Const); ok {
				if s, ok := constString(k); ok && s == ".json" {
					return true, ""
				}
			}
			return endsWithJSONExt(x.Y, seen, depth+1)
		}
	case *ssa.Phi:
		for _, e := range x.Edges {
			if ok, why := endsWithJSONExt(e, seen, depth+1); !ok {
				return false, why
			}
		}
		return true, ""
	case *ssa.Slice:
		return false, "the name is truncated after the extension was appended"
	case *ssa.UnOp:
		if al, ok := x.X.(*ssa.Alloc); ok {
			any := false
			for _, r := range refs(al) {
				if st, ok := r.(*ssa.Store); ok && st.Addr == ssa.Value(al) {
					any = true
					if ok, why := endsWithJSONExt(st.Val, seen, depth+1); !ok {
						return false, why
					}
				}
			}
			return any, "no assignment found"
		}
	case *ssa.Call:
		cc := x.Common()
		if strings.HasSuffix(calleeName(cc), "filepath.Join") {
			// variadic: the last element of the argument slice
			if sl, ok := cc.Args[0].(*ssa.Slice); ok {
				if al, ok := sl.X.(*ssa.Alloc); ok {
					var last ssa.Value
					lastIdx := int64(-1)
					for _, r := range refs(al) {
						if ia, ok := r.(*ssa.IndexAddr); ok {
							idx, _ := constInt(ia.Index)
							for _, r2 := range refs(ia) {
								if st, ok := r2.(*ssa.Store); ok && idx > lastIdx {
									last, lastIdx = st.Val, idx
								}
							}
						}
					}
					if last != nil {
						return endsWithJSONExt(last, seen, depth+1)
					}
				}
			}
			return false, "cannot resolve filepath.Join arguments"
		}
		if strings.HasSuffix(calleeName(cc), "fmt.Sprintf") && len(cc.Args) > 0 {
			// a format whose literal tail is the extension
			if format, ok := constStringVal(cc.Args[0]); ok && strings.HasSuffix(format, ".json") && !strings.HasSuffix(format, "%.json") {
				return true, ""
			}
			return false, "fmt.Sprintf with a format that does not end in \".json\""
		}
		if f := cc.StaticCallee(); f != nil && len(f.Blocks) > 0 && f.Pkg != nil && strings.HasPrefix(f.Pkg.Pkg.Path(), modPath) {
			for _, in := range instrsWhere(f, isReturn) {
				if ok, why := endsWithJSONExt(unspill(in.(*ssa.Return), 0), seen, depth+1); !ok {
					return false, "via " + f.Name() + ": " + why
				}
			}
			return true, ""
		}
	}
	return false, fmt.Sprintf("name produced by %T", v)
}
