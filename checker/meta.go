package main

import (
	"encoding/json"
	"fmt"
	"go/ast"
	"go/parser"
	"go/token"
	"os"
	"os/exec"
	"path/filepath"
	"sort"
	"strings"
)

// Metamorphic self-test of the checker (never a verdict about mosn).
//
// go/ssa changes the shape of a whole function when something small is added to it: a `defer` makes it spill every result
// into a cell (`*r = v; rundefers; t = *r; return t`), a closure that captures a parameter makes it spill that parameter
// into a heap cell and read it back at every use. Neither changes what the function does; a rule that reads
// `Return.Results` or compares a value with `fn.Params[i]` directly silently stops seeing anything (repair 118 did exactly
// that to C12.R1) or reports a false alarm. This self-test applies two behaviour-preserving rewrites to EVERY function of
// the property's packages at once, as an overlay, and requires the result of the check to be the same as on the plain
// tree: the same failing keys (none) and the same number of instances per rule.
//
//	META:defer    first statement `defer func() {}()`
//	META:capture  first statement `defer func() { _, _ = recv, param... }()` (receiver and all named parameters captured)
//
// `mosncheck --prop Cxx --meta` runs both and prints one line each; a difference prints SELFTEST-WARN lines naming the
// rules whose verdict or instance count moved.

var metaKinds = []string{"META:none", "META:defer", "META:capture"}

func metaDirs(patterns []string) []string {
	var dirs []string
	for _, p := range patterns {
		p = strings.TrimPrefix(p, "./")
		if strings.HasSuffix(p, "/...") {
			root := filepath.Join(repoDir, strings.TrimSuffix(p, "/..."))
			_ = filepath.Walk(root, func(path string, info os.FileInfo, err error) error {
				if err == nil && info.IsDir() {
					if strings.HasPrefix(info.Name(), "_") || info.Name() == "testdata" {
						return filepath.SkipDir
					}
					dirs = append(dirs, path)
				}
				return nil
			})
		} else {
			dirs = append(dirs, filepath.Join(repoDir, p))
		}
	}
	return dirs
}

func metaOverlay(spec *PropSpec, kind string) (map[string][]byte, error) {
	ov := map[string][]byte{}
	if kind == "META:none" {
		return ov, nil
	}
	for _, dir := range metaDirs(spec.Patterns) {
		ents, err := os.ReadDir(dir)
		if err != nil {
			continue
		}
		for _, e := range ents {
			n := e.Name()
			if e.IsDir() || !strings.HasSuffix(n, ".go") || strings.HasSuffix(n, "_test.go") {
				continue
			}
			path := filepath.Join(dir, n)
			src, err := os.ReadFile(path)
			if err != nil {
				return nil, err
			}
			fset := token.NewFileSet()
			f, err := parser.ParseFile(fset, path, src, parser.ParseComments)
			if err != nil {
				return nil, err
			}
			type ins struct {
				off  int
				text string
			}
			var inss []ins
			for _, d := range f.Decls {
				fd, ok := d.(*ast.FuncDecl)
				if !ok || fd.Body == nil {
					continue
				}
				text := ""
				switch kind {
				case "META:defer":
					text = "\n\tdefer func() {}()\n"
				case "META:capture":
					var names []string
					add := func(fl *ast.FieldList) {
						if fl == nil {
							return
						}
						for _, fld := range fl.List {
							for _, nm := range fld.Names {
								if nm.Name != "_" && nm.Name != "" {
									names = append(names, nm.Name)
								}
							}
						}
					}
					add(fd.Recv)
					add(fd.Type.Params)
					if len(names) == 0 {
						continue
					}
					blanks := strings.TrimSuffix(strings.Repeat("_, ", len(names)), ", ")
					text = "\n\tdefer func() { " + blanks + " = " + strings.Join(names, ", ") + " }()\n"
				}
				inss = append(inss, ins{fset.Position(fd.Body.Lbrace).Offset + 1, text})
			}
			if len(inss) == 0 {
				continue
			}
			sort.Slice(inss, func(i, j int) bool { return inss[i].off > inss[j].off })
			out := append([]byte(nil), src...)
			for _, in := range inss {
				out = append(out[:in.off], append([]byte(in.text), out[in.off:]...)...)
			}
			ov[path] = out
		}
	}
	return ov, nil
}

type metaResult struct {
	Keys  []string
	Rules map[string]int
	Err   string
}

func runMetaChild(prop, kind string) metaResult {
	self, _ := os.Executable()
	out, _ := exec.Command(self, "--prop", prop, "--tier", "quick", "--mutant", kind).CombinedOutput()
	var r metaResult
	for _, line := range strings.Split(string(out), "\n") {
		if strings.HasPrefix(line, "MUTANT-RESULT ") {
			_ = json.Unmarshal([]byte(line[len("MUTANT-RESULT "):]), &r.Keys)
		}
		if strings.HasPrefix(line, "MUTANT-RULES ") {
			_ = json.Unmarshal([]byte(line[len("MUTANT-RULES "):]), &r.Rules)
		}
	}
	for _, k := range r.Keys {
		if strings.HasPrefix(k, "ERROR:") {
			r.Err = firstLine(k)
		}
	}
	if r.Rules == nil && r.Err == "" {
		r.Err = "no result from the child process: " + firstLine(string(out))
	}
	return r
}

// runMeta returns the number of differences found.
func runMeta(prop string) int {
	base := runMetaChild(prop, "META:none")
	if base.Err != "" {
		fmt.Printf("  meta: baseline failed: %s\n", base.Err)
		return 1
	}
	diffs := 0
	for _, kind := range metaKinds[1:] {
		r := runMetaChild(prop, kind)
		if r.Err != "" {
			fmt.Printf("  SELFTEST-WARN %s %s: %s\n", prop, kind, r.Err)
			diffs++
			continue
		}
		var msgs []string
		bk := map[string]bool{}
		for _, k := range base.Keys {
			bk[k] = true
		}
		rk := map[string]bool{}
		for _, k := range r.Keys {
			rk[k] = true
			if !bk[k] {
				msgs = append(msgs, "new report "+k)
			}
		}
		for k := range bk {
			if !rk[k] {
				msgs = append(msgs, "report lost "+k)
			}
		}
		var rules []string
		for k := range base.Rules {
			rules = append(rules, k)
		}
		sort.Strings(rules)
		for _, k := range rules {
			if r.Rules[k] != base.Rules[k] {
				msgs = append(msgs, fmt.Sprintf("instances of %s %d -> %d", k, base.Rules[k], r.Rules[k]))
			}
		}
		for k := range r.Rules {
			if _, ok := base.Rules[k]; !ok {
				msgs = append(msgs, "new rule "+k)
			}
		}
		sort.Strings(msgs)
		if len(msgs) == 0 {
			fmt.Printf("  meta: %s %s identical (%d rules)\n", prop, kind, len(base.Rules))
			continue
		}
		diffs += len(msgs)
		for _, m := range msgs {
			fmt.Printf("  SELFTEST-WARN %s %s: %s\n", prop, kind, m)
		}
	}
	return diffs
}
