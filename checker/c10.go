package main

import (
	"fmt"
	"go/constant"
	"go/token"
	"go/types"
	"sort"
	"strings"

	"golang.org/x/tools/go/ssa"
)

// C10 — circuit-breaker and active-gauge accounting is conserved (pairing idioms).

var c10Pkgs = []string{"pkg/proxy", "pkg/stream/http", "pkg/stream/http2", "pkg/stream/xprotocol", "pkg/filter/network/streamproxy", "pkg/upstream/cluster", "pkg/stream", "pkg/network"}

func init() {
	var pats []string
	for _, p := range c10Pkgs {
		pats = append(pats, "./"+p)
	}
	register(&PropSpec{
		ID:       "C10",
		Patterns: pats,
		Explanation: "A pairing table is built from the repository itself: every Increase()/Decrease() on a types.Resource and every Inc/Dec on a gauge field named *Active is a site, keyed by counter (resource kind, or owner+gauge). Every increment site must be matched with decrement site(s) of the same counter in its package by exactly one recognised idiom, and every decrement site must belong to a pair: " +
			"I1 listener-paired (increment control-equivalent with stream.AddEventListener(L) in NewStream; decrement unconditional in L.OnDestroyStream, which BaseStream runs once behind its CAS); I2 CAS-paired (increment in the stream constructor, decrement in a function called only behind a one-shot CompareAndSwap); I3 token-paired (a token set with the increment, decrement only under the token, token cleared); I4 event-paired (increment on the success continuation of Connect / together with registering the connection event listener; decrement under event.IsClose(), and connection.Close emits its event behind a one-shot CAS and only for an established connection). " +
			"Overflow returns are reached before any increment; CanCreate compares cur < max with max==0 unlimited. (PAIR, retry state) every store of nil into downStream.retryState is preceded by retryState.reset() on every path on which the state is non-nil. (I4, round 6) the conditions on the ConnectionEvent parameter are evaluated per event value: an event-paired decrement (or every call of its helper) is reachable for every closing event - the set IsClose tests, a frozen table compared with mosn.io/api on every run - and for no other. (POOL) the C09.R4 pool-count rule evaluated as a clause of this property.",
		Run: runC10,
	})
}

type ctrSite struct {
	key  string // counter identity
	inc  bool
	in   ssa.CallInstruction
	fn   *ssa.Function
	pkg  string
	used bool
	why  string
}

// counterKey identifies what a call increments/decrements; "" if not a tracked counter.
func counterKey(cc *ssa.CallCommon) (string, bool, bool) {
	name := methodName(cc)
	if cc.IsInvoke() && (name == "Increase" || name == "Decrease") && strings.HasSuffix(cc.Value.Type().String(), "types.Resource") {
		// which resource: the producing call Requests()/Retries()/Connections()/PendingRequests()
		kind := "resource"
		if call, ok := cc.Value.(*ssa.Call); ok {
			kind = methodName(call.Common())
		} else if phi, ok := cc.Value.(*ssa.Phi); ok && len(phi.Edges) > 0 {
			if call, ok := phi.Edges[0].(*ssa.Call); ok {
				kind = methodName(call.Common())
			}
		}
		return "resource." + kind, name == "Increase", true
	}
	if cc.IsInvoke() && (name == "Inc" || name == "Dec") {
		if _, f, base, ok := loadedField(cc.Value); ok && strings.HasSuffix(f, "Active") {
			owner := "?"
			switch b := base.(type) {
			case *ssa.Call:
				owner = methodName(b.Common()) // HostStats / Stats
			case *ssa.UnOp:
				if _, bf, _, ok := loadedField(b); ok {
					owner = bf // stats / listenerStats
				}
			}
			return owner + "." + f, name == "Inc", true
		}
	}
	return "", false, false
}

func runC10(c *Ctx) {
	defer c10RetryAbort(c)
	defer c10CounterStepExact(c, "C10.OVF")
	defer c10RetrySlotReleasedBeforeAdmission(c)
	defer freshStreamPerTry(c, "C10.PAIR")
	defer c10CloseSetCrossCheck(c)
	c.Rule("C10.POOL", "the pools' own connection counts (compared with max_connections) are taken exactly once per created connection and given back whenever none is handed out", 2)
	defer c09Count(c, "C10.POOL")
	c.Rule("C10.PAIR", "every increment is paired with its decrement by one recognised idiom; no orphan decrement", 30)
	c.Rule("C10.ONCE", "the events the pairings rely on are delivered at most once (stream destroy CAS, connection close CAS, clean CAS)", 4)
	c.Rule("C10.IDENT", "one counter object per cluster across updates: increments and decrements of one admission hit the same resource manager", 3)
	c.Rule("C10.OVF", "refused requests leave the books unchanged; CanCreate trips at the threshold", 6)
	c.NotDecided = append(c.NotDecided, "that every admitted request's lifecycle terminates (needed for 'returns to zero')", "counter values over concrete histories")
	c.Assumptions = append(c.Assumptions, "stream listeners' OnDestroyStream runs exactly once per stream (BaseStream.DestroyStream CAS, checked by C10.ONCE)", "connection close events are delivered once per established connection (connection.Close CAS, checked by C10.ONCE)")

	var sites []*ctrSite
	for _, pkg := range c10Pkgs {
		for _, fn := range c.PkgFuncs(pkg) {
			forEachInstr(fn, false, func(f *ssa.Function, in ssa.Instruction) {
				ci, ok := in.(ssa.CallInstruction)
				if !ok {
					return
				}
				if _, isDefer := in.(*ssa.Defer); isDefer {
					return
				}
				if k, inc, ok := counterKey(ci.Common()); ok {
					sites = append(sites, &ctrSite{key: k, inc: inc, in: ci, fn: f, pkg: pkg})
					c.CallSites++
				}
			})
		}
	}
	sort.SliceStable(sites, func(i, j int) bool {
		if sites[i].fn.String() != sites[j].fn.String() {
			return sites[i].fn.String() < sites[j].fn.String()
		}
		return sites[i].in.Pos() < sites[j].in.Pos()
	})
	ord := ordCounter{}
	decsOf := func(pkg, key string) []*ctrSite {
		var out []*ctrSite
		for _, s := range sites {
			if !s.inc && s.pkg == pkg && s.key == key {
				out = append(out, s)
			}
		}
		return out
	}
	for _, s := range sites {
		if !s.inc {
			continue
		}
		key := ord.next(s.fn, "inc-"+s.key)
		ds := decsOf(s.pkg, s.key)
		if len(ds) == 0 {
			c.Fail("C10.PAIR", key, s.in.Pos(), "increment of "+s.key+" has no decrement anywhere in its package")
			continue
		}
		idiom, why, matched := c10Classify(c, s, ds)
		if idiom == "" {
			c.Fail("C10.PAIR", key, s.in.Pos(), "increment of "+s.key+" is not paired with its decrement by a recognised idiom: "+why)
			continue
		}
		for _, d := range matched {
			d.used = true
		}
		c.Pass("C10.PAIR", key, s.in.Pos(), idiom+": "+why)
	}
	for _, s := range sites {
		if s.inc || s.used {
			continue
		}
		c.Fail("C10.PAIR", ord.next(s.fn, "dec-"+s.key), s.in.Pos(), "decrement of "+s.key+" belongs to no increment/decrement pair (orphan): the counter can go negative and its limit stops tripping")
	}
	c10Once(c)
	c10Overflow(c, sites)
	c10Identity(c)
}

// controlEquivalent: a and b execute on exactly the same paths of their function (a before b).
func controlEquivalent(a, b ssa.Instruction) bool {
	if a.Parent() != b.Parent() {
		return false
	}
	if !instrDominates(a, b) {
		a, b = b, a
		if !instrDominates(a, b) {
			return false
		}
	}
	// every path from a to a return passes b
	return existsPath(a.Parent(), a, isReturn, func(in ssa.Instruction) bool { return in == b }) == nil
}

// unconditionalIn: the instruction executes on every path from entry to a return of its function
// (early exits before it are allowed only if they are panics).
func unconditionalIn(in ssa.Instruction) bool {
	return existsPath(in.Parent(), nil, isReturn, func(x ssa.Instruction) bool { return x == in }) == nil
}

// guardedByCall: in's block is dominated by the `want` edge of a call to method `name`.
func guardedByCall(in ssa.Instruction, name string, want bool) bool {
	for _, g := range guardsAt(in.Block()) {
		if call, ok := g.Cond.(*ssa.Call); ok && methodName(call.Common()) == name && g.True == want {
			return true
		}
	}
	return false
}

func c10Classify(c *Ctx, s *ctrSite, ds []*ctrSite) (idiom, why string, matched []*ctrSite) {
	fn := s.fn
	closeWhy := ""
	// I1: listener-paired
	for _, cs := range callsIn(fn, false, func(cc *ssa.CallCommon) bool { return cc.IsInvoke() && cc.Method.Name() == "AddEventListener" }) {
		if !controlEquivalent(s.in, cs.Instr) {
			continue
		}
		lt := stripIface(cs.Instr.Common().Args[0]).Type()
		od := unwrapPromoted(c.methodOf(lt, "OnDestroyStream"))
		if od == nil || len(od.Blocks) == 0 {
			continue
		}
		for _, d := range ds {
			if d.fn == od && unconditionalIn(d.in) {
				matched = append(matched, d)
			} else if unconditionalIn(d.in) {
				// decrement in a helper called unconditionally from OnDestroyStream
				for _, call := range callsIn(od, false, func(cc *ssa.CallCommon) bool { return cc.StaticCallee() == d.fn }) {
					if unconditionalIn(call.Instr) {
						matched = append(matched, d)
					}
				}
			}
		}
		if len(matched) > 0 {
			return "I1 listener-paired", fmt.Sprintf("control-equivalent with AddEventListener(%s); decremented unconditionally by its OnDestroyStream", shortTypeName(lt)), matched
		}
		return "", "the increment is tied to AddEventListener(" + shortTypeName(lt) + ") but that listener's OnDestroyStream does not decrement " + s.key + " unconditionally", nil
	}
	if len(callsIn(fn, false, func(cc *ssa.CallCommon) bool { return cc.IsInvoke() && cc.Method.Name() == "AddEventListener" })) > 0 && strings.HasSuffix(fn.Name(), "NewStream") {
		return "", "the increment and AddEventListener are not executed on exactly the same paths (one can happen without the other)", nil
	}
	// I4: event-paired — after a successful Connect(), or together with AddConnectionEventListener
	evt := false
	for _, cs := range callsIn(fn, false, func(cc *ssa.CallCommon) bool { return methodName(cc) == "Connect" }) {
		// success continuation: increment dominated by the err==nil edge of `err := Connect()`
		for _, g := range guardsAt(s.in.Block()) {
			if bo, ok := g.Cond.(*ssa.BinOp); ok && bo.X == cs.Instr.(ssa.Value) && isNilConst(bo.Y) {
				if (bo.Op == token.NEQ && !g.True) || (bo.Op == token.EQL && g.True) {
					evt = true
				}
			}
		}
		// retry loop: a flag is set to true only on the Connect()==nil edge and the increment is guarded by the flag
		if !evt {
			for _, g := range guardsAt(s.in.Block()) {
				phi, ok := g.Cond.(*ssa.Phi)
				if !ok || !g.True {
					continue
				}
				okFlag, sawTrue := true, false
				for i, e := range phi.Edges {
					bv, isC := constBool(e)
					if !isC {
						if e == ssa.Value(phi) {
							continue
						}
						okFlag = false
						break
					}
					if bv {
						sawTrue = true
						pred := phi.Block().Preds[i]
						succ := false
						for _, pg := range guardsAt(pred) {
							if bo, ok := pg.Cond.(*ssa.BinOp); ok && bo.X == cs.Instr.(ssa.Value) && isNilConst(bo.Y) && ((bo.Op == token.NEQ && !pg.True) || (bo.Op == token.EQL && pg.True)) {
								succ = true
							}
						}
						if !succ {
							okFlag = false
						}
					}
				}
				if okFlag && sawTrue {
					evt = true
				}
			}
		}
	}
	hasConnect := len(callsIn(fn, false, func(cc *ssa.CallCommon) bool { return methodName(cc) == "Connect" })) > 0
	if !hasConnect {
		// an accepted (server side) connection: counted together with registering its event listener
		for _, cs := range callsIn(fn, false, func(cc *ssa.CallCommon) bool { return methodName(cc) == "AddConnectionEventListener" }) {
			if controlEquivalent(s.in, cs.Instr) {
				evt = true
			}
		}
	}
	if evt {
		for _, d := range ds {
			if ok, _ := coversCloseEvents(d.in); ok {
				matched = append(matched, d)
				continue
			}
			// decrement in a helper every call of which is under event.IsClose()
			if unconditionalIn(d.in) {
				n, all := 0, true
				anyReplace := false
				for _, f := range c.PkgFuncs(s.pkg) {
					for _, call := range callsIn(f, true, func(cc *ssa.CallCommon) bool { return cc.StaticCallee() == d.fn }) {
						if onClose, _ := coversCloseEvents(call.Instr); guardedByFieldLoadEq(call.Instr, "goaway", 1, true) && !onClose {
							anyReplace = true
						}
					}
				}
				for _, f := range c.PkgFuncs(s.pkg) {
					for _, call := range callsIn(f, true, func(cc *ssa.CallCommon) bool { return cc.StaticCallee() == d.fn }) {
						n++
						// exactly-one-of idiom of the http2 pool: the helper runs either when a go-away client is replaced
						onClose, whyNot := coversCloseEvents(call.Instr)
						if !onClose && whyNot != "" && closeWhy == "" && !guardedByFieldLoadEq(call.Instr, "goaway", 1, true) {
							closeWhy = whyNot + " (call of " + d.fn.Name() + " in " + f.Name() + ")"
						}
						closeSite := onClose && !guardedByFieldLoadEq(call.Instr, "goaway", 1, true)
						replaceSite := guardedByFieldLoadEq(call.Instr, "goaway", 1, true) && !onClose
						if !closeSite && !replaceSite {
							all = false
						}
						// (goaway == 1), or on the close event of a client that still occupies the slot the helper clears (a replaced
						// client was removed by the replace site already).
						// A go-away flag does not say whether the replacement happened: `goaway != 1` as the close-site guard leaves
						// the gauge at 1 for a go-away client that closes before the next request reaches the pool.
						if closeSite && anyReplace && !guardedBySlotIdentity(call.Instr, d.fn) {
							all = false
							if closeWhy == "" {
								closeWhy = "the close event releases the client without testing that it still occupies the pool's slot, or skips the release on the go-away flag, which does not tell whether the client was replaced (call of " + d.fn.Name() + " in " + f.Name() + ")"
							}
						}
					}
				}
				if n > 0 && all {
					matched = append(matched, d)
				}
			}
		}
		if len(matched) > 0 {
			return "I4 event-paired", "incremented once the connection is established / its event listener registered; decremented under event.IsClose()", matched
		}
		// token variant for the resource in streamproxy (I3)
	}
	// I3: token-paired
	//  (a) bool token: a store of true to a field in the same block after the increment; decrement guarded by that field and cleared
	for _, in := range s.in.Block().Instrs {
		st, ok := in.(*ssa.Store)
		if !ok {
			continue
		}
		if b, isB := constBool(st.Val); isB && b {
			if _, tok, _, ok := fieldAddrInfo(st.Addr); ok {
				for _, d := range ds {
					guard := false
					for _, g := range guardsAt(d.in.Block()) {
						if _, f, _, ok := loadedField(g.Cond); ok && f == tok && g.True {
							guard = true
						}
					}
					cleared := false
					for _, x := range d.in.Block().Instrs {
						if s2, ok := x.(*ssa.Store); ok {
							if bv, isB := constBool(s2.Val); isB && !bv {
								if _, f2, _, ok := fieldAddrInfo(s2.Addr); ok && f2 == tok {
									cleared = true
								}
							}
						}
					}
					if guard && cleared {
						matched = append(matched, d)
					}
				}
				if len(matched) > 0 {
					return "I3 token-paired", "token " + tok + " set with the increment; decrement only while the token is set, token cleared with it", matched
				}
			}
		}
	}
	//  (b) host token: SetUpstreamHost(host) in the same block; decrement guarded by UpstreamHost().(types.Host) ok
	for _, in := range s.in.Block().Instrs {
		if ci, ok := in.(ssa.CallInstruction); ok && methodName(ci.Common()) == "SetUpstreamHost" {
			for _, d := range ds {
				for _, g := range guardsAt(d.in.Block()) {
					if ex, ok := g.Cond.(*ssa.Extract); ok && ex.Index == 1 && g.True {
						if ta, ok := ex.Tuple.(*ssa.TypeAssert); ok {
							if call, ok := ta.X.(*ssa.Call); ok && methodName(call.Common()) == "UpstreamHost" {
								matched = append(matched, d)
							}
						}
					}
				}
			}
			if len(matched) > 0 {
				return "I3 token-paired", "upstream host recorded with the increment; decrement only when UpstreamHost() holds a host (close events are delivered once per connection)", matched
			}
		}
	}
	// I2: CAS-paired — increment in the stream constructor; decrement in a function only called behind a one-shot CAS
	if strings.HasPrefix(fn.Name(), "newActiveStream") {
		for _, d := range ds {
			if !unconditionalIn(d.in) {
				continue
			}
			okAll, n := true, 0
			for _, f := range c.PkgFuncs(s.pkg) {
				for _, cs := range callsIn(f, true, func(cc *ssa.CallCommon) bool { return cc.StaticCallee() == d.fn }) {
					n++
					if !behindCAS(cs.Instr) {
						okAll = false
					}
				}
			}
			if okAll && n > 0 {
				matched = append(matched, d)
			}
		}
		if len(matched) > 0 {
			return "I2 CAS-paired", "incremented when the stream is created; decremented in a function whose every call site is behind a successful one-shot CompareAndSwap", matched
		}
	}
	if closeWhy != "" {
		return "", "the increment is tied to the connection's event listener, but its decrement is " + closeWhy + ": a connection ended by that event is never subtracted, so the gauge does not return to zero", nil
	}
	return "", "no AddEventListener / Connect-success / token / constructor context recognised around the increment in " + fn.Name(), nil
}

// behindCAS: the instruction is dominated by the success edge of an atomic CompareAndSwap (in its function).
func behindCAS(in ssa.Instruction) bool {
	for _, g := range guardsAt(in.Block()) {
		if call, ok := g.Cond.(*ssa.Call); ok && isAtomicCall(call.Common(), "CompareAndSwap") && g.True {
			return true
		}
	}
	return false
}

func c10Once(c *Ctx) {
	// BaseStream.DestroyStream: listener loop behind CAS
	if fn := c.M("pkg/stream", "BaseStream", "DestroyStream"); fn == nil {
		c.Unresolved("C10.ONCE", "(*BaseStream).DestroyStream")
	} else {
		cs := callsIn(fn, false, func(cc *ssa.CallCommon) bool { return cc.IsInvoke() && cc.Method.Name() == "OnDestroyStream" })
		ok := len(cs) == 1 && behindCAS(cs[0].Instr)
		c.Check("C10.ONCE", funcKey(fn)+":listeners-behind-cas", fn.Pos(), ok, "OnDestroyStream listeners run only on the CAS-winner edge", "stream listeners' OnDestroyStream is not behind the one-shot CompareAndSwap: a stream destroyed twice would decrement twice")
	}
	// connection.Close: OnConnectionEvent behind CAS on closed and behind rawConnection != nil
	if fn := c.M("pkg/network", "connection", "Close"); fn == nil {
		c.Unresolved("C10.ONCE", "(*connection).Close")
	} else {
		cs := callsIn(fn, false, func(cc *ssa.CallCommon) bool { return methodName(cc) == "OnConnectionEvent" })
		ok := len(cs) == 1 && behindCAS(cs[0].Instr)
		c.Check("C10.ONCE", funcKey(fn)+":event-behind-cas", fn.Pos(), ok, "the close event is emitted only by the CAS winner", "connection.Close can emit its close event more than once")
		est := false
		if len(cs) == 1 {
			for _, g := range guardsAt(cs[0].Instr.Block()) {
				if bo, ok := g.Cond.(*ssa.BinOp); ok && isNilConst(bo.Y) {
					if _, f, _, ok := loadedField(bo.X); ok && f == "rawConnection" && ((bo.Op == token.EQL && !g.True) || (bo.Op == token.NEQ && g.True)) {
						est = true
					}
				}
			}
		}
		c.Check("C10.ONCE", funcKey(fn)+":event-only-if-established", fn.Pos(), est, "no close event for a connection that never got a raw connection", "a close event can be emitted for a connection that was never established (decrement without increment)")
	}
	// downStream.cleanStream body behind CAS on downstreamCleaned; requestMetrics only from there
	if fn := c.M("pkg/proxy", "downStream", "cleanStream"); fn == nil {
		c.Unresolved("C10.ONCE", "(*downStream).cleanStream")
	} else {
		cs := callsIn(fn, false, func(cc *ssa.CallCommon) bool { return methodName(cc) == "requestMetrics" })
		ok := len(cs) == 1 && behindCAS(cs[0].Instr)
		c.Check("C10.ONCE", funcKey(fn)+":metrics-behind-cas", fn.Pos(), ok, "requestMetrics runs only on the downstreamCleaned CAS-winner edge", "requestMetrics (which decrements the active gauges) is not behind the one-shot cleanStream CAS")
	}
}

func c10Overflow(c *Ctx, sites []*ctrSite) {
	// in every NewStream: no path from an increment to a return carrying types.Overflow
	seen := map[*ssa.Function]bool{}
	for _, s := range sites {
		if !s.inc || seen[s.fn] || !strings.HasSuffix(s.fn.Name(), "NewStream") {
			continue
		}
		seen[s.fn] = true
		bad := false
		for _, s2 := range sites {
			if s2.fn != s.fn || !s2.inc {
				continue
			}
			if existsPath(s.fn, s2.in, func(in ssa.Instruction) bool {
				ret, ok := in.(*ssa.Return)
				if !ok || len(ret.Results) != 3 {
					return false
				}
				k, ok := unspill(ret, 2).(*ssa.Const)
				if !ok {
					return true // a non-constant failure reason after an increment
				}
				str, _ := constString(k)
				return str != ""
			}, nil) != nil {
				bad = true
			}
		}
		c.Check("C10.OVF", funcKey(s.fn)+":no-failure-after-increment", s.fn.Pos(), !bad, "every failure return (Overflow, ConnectionFailure) is reached before any increment", "a failure reason can be returned after a counter was already incremented: the refused request is never decremented")
	}
	// resource.CanCreate
	fn := c.M("pkg/upstream/cluster", "resource", "CanCreate")
	if fn == nil {
		c.Unresolved("C10.OVF", "(*resource).CanCreate")
		return
	}
	// shape: max == 0 → true ; return cur < max
	okCmp, okZero, badCmp := false, false, false
	forEachInstr(fn, false, func(_ *ssa.Function, in ssa.Instruction) {
		bo, ok := in.(*ssa.BinOp)
		if !ok {
			return
		}
		if bo.Op == token.LSS {
			isMax := false
			if call, ok := stripConvNum(bo.Y).(*ssa.Call); ok && methodName(call.Common()) == "Max" {
				isMax = true
			}
			if _, f, _, ok := loadedField(stripConvNum(bo.Y)); ok && f == "max" {
				isMax = true
			}
			if call, ok := stripConvNum(bo.X).(*ssa.Call); ok && isMax && (methodName(call.Common()) == "Cur" || isAtomicCall(call.Common(), "Load")) {
				okCmp = true
			}
			if _, f, _, ok := loadedField(stripConvNum(bo.X)); ok && isMax && strings.Contains(strings.ToLower(f), "cur") {
				okCmp = true
			}
		}
		if (bo.Op == token.LEQ || bo.Op == token.GEQ || bo.Op == token.GTR) && !isZero(bo.Y) {
			badCmp = true
		}
		if bo.Op == token.EQL && isZero(bo.Y) {
			okZero = true
		}
	})
	c.Check("C10.OVF", funcKey(fn)+":threshold", fn.Pos(), okCmp && !badCmp, "CanCreate is `current < max`", "CanCreate is not `current < max`: the limit does not trip at its threshold")
	c.Check("C10.OVF", funcKey(fn)+":zero-unlimited", fn.Pos(), okZero, "max == 0 means unlimited", "CanCreate lost the max == 0 (unlimited) case")
	// the step of Increase/Decrease: counter-step-exact (c10CounterStepExact) accepts an atomic Add or a successful CAS
}

// guardedByFieldLoadEq: in's block is dominated by the `want` edge of `atomic.Load(&x.<field>) == k` (or a plain load).
func guardedByFieldLoadEq(in ssa.Instruction, field string, k int64, want bool) bool {
	for _, g := range guardsAt(in.Block()) {
		bo, ok := g.Cond.(*ssa.BinOp)
		if !ok || (bo.Op != token.EQL && bo.Op != token.NEQ) {
			continue
		}
		n, isC := constInt(bo.Y)
		if !isC || n != k {
			continue
		}
		isField := false
		if call, ok := bo.X.(*ssa.Call); ok && isAtomicCall(call.Common(), "Load") {
			if _, f, _, ok := fieldAddrInfo(call.Common().Args[0]); ok && f == field {
				isField = true
			}
		}
		if _, f, _, ok := loadedField(bo.X); ok && f == field {
			isField = true
		}
		if !isField {
			continue
		}
		eq := (bo.Op == token.EQL) == g.True
		if eq == want {
			return true
		}
	}
	return false
}

// guardedBySlotIdentity: the call of helper is under `recv.F == <parameter>` where the helper stores nil to F: the helper
// runs for the parameter only while it occupies the slot, and empties the slot, so it runs at most once per occupant.
func guardedBySlotIdentity(in ssa.Instruction, helper *ssa.Function) bool {
	cleared := map[string]bool{}
	forEachInstr(helper, false, func(_ *ssa.Function, i ssa.Instruction) {
		if st, ok := i.(*ssa.Store); ok && isNilConst(st.Val) {
			if _, f, _, ok := fieldAddrInfo(st.Addr); ok {
				cleared[f] = true
			}
		}
	})
	for _, g := range guardsAt(in.Block()) {
		bo, ok := g.Cond.(*ssa.BinOp)
		if !ok || !((bo.Op == token.EQL && g.True) || (bo.Op == token.NEQ && !g.True)) {
			continue
		}
		for _, pr := range [][2]ssa.Value{{bo.X, bo.Y}, {bo.Y, bo.X}} {
			_, f, _, okF := loadedField(pr[0])
			_, isParam := pr[1].(*ssa.Parameter)
			if okF && isParam && cleared[f] {
				return true
			}
		}
	}
	return false
}

func usesField(fn *ssa.Function, field string) bool {
	return len(fieldAccesses(fn, "", field, true)) > 0
}

// c10Identity: pools, hosts and retry states created before a cluster update keep the ClusterInfo they were built
// with; the pairing of an Increase with its Decrease therefore needs the updated cluster to SHARE the old cluster's
// resource manager object (counters copied into a second manager would be decremented on the wrong one).
func c10Identity(c *Ctx) {
	pkg := "pkg/upstream/cluster"
	fn := c.F(pkg, "UpdateClusterResourceManagerHandler")
	if fn == nil {
		c.Unresolved("C10.IDENT", "cluster.UpdateClusterResourceManagerHandler")
		return
	}
	fk := funcKey(fn)
	// store into (new clusterInfo).resourceManager of the old snapshot's ResourceManager()
	shared := false
	for _, st := range storesToField(fn, ".clusterInfo", "resourceManager", false) {
		call, ok := st.Val.(*ssa.Call)
		if !ok || methodName(call.Common()) != "ResourceManager" {
			continue
		}
		// the receiver chain must come from the OLD cluster parameter (param 0), the stored-into object from the NEW one (param 1)
		if rootsAtParam(call.Common().Value, fn.Params[0]) && rootsAtParam(st.Addr, fn.Params[1]) {
			shared = true
		}
	}
	c.Check("C10.IDENT", fk+":shares-manager", fn.Pos(), shared, "the updated cluster takes over the old cluster's resource manager object", "after a cluster update the new cluster no longer shares the old cluster's resource manager: requests admitted before the update are released on another object than the one that counts them, so counters never return to zero")
	// it is invoked on every cluster update path
	n := 0
	for _, f := range c.PkgFuncs(pkg) {
		n += len(callsIn(f, true, func(cc *ssa.CallCommon) bool { return cc.StaticCallee() == fn }))
	}
	c.Check("C10.IDENT", fk+":called-on-update", fn.Pos(), n >= 2, fmt.Sprintf("%d update paths call the handler", n), "cluster update paths no longer call UpdateClusterResourceManagerHandler")
	// nobody overwrites a live counter
	bad := []string{}
	for _, p := range c10Pkgs {
		for _, f := range c.PkgFuncs(p) {
			for range callsIn(f, true, func(cc *ssa.CallCommon) bool { return methodName(cc) == "UpdateCur" }) {
				bad = append(bad, funcKey(f))
			}
		}
	}
	c.Check("C10.IDENT", "pkg/upstream/cluster.resource.UpdateCur:no-production-caller", token.NoPos, len(bad) == 0, "no production code overwrites a live counter (UpdateCur)", "a live counter is overwritten (UpdateCur) by "+strings.Join(bad, ",")+": concurrent Increase/Decrease are lost")
}

// rootsAtParam: following receivers/loads/field addresses/type asserts backwards from v reaches parameter p.
func rootsAtParam(v ssa.Value, p *ssa.Parameter) bool {
	for i := 0; i < 24; i++ {
		switch x := v.(type) {
		case *ssa.Parameter:
			return x == p
		case *ssa.Call:
			if rv := recvOf(x.Common()); rv != nil {
				v = rv
				continue
			}
			return false
		case *ssa.FieldAddr:
			v = x.X
		case *ssa.UnOp:
			v = x.X
		case *ssa.TypeAssert:
			v = x.X
		case *ssa.Extract:
			v = x.Tuple
		case *ssa.ChangeInterface:
			v = x.X
		case *ssa.MakeInterface:
			v = x.X
		case *ssa.Phi:
			return false
		default:
			return false
		}
	}
	return false
}

// c10RetryAbort (PAIR, retries breaker): the retry state is never dropped while it may hold a slot.
// retryState.retry() takes a slot of the cluster's retries resource when it grants a retry and remembers it
// (retrySlotHeld); reset() gives it back and is idempotent. The end-of-request cleanup releases through s.retryState, so a
// state that was dropped (s.retryState = nil: a locally answered request is never retried) can never release later.
// Clause: every store of nil into downStream.retryState is dominated, in the same function, by a reset() on that state
// (under the usual non-nil test). With it, any path that gives up a granted retry (doRetry without a host, a filter's
// TerminateStream while the retry is in flight) returns the slot.
func c10RetryAbort(c *Ctx) {
	pkg := "pkg/proxy"
	n := 0
	ord := ordCounter{}
	for _, fn := range c.PkgFuncs(pkg) {
		for _, st := range storesToField(fn, ".downStream", "retryState", false) {
			if !isNilConst(st.Val) {
				continue
			}
			n++
			key := ord.next(fn, "retry-state-dropped")
			released := false
			for _, cs := range callsIn(fn, false, func(cc *ssa.CallCommon) bool {
				f := cc.StaticCallee()
				return f != nil && f.Name() == "reset" && strings.Contains(f.String(), "retryState")
			}) {
				// the reset sits on the non-nil branch right before the store: it must execute on every path on which the
				// state is non-nil, i.e. the only way around it is the `retryState == nil` edge
				if existsPath(fn, cs.Instr, func(x ssa.Instruction) bool { return x == ssa.Instruction(st) }, nil) == nil {
					continue
				}
				bypass := existsPathEdges(fn, nil, func(x ssa.Instruction) bool { return x == ssa.Instruction(st) }, func(x ssa.Instruction) bool { return x == cs.Instr },
					func(from, to *ssa.BasicBlock) bool {
						// forbid the edge that asserts retryState == nil (nothing to release there)
						if ifi, ok := from.Instrs[len(from.Instrs)-1].(*ssa.If); ok {
							if bo, ok := ifi.Cond.(*ssa.BinOp); ok && isNilConst(bo.Y) {
								if _, f, _, okf := loadedField(bo.X); okf && f == "retryState" {
									nilEdge := from.Succs[1]
									if bo.Op == token.EQL {
										nilEdge = from.Succs[0]
									}
									if to == nilEdge {
										return false
									}
								}
							}
						}
						return true
					})
				if bypass == nil {
					released = true
				}
			}
			c.Check("C10.PAIR", key, st.Pos(), released, "reset() releases a held retry slot before the state is dropped", "downStream.retryState is set to nil without calling reset() first: a retries-breaker slot held by a granted retry (doRetry giving up, TerminateStream while the retry is in flight) can never be released afterwards - the breaker stays tripped while the proxy is idle")
		}
	}
	if n < 1 {
		c.Unresolved("C10.PAIR", "stores of nil into downStream.retryState")
	}
}

// ---------------------------------------------------------------------------------------------
// "on every close event": event.IsClose() is the repository's definition of the events that end a connection. A decrement
// (or the helper containing it) tied to connection events must run for each of them; a hand-written list of event
// constants is accepted when it covers the same set. The set is frozen here and, in the thorough tier (dependencies
// loaded with bodies), recomputed from the SSA of mosn.io/api.ConnectionEvent.IsClose and compared.
var closeEvents = []string{"LocalClose", "OnReadErrClose", "OnWriteErrClose", "OnWriteTimeout", "RemoteClose"}

// the other values of api.ConnectionEvent (cross-checked against the constants declared in mosn.io/api on every run)
var otherEvents = []string{"ConnectFailed", "ConnectTimeout", "ConnectedFlag", "OnConnect", "OnReadTimeout", "OnShutdown"}

func c10CloseSetCrossCheck(c *Ctx) {
	// every tier: the two tables together are exactly the ConnectionEvent constants declared by mosn.io/api (type information)
	for _, p := range c.Prog.AllPackages() {
		if p.Pkg.Path() != "mosn.io/api" {
			continue
		}
		var all []string
		for _, name := range p.Pkg.Scope().Names() {
			if k, ok := p.Pkg.Scope().Lookup(name).(*types.Const); ok && strings.HasSuffix(k.Type().String(), "api.ConnectionEvent") {
				all = append(all, constant.StringVal(k.Val()))
			}
		}
		sort.Strings(all)
		tab := append(append([]string{}, closeEvents...), otherEvents...)
		sort.Strings(tab)
		c.Check("C10.PAIR", "mosn.io/api.ConnectionEvent:event-table", token.NoPos, strings.Join(all, ",") == strings.Join(tab, ","), "the checker's event tables list exactly the declared ConnectionEvent constants", "the checker's event tables ("+strings.Join(tab, ",")+") differ from the ConnectionEvent constants mosn.io/api declares ("+strings.Join(all, ",")+"): update the tables")
	}
	if c.Tier != "thorough" {
		return
	}
	var isClose *ssa.Function
	for fn := range c.all {
		if fn.Name() == "IsClose" && fn.Pkg != nil && fn.Pkg.Pkg.Path() == "mosn.io/api" && len(fn.Blocks) > 0 {
			isClose = fn
		}
	}
	if isClose == nil {
		c.Unresolved("C10.PAIR", "mosn.io/api.ConnectionEvent.IsClose (body needed for the close-event table cross-check)")
		return
	}
	got := map[string]bool{}
	forEachInstr(isClose, false, func(_ *ssa.Function, in ssa.Instruction) {
		if bo, ok := in.(*ssa.BinOp); ok && bo.Op == token.EQL {
			for _, side := range []ssa.Value{bo.X, bo.Y} {
				if s, okS := constStringVal(side); okS {
					got[s] = true
				}
			}
		}
	})
	var names []string
	for s := range got {
		names = append(names, s)
	}
	sort.Strings(names)
	c.Check("C10.PAIR", "mosn.io/api.ConnectionEvent.IsClose:close-event-table", isClose.Pos(), strings.Join(names, ",") == strings.Join(closeEvents, ","), "the frozen close-event table equals the set IsClose tests", "the close-event table of the checker ("+strings.Join(closeEvents, ",")+") differs from what mosn.io/api IsClose tests ("+strings.Join(names, ",")+"): update the table")
}

// coversCloseEvents: the instruction can be reached for every closing event of the function's ConnectionEvent parameter
// (If conditions on the event are evaluated for each event in turn; other conditions are followed both ways). Functions
// without such a parameter fall back to "dominated by the true edge of IsClose()".
func coversCloseEvents(site ssa.Instruction) (bool, string) {
	fn := site.Parent()
	var ev ssa.Value
	for _, p := range fn.Params {
		if strings.HasSuffix(p.Type().String(), "api.ConnectionEvent") {
			ev = p
		}
	}
	if ev == nil {
		if guardedByCall(site, "IsClose", true) {
			return true, ""
		}
		return false, "not under IsClose()"
	}
	isEv := func(v ssa.Value) bool {
		if v == ev {
			return true
		}
		// spilled parameter
		if u, ok := v.(*ssa.UnOp); ok {
			if al, ok := u.X.(*ssa.Alloc); ok {
				for _, r := range refs(al) {
					if st, ok := r.(*ssa.Store); ok && st.Addr == ssa.Value(al) && st.Val == ev {
						return true
					}
				}
			}
		}
		return false
	}
	reached := func(k string, closing bool) bool {
		edgeOK := eventEdgeOK(isEv, k, closing)
		return existsPathEdges(fn, nil, func(in ssa.Instruction) bool { return in == site }, nil, edgeOK) != nil
	}
	var missing, extra []string
	for _, k := range closeEvents {
		if !reached(k, true) {
			missing = append(missing, k)
		}
	}
	for _, k := range otherEvents {
		if reached(k, false) {
			extra = append(extra, k)
		}
	}
	if len(extra) > 0 && len(missing) == 0 {
		return false, "also reached for the event(s) " + strings.Join(extra, ",") + ", which do not end the connection"
	}
	if len(missing) > 0 {
		return false, "not reached for the close event(s) " + strings.Join(missing, ",")
	}
	return true, ""
}

// eventEdgeOK: an edge filter that evaluates the If conditions on the ConnectionEvent value ev for the concrete event k
// (closing says whether k is one of the closing events); conditions on anything else are followed both ways.
func eventEdgeOK(isEv func(ssa.Value) bool, k string, closing bool) func(from, to *ssa.BasicBlock) bool {
	return func(from, to *ssa.BasicBlock) bool {
		ifi, ok := from.Instrs[len(from.Instrs)-1].(*ssa.If)
		if !ok {
			return true
		}
		takenTrue := from.Succs[0] == to
		if from.Succs[0] == from.Succs[1] {
			return true
		}
		cond := ifi.Cond
		neg := false
		for {
			if u, ok := cond.(*ssa.UnOp); ok && u.Op == token.NOT {
				cond, neg = u.X, !neg
				continue
			}
			break
		}
		val, known := false, false
		switch x := cond.(type) {
		case *ssa.Call:
			if rv := recvOf(x.Common()); rv != nil && isEv(rv) {
				switch methodName(x.Common()) {
				case "IsClose":
					val, known = closing, true
				case "ConnectFailure":
					val, known = k == "ConnectFailed" || k == "ConnectTimeout", true
				}
			}
		case *ssa.BinOp:
			if x.Op == token.EQL || x.Op == token.NEQ {
				var other ssa.Value
				if isEv(x.X) {
					other = x.Y
				} else if isEv(x.Y) {
					other = x.X
				}
				if other != nil {
					if s, okS := constStringVal(other); okS {
						val, known = (s == k) == (x.Op == token.EQL), true
					}
				}
			}
		}
		if !known {
			return true
		}
		if neg {
			val = !val
		}
		return val == takenTrue
	}
}

// eventParamOf: the function's ConnectionEvent parameter and a predicate recognising it (also when spilled).
func eventParamOf(fn *ssa.Function) (ssa.Value, func(ssa.Value) bool) {
	var ev ssa.Value
	for _, p := range fn.Params {
		if strings.HasSuffix(p.Type().String(), "api.ConnectionEvent") {
			ev = p
		}
	}
	return ev, func(v ssa.Value) bool {
		if ev == nil {
			return false
		}
		if v == ev {
			return true
		}
		if u, ok := v.(*ssa.UnOp); ok {
			if al, ok := u.X.(*ssa.Alloc); ok {
				for _, r := range refs(al) {
					if st, ok := r.(*ssa.Store); ok && st.Addr == ssa.Value(al) && st.Val == ev {
						return true
					}
				}
			}
		}
		return false
	}
}

// mustRunOnCloseEvents: for every closing event, no path from the function's entry to a return avoids site.
func mustRunOnCloseEvents(site ssa.Instruction) (bool, string) {
	fn := site.Parent()
	ev, isEv := eventParamOf(fn)
	if ev == nil {
		return false, "no ConnectionEvent parameter"
	}
	var missing []string
	for _, k := range closeEvents {
		if existsPathEdges(fn, nil, isReturn, func(in ssa.Instruction) bool { return in == site }, eventEdgeOK(isEv, k, true)) != nil {
			missing = append(missing, k)
		}
	}
	if len(missing) > 0 {
		return false, "can be skipped for the close event(s) " + strings.Join(missing, ",")
	}
	return true, ""
}

// c10RetrySlotReleasedBeforeAdmission (PAIR, retries breaker): a request never counts itself against max_retries.
// "matched by exactly one decrement when that ... retry ... ends" and "the configured limits trip at their thresholds":
// when retryState.retry() is asked for another attempt, the retry that has just ended still holds its slot. Clause:
// every query of the retries resource's CanCreate() reachable from retry() - directly or through shouldRetry - is
// dominated by the reset() that gives that slot back (a call on the same state, not deferred). Otherwise the breaker
// sees the request's own finished retry as a retry in progress and trips one below its threshold.
func c10RetrySlotReleasedBeforeAdmission(c *Ctx) {
	pkg := "pkg/proxy"
	fn := c.M(pkg, "retryState", "retry")
	if fn == nil {
		c.Unresolved("C10.PAIR", "retryState.retry")
		return
	}
	asksBreaker := func(f *ssa.Function) bool {
		found := false
		for g := range staticReach([]*ssa.Function{f}, pkg) {
			forEachInstr(g, true, func(_ *ssa.Function, in ssa.Instruction) {
				if ci, ok := in.(ssa.CallInstruction); ok && methodName(ci.Common()) == "CanCreate" {
					found = true
				}
			})
		}
		return found
	}
	n := 0
	forEachInstr(fn, false, func(_ *ssa.Function, in ssa.Instruction) {
		ci, ok := in.(*ssa.Call)
		if !ok {
			return
		}
		query := methodName(ci.Common()) == "CanCreate"
		if callee := ci.Common().StaticCallee(); callee != nil && len(callee.Blocks) > 0 && callee.Pkg == fn.Pkg && callee.Name() != "reset" && asksBreaker(callee) {
			query = true
		}
		if !query {
			return
		}
		n++
		released := false
		for _, cs := range callsIn(fn, false, func(cc *ssa.CallCommon) bool {
			f := cc.StaticCallee()
			return f != nil && f.Name() == "reset" && strings.Contains(f.String(), "retryState")
		}) {
			if _, isCall := cs.Instr.(*ssa.Call); isCall && instrDominates(cs.Instr, in) && len(cs.Instr.Common().Args) > 0 && sameParam(cs.Instr.Common().Args[0], fn.Params[0]) {
				released = true
			}
		}
		c.Check("C10.PAIR", fmt.Sprintf("%s:slot-released-before-admission#%d", funcKey(fn), n), in.Pos(), released, "reset() dominates the breaker query", "retry() consults the retries breaker while the state may still hold the slot of the retry that just ended: the request counts itself against max_retries, so the breaker refuses a retry (RetryOverflow) below its threshold, and the slot of a finished retry is not released when that retry ends")
	})
	if n < 1 {
		c.Unresolved("C10.PAIR", "the retries-breaker query (CanCreate) reachable from retryState.retry")
	}
}

// c10CounterStepExact (OVF / C09.R10): one admission moves a breaker counter by exactly one, one release by exactly minus one.
// The pools and the proxy pair every Increase() with one Decrease() (PAIR). The pairing conserves the books only if the
// counter itself does what it is told: in (*resource).Increase every path to the return adds exactly 1 to `current`
// (atomic.AddInt64, or a successful CompareAndSwap from x to x+1), in Decrease exactly -1 - the only path that may skip the
// step is "this resource is unlimited" (max == 0). A counter that saturates at its threshold or clamps at zero swallows
// one side of a pair whenever admissions race: the gauge under-counts what is in flight and the limit stops tripping at its
// threshold.
func c10CounterStepExact(c *Ctx, rule string) {
	pkg := "pkg/upstream/cluster"
	for _, spec := range []struct {
		name string
		step int64
	}{{"Increase", 1}, {"Decrease", -1}} {
		fn := c.M(pkg, "resource", spec.name)
		if fn == nil {
			c.Unresolved(rule, "(*resource)."+spec.name)
			continue
		}
		isCurrent := func(v ssa.Value) bool {
			_, f, _, ok := fieldAddrInfo(v)
			return ok && f == "current"
		}
		isStep := func(in ssa.Instruction) bool {
			call, ok := in.(*ssa.Call)
			if !ok {
				return false
			}
			name := calleeName(call.Common())
			args := call.Common().Args
			switch {
			case strings.HasSuffix(name, "atomic.AddInt64") && len(args) == 2 && isCurrent(args[0]):
				k, isK := constInt(args[1])
				return isK && k == spec.step
			}
			return false
		}
		// a successful CAS(&current, x, x+step): the step happens on the true edge of the call's result
		casOK := func(from, to *ssa.BasicBlock) bool { return false }
		_ = casOK
		unlimitedEdge := func(from, to *ssa.BasicBlock) bool {
			ifi, ok := from.Instrs[len(from.Instrs)-1].(*ssa.If)
			if !ok {
				return false
			}
			bo, ok := ifi.Cond.(*ssa.BinOp)
			if !ok || !isZero(bo.Y) {
				return false
			}
			isMax := false
			if _, f, _, okf := loadedField(bo.X); okf && f == "max" {
				isMax = true
			}
			if call, okc := bo.X.(*ssa.Call); okc && methodName(call.Common()) == "Max" {
				isMax = true
			}
			if !isMax {
				return false
			}
			switch bo.Op {
			case token.EQL:
				return to == from.Succs[0]
			case token.NEQ:
				return to == from.Succs[1]
			}
			return false
		}
		casStepEdge := func(from, to *ssa.BasicBlock) bool {
			ifi, ok := from.Instrs[len(from.Instrs)-1].(*ssa.If)
			if !ok || to != from.Succs[0] {
				return false
			}
			call, ok := ifi.Cond.(*ssa.Call)
			if !ok || !strings.HasSuffix(calleeName(call.Common()), "atomic.CompareAndSwapInt64") || len(call.Common().Args) != 3 || !isCurrent(call.Common().Args[0]) {
				return false
			}
			bo, ok := call.Common().Args[2].(*ssa.BinOp)
			if !ok || bo.X != call.Common().Args[1] {
				return false
			}
			k, isK := constInt(bo.Y)
			return isK && ((bo.Op == token.ADD && k == spec.step) || (bo.Op == token.SUB && k == -spec.step))
		}
		bad := existsPathEdges(fn, nil, isReturn, isStep, func(from, to *ssa.BasicBlock) bool {
			// (until repair 70 the step could be skipped for an unlimited resource; the limit can change at runtime while
			// counted requests are in flight, so the counter moves on every path now)
			_ = unlimitedEdge
			return !casStepEdge(from, to)
		})
		nstep := len(instrsWhere(fn, isStep))
		ncas := 0
		for _, b := range fn.Blocks {
			for _, s := range b.Succs {
				if casStepEdge(b, s) {
					ncas++
				}
			}
		}
		pos := fn.Pos()
		if bad != nil {
			pos = nearestPos(bad)
		}
		c.Check(rule, funcKey(fn)+":counter-step-exact", pos, bad == nil && nstep+ncas >= 1, fmt.Sprintf("every path changes `current` by %+d", spec.step), fmt.Sprintf("(*resource).%s can return without changing the counter by %+d (a saturating, clamping or limit-dependent counter): when admissions race past CanCreate, or when the limit is changed at runtime while requests are in flight, one side of an Increase/Decrease pair is swallowed - the counter stays above zero with nothing in flight (the breaker stays open) or goes below zero (the limit is not enforced)", spec.name, spec.step))
	}
}
