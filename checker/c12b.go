package main

import (
	"fmt"
	"go/token"
	"go/types"
	"sort"
	"strings"

	"golang.org/x/tools/go/ssa"
)

// C12.R5 — the recorders really record.
//
// C12.R1 shows that every live-state mutator calls its recorder (configmanager.Set*). That is worth nothing if the
// recorder can decide not to store what it was given. Rule: in every exported configmanager function that writes the
// effective-config model `conf`, every path from entry to return passes through a write of conf-rooted memory whose value
// derives from a parameter (or a delete keyed by a parameter). The only exits allowed to skip it are
//   - the nil-parameter guard (nothing to record),
//   - the miss edge of a lookup in a conf map keyed by a parameter (no entry to attach the value to: key only, never the value),
//   - a whole-value reflect.DeepEqual(stored, parameter) (recording would not change the model).
// Boolean flags that are phis of constants (`found`) are resolved along the path, so the search is exact for that idiom.

func confRootedAddr(v ssa.Value, depth int) bool {
	if depth > 6 {
		return false
	}
	switch x := v.(type) {
	case *ssa.Global:
		return x.Name() == "conf" && x.Pkg != nil && strings.HasSuffix(x.Pkg.Pkg.Path(), "pkg/configmanager")
	case *ssa.FieldAddr:
		return confRootedAddr(x.X, depth+1)
	case *ssa.IndexAddr:
		return confRootedAddr(x.X, depth+1)
	case *ssa.UnOp:
		if x.Op == token.MUL {
			return confRootedAddr(x.X, depth+1)
		}
	}
	return false
}

// flowsFromParam: v is computed from one of the function's parameters (through loads of locals that were stored to,
// fields, conversions, composite values).
func flowsFromParam(v ssa.Value, seen map[ssa.Value]bool, depth int) bool {
	if v == nil || seen[v] || depth > 10 {
		return false
	}
	seen[v] = true
	switch x := v.(type) {
	case *ssa.Parameter:
		return true
	case *ssa.UnOp:
		if x.Op == token.MUL {
			if al, ok := x.X.(*ssa.Alloc); ok {
				return allocFedByParam(al, seen, depth+1)
			}
		}
		return flowsFromParam(x.X, seen, depth+1)
	case *ssa.Alloc:
		return allocFedByParam(x, seen, depth+1)
	case *ssa.FieldAddr:
		return flowsFromParam(x.X, seen, depth+1)
	case *ssa.Field:
		return flowsFromParam(x.X, seen, depth+1)
	case *ssa.IndexAddr:
		return flowsFromParam(x.X, seen, depth+1)
	case *ssa.Extract:
		return flowsFromParam(x.Tuple, seen, depth+1)
	case *ssa.ChangeType:
		return flowsFromParam(x.X, seen, depth+1)
	case *ssa.Convert:
		return flowsFromParam(x.X, seen, depth+1)
	case *ssa.MakeInterface:
		return flowsFromParam(x.X, seen, depth+1)
	case *ssa.Slice:
		return flowsFromParam(x.X, seen, depth+1)
	case *ssa.Phi:
		for _, e := range x.Edges {
			if flowsFromParam(e, seen, depth+1) {
				return true
			}
		}
	case *ssa.Call:
		for _, a := range x.Call.Args {
			if flowsFromParam(a, seen, depth+1) {
				return true
			}
		}
	case *ssa.Lookup, *ssa.Next:
		return false
	}
	return false
}

func allocFedByParam(al *ssa.Alloc, seen map[ssa.Value]bool, depth int) bool {
	var fed func(addr ssa.Value, d int) bool
	fed = func(addr ssa.Value, d int) bool {
		if d > 4 {
			return false
		}
		for _, r := range refs(addr) {
			switch u := r.(type) {
			case *ssa.Store:
				if u.Addr == addr && flowsFromParam(u.Val, seen, depth+1) {
					return true
				}
			case *ssa.FieldAddr:
				if fed(u, d+1) {
					return true
				}
			case *ssa.IndexAddr:
				if fed(u, d+1) {
					return true
				}
			}
		}
		return false
	}
	return fed(al, 0)
}

// recordSite: instruction writes conf-rooted memory with a value (or key, for delete) that derives from a parameter.
func recordSite(in ssa.Instruction) bool {
	switch x := in.(type) {
	case *ssa.Store:
		return confRootedAddr(x.Addr, 0) && flowsFromParam(x.Val, map[ssa.Value]bool{}, 0)
	case *ssa.MapUpdate:
		return confRootedAddr(x.Map, 0) && flowsFromParam(x.Value, map[ssa.Value]bool{}, 0)
	case *ssa.Call:
		if b, ok := x.Call.Value.(*ssa.Builtin); ok && b.Name() == "delete" {
			return confRootedAddr(x.Call.Args[0], 0) && flowsFromParam(x.Call.Args[1], map[ssa.Value]bool{}, 0)
		}
	}
	return false
}

// anyConfWrite: the function writes the model at all (selects the recorders).
func anyConfWrite(fn *ssa.Function) bool {
	found := false
	forEachInstr(fn, false, func(_ *ssa.Function, in ssa.Instruction) {
		switch x := in.(type) {
		case *ssa.Store:
			if confRootedAddr(x.Addr, 0) {
				found = true
			}
		case *ssa.MapUpdate:
			if confRootedAddr(x.Map, 0) {
				found = true
			}
		case *ssa.Call:
			if b, ok := x.Call.Value.(*ssa.Builtin); ok && b.Name() == "delete" && confRootedAddr(x.Call.Args[0], 0) {
				found = true
			}
		}
	})
	return found
}

// skipAllowed: the edge (b -> b.Succs[idx]) may lead to a return that records nothing.
func skipAllowed(b *ssa.BasicBlock, idx int) (bool, string) {
	ifi, ok := b.Instrs[len(b.Instrs)-1].(*ssa.If)
	if !ok {
		return false, ""
	}
	cond := ifi.Cond
	takenTrue := idx == 0
	if u, ok := cond.(*ssa.UnOp); ok && u.Op == token.NOT {
		cond = u.X
		takenTrue = !takenTrue
	}
	switch x := cond.(type) {
	case *ssa.BinOp:
		// param == nil (true edge) / param != nil (false edge)
		if (x.Op == token.EQL && takenTrue) || (x.Op == token.NEQ && !takenTrue) {
			if _, isP := x.X.(*ssa.Parameter); isP && isNilConst(x.Y) {
				return true, "nil parameter: nothing to record"
			}
		}
	case *ssa.Extract:
		// v, ok := conf.M[key]; !ok edge
		if lk, isL := x.Tuple.(*ssa.Lookup); isL && x.Index == 1 && !takenTrue && lk.CommaOk && confRootedAddr(lk.X, 0) {
			if flowsFromParam(lk.Index, map[ssa.Value]bool{}, 0) {
				return true, "no entry under the given key: nothing to attach the value to"
			}
		}
	case *ssa.Call:
		if takenTrue && strings.HasSuffix(calleeName(x.Common()), "reflect.DeepEqual") && len(x.Call.Args) == 2 {
			a, bb := x.Call.Args[0], x.Call.Args[1]
			if (isParamDirect(a) && fromConfLookup(bb, map[ssa.Value]bool{}, 0)) || (isParamDirect(bb) && fromConfLookup(a, map[ssa.Value]bool{}, 0)) {
				return true, "whole-value DeepEqual with the stored entry: recording would change nothing"
			}
		}
	}
	return false, ""
}

// c12Recorders evaluates R5.
func c12Recorders(c *Ctx) {
	cmp := "pkg/configmanager"
	n := 0
	var fns []*ssa.Function
	for _, fn := range c.PkgFuncs(cmp) {
		if fn.Parent() != nil || fn.Signature.Recv() != nil || !token.IsExported(fn.Name()) || len(fn.Params) == 0 {
			continue
		}
		if !strings.HasPrefix(fn.Name(), "Set") || !anyConfWrite(fn) {
			continue
		}
		fns = append(fns, fn)
	}
	sort.Slice(fns, func(i, j int) bool { return fns[i].Name() < fns[j].Name() })
	for _, fn := range fns {
		n++
		key := funcKey(fn) + ":records-on-every-path"
		// DFS over (pred, block) states; a path ends at a Return. Record sites stop the search (obligation met on that path).
		type state struct {
			pred, b *ssa.BasicBlock
			skip    bool
		}
		seen := map[state]bool{}
		var bad ssa.Instruction
		var why string
		var dfs func(pred, b *ssa.BasicBlock, skipOK bool, via string)
		dfs = func(pred, b *ssa.BasicBlock, skipOK bool, via string) {
			if bad != nil || seen[state{pred, b, skipOK}] {
				return
			}
			seen[state{pred, b, skipOK}] = true
			for _, in := range b.Instrs {
				if recordSite(in) {
					return
				}
				if ret, ok := in.(*ssa.Return); ok && isReturn(in) {
					if !skipOK {
						bad, why = ret, via
					}
					return
				}
				if _, ok := in.(*ssa.Panic); ok {
					return
				}
			}
			last := b.Instrs[len(b.Instrs)-1]
			if ifi, ok := last.(*ssa.If); ok {
				// resolve a flag that is a phi of constants in this block, given the predecessor we came from
				if det, val := phiConstCond(ifi.Cond, b, pred); det {
					i := 1
					if val {
						i = 0
					}
					dfs(b, b.Succs[i], skipOK, via)
					return
				}
				for i, s := range b.Succs {
					ok2, _ := skipAllowed(b, i)
					v := via
					if !ok2 && !skipOK {
						v = fmt.Sprintf(" (after the branch at %s)", shortPos(c, nearestPos(ifi)))
					}
					dfs(b, s, skipOK || ok2, v)
				}
				return
			}
			for _, s := range b.Succs {
				dfs(b, s, skipOK, via)
			}
		}
		dfs(nil, fn.Blocks[0], false, "")
		if bad == nil {
			c.Pass("C12.R5", key, fn.Pos(), "every path writes the given value into the model (allowed skips: nil parameter, no entry under the key, DeepEqual)")
		} else {
			c.Fail("C12.R5", key, nearestPos(bad), "the recorder can return without storing what it was given"+why+": the live state changes but the effective configuration (dump, persisted file, restart) keeps the old value")
		}
	}
	if n < 7 {
		c.Unresolved("C12.R5", fmt.Sprintf("configmanager recorders (found %d)", n))
	}
}

// phiConstCond: cond (possibly negated) is a phi of boolean constants located in block b; when entering b from pred the
// value is known.
func phiConstCond(cond ssa.Value, b, pred *ssa.BasicBlock) (bool, bool) {
	neg := false
	if u, ok := cond.(*ssa.UnOp); ok && u.Op == token.NOT {
		cond, neg = u.X, true
	}
	phi, ok := cond.(*ssa.Phi)
	if !ok || phi.Block() != b || pred == nil {
		return false, false
	}
	for i, p := range b.Preds {
		if p == pred {
			if v, isC := constBool(phi.Edges[i]); isC {
				return true, v != neg
			}
		}
	}
	return false, false
}

func shortPos(c *Ctx, p token.Pos) string {
	ps := c.Fset.Position(p)
	return fmt.Sprintf("%s:%d", strings.TrimPrefix(ps.Filename, "/repo/"), ps.Line)
}

func isParamDirect(v ssa.Value) bool {
	for {
		switch x := v.(type) {
		case *ssa.MakeInterface:
			v = x.X
		case *ssa.ChangeType:
			v = x.X
		case *ssa.Parameter:
			return true
		default:
			return false
		}
	}
}

// fromConfLookup: v is (part of) an entry looked up in a conf map.
func fromConfLookup(v ssa.Value, seen map[ssa.Value]bool, depth int) bool {
	if v == nil || seen[v] || depth > 8 {
		return false
	}
	seen[v] = true
	switch x := v.(type) {
	case *ssa.Lookup:
		return confRootedAddr(x.X, 0)
	case *ssa.MakeInterface:
		return fromConfLookup(x.X, seen, depth+1)
	case *ssa.ChangeType:
		return fromConfLookup(x.X, seen, depth+1)
	case *ssa.Extract:
		return fromConfLookup(x.Tuple, seen, depth+1)
	case *ssa.Field:
		return fromConfLookup(x.X, seen, depth+1)
	case *ssa.FieldAddr:
		return fromConfLookup(x.X, seen, depth+1)
	case *ssa.UnOp:
		if x.Op == token.MUL {
			if confRootedAddr(x.X, 0) {
				return true
			}
			return fromConfLookup(x.X, seen, depth+1)
		}
	case *ssa.Alloc:
		// a local copy of the entry: v, ok := conf.M[k] spills into an Alloc
		for _, r := range refs(x) {
			if st, ok := r.(*ssa.Store); ok && st.Addr == ssa.Value(x) && fromConfLookup(st.Val, seen, depth+1) {
				return true
			}
		}
	}
	return false
}

// c12PublishAfterInit (R6): an object is put into a live registry only after it has been filled.
// UpdateCluster builds a new cluster, lets the caller's handler fill it (inherit or set hosts, load balancer, resource
// manager) and only then stores it in clustersMap, where request paths find it by name. If the store comes first, every
// request that looks the cluster up during the handler sees a cluster without hosts ("no healthy upstream" caused only by
// the swap). Clause: no call through a function-typed value that receives the stored object is reachable after the store.
func c12PublishAfterInit(c *Ctx) { publishAfterInit(c, "C12.R6") }

// publishAfterInit is shared by C12.R6 and C05.R6.
func publishAfterInit(c *Ctx, rule string) {
	pkg := "pkg/upstream/cluster"
	fn := c.M(pkg, "clusterManager", "UpdateCluster")
	if fn == nil {
		c.Unresolved(rule, "clusterManager.UpdateCluster")
		return
	}
	fk := funcKey(fn)
	var stores []ssa.CallInstruction
	for _, cs := range callsIn(fn, false, func(cc *ssa.CallCommon) bool {
		f := cc.StaticCallee()
		return f != nil && strings.HasSuffix(f.String(), "(*sync.Map).Store")
	}) {
		if _, f, _, ok := fieldAddrInfo(cs.Instr.Common().Args[0]); ok && f == "clustersMap" {
			stores = append(stores, cs.Instr)
		}
	}
	if len(stores) != 1 {
		c.Fail(rule, fk+":single-publish", fn.Pos(), fmt.Sprintf("expected exactly one clustersMap.Store in UpdateCluster, found %d", len(stores)))
		return
	}
	st := stores[0]
	obj := stripIface(st.Common().Args[2])
	// initialising callbacks: dynamic calls (through a function value) that receive the object
	nInit := 0
	var late ssa.Instruction
	forEachInstr(fn, false, func(_ *ssa.Function, in ssa.Instruction) {
		ci, ok := in.(ssa.CallInstruction)
		if !ok || ci.Common().IsInvoke() || ci.Common().StaticCallee() != nil {
			return
		}
		if _, isB := ci.Common().Value.(*ssa.Builtin); isB {
			return
		}
		gets := false
		for _, a := range ci.Common().Args {
			if stripIface(a) == obj {
				gets = true
			}
		}
		if !gets {
			return
		}
		nInit++
		if existsPath(fn, st, func(x ssa.Instruction) bool { return x == in }, nil) != nil {
			late = in
		}
	})
	pos := st.Pos()
	if late != nil {
		pos = late.Pos()
	}
	c.Check(rule, fk+":publish-after-init", pos, nInit >= 1 && late == nil, "the new cluster is stored in clustersMap only after the update handler has filled it", "the new cluster is made visible in clustersMap before the update handler has filled it: a request that looks the cluster up during the update finds no hosts and fails only because of the swap")
	// and the object stored is the one that was built and handed to the handler (not the old one)
	_, isCallRes := obj.(*ssa.Call)
	c.Check(rule, fk+":publishes-new-object", st.Pos(), isCallRes && methodName(obj.(*ssa.Call).Common()) == "NewCluster", "the stored object is the cluster built from the new configuration", "the object stored in clustersMap is not the cluster built from the new configuration")
}

// c12IndexAligned (R7): live virtual-host positions equal configuration positions.
// routersManagerImpl.AddRoute / RemoveAllRoutes take the index the *live* routers return for a domain and use it to edit
// cfg.VirtualHosts[index] in the stored configuration. That is correct only while NewRouters keeps the two lists aligned:
// every configured virtual host is appended to routers.virtualHosts in configuration order (a virtual host that cannot be
// built rejects the whole configuration - it is never skipped), and the index recorded for its domains is its position
// in the configuration. Otherwise a single-route update is made live in one virtual host and recorded under another.
func c12IndexAligned(c *Ctx) { c12IndexAlignedRule(c, "C12.R7") }

func c12IndexAlignedRule(c *Ctx, rule string) {
	fn := c.F("pkg/router", "NewRouters")
	if fn == nil {
		c.Unresolved(rule, "router.NewRouters")
		return
	}
	fk := funcKey(fn)
	// the loop over routerConfig.VirtualHosts: the append to virtualHosts
	var app *ssa.Call
	forEachInstr(fn, false, func(_ *ssa.Function, in ssa.Instruction) {
		call, ok := in.(*ssa.Call)
		if !ok {
			return
		}
		if b, isB := call.Call.Value.(*ssa.Builtin); isB && b.Name() == "append" {
			if _, f, _, okf := loadedField(call.Call.Args[0]); okf && f == "virtualHosts" {
				app = call
			}
		}
	})
	if app == nil {
		c.Unresolved(rule, "append to routers.virtualHosts in NewRouters")
		return
	}
	var body map[*ssa.BasicBlock]bool
	var header *ssa.BasicBlock
	for h, bd := range naturalLoops(fn) {
		if bd[app.Block()] && (body == nil || len(bd) > len(body)) {
			body, header = bd, h // outermost loop containing the append: the loop over the configured virtual hosts
		}
	}
	if body == nil {
		c.Fail(rule, fk+":every-vhost-kept", app.Pos(), "the append to virtualHosts is not inside a loop over the configured virtual hosts")
		return
	}
	// no path from the loop header back to the header that avoids the append (a skipped virtual host)
	from := header.Instrs[len(header.Instrs)-1]
	skip := existsPathEdges(fn, from, func(in ssa.Instruction) bool { return in.Block() == header }, func(in ssa.Instruction) bool { return in == ssa.Instruction(app) },
		func(a, b *ssa.BasicBlock) bool { return body[b] })
	c.Check(rule, fk+":every-vhost-kept", app.Pos(), skip == nil, "every configured virtual host is appended (a build error rejects the whole configuration)", "a configured virtual host can be skipped while later ones are kept: live virtual-host positions no longer equal configuration positions, and AddRoute/RemoveAllRoutes record single-route updates under the wrong virtual host of the stored configuration")
	// the index handed to generateHostWithPortConfig is the range index of that loop
	okIdx := false
	for _, cs := range callsIn(fn, false, func(cc *ssa.CallCommon) bool { return methodName(cc) == "generateHostWithPortConfig" }) {
		args := cs.Instr.Common().Args
		for _, a := range args {
			if sl, isR := rangeLoopSlice(a); isR {
				if _, f, _, okf := loadedField(sl); okf && f == "VirtualHosts" {
					okIdx = true
				}
			}
		}
	}
	c.Check(rule, fk+":index-is-config-position", fn.Pos(), okIdx, "the index recorded for a domain is the virtual host's position in the configuration", "the index recorded for a virtual host's domains is not its position in routerConfig.VirtualHosts")
	// and the manager really indexes the stored config with the live index
	used := 0
	for _, name := range []string{"AddRoute", "RemoveAllRoutes"} {
		m := c.M("pkg/router", "routersManagerImpl", name)
		if m == nil {
			continue
		}
		forEachInstr(m, false, func(_ *ssa.Function, in ssa.Instruction) {
			if ia, ok := in.(*ssa.IndexAddr); ok {
				if _, f, _, okf := loadedField(ia.X); okf && f == "VirtualHosts" {
					used++
				}
			}
		})
	}
	c.Extra["vhost_index_uses_in_manager"] = used
}

// recordedHostsReadBack (C12.R1 / C19.R7): the hosts written into the stored configuration are read back from the live
// host set. The runtime de-duplicates, replaces and orders hosts in its own way (NewHostSet: last entry for an address
// wins); recording the *request* (the host list an update call was given) instead of the *result* makes the dump differ
// from the running proxy - a restart from the dump then serves other weights/metadata. Clause: in pkg/upstream/cluster
// every argument of type []v2.Host passed to a pkg/configmanager function is built from the snapshot (host.Config() of
// the live hosts) and does not derive from a parameter of the calling function.
func recordedHostsReadBack(c *Ctx, rule string) {
	pkg := "pkg/upstream/cluster"
	n := 0
	ord := ordCounter{}
	for _, fn := range c.PkgFuncs(pkg) {
		forEachInstr(fn, false, func(f *ssa.Function, in ssa.Instruction) {
			ci, ok := in.(ssa.CallInstruction)
			if !ok {
				return
			}
			callee := ci.Common().StaticCallee()
			if callee == nil || callee.Pkg == nil || !strings.HasSuffix(callee.Pkg.Pkg.Path(), "pkg/configmanager") {
				return
			}
			for _, a := range ci.Common().Args {
				if !strings.HasSuffix(a.Type().String(), "v2.Host") || !strings.HasPrefix(a.Type().String(), "[]") {
					continue
				}
				n++
				key := ord.next(f, "recorded-hosts")
				fromParam := flowsFromParam(a, map[ssa.Value]bool{}, 0)
				// built from live hosts: some Config() result flows into it
				fromLive := false
				forEachInstr(f, true, func(_ *ssa.Function, x ssa.Instruction) {
					if call, ok := x.(ssa.CallInstruction); ok && call.Common().IsInvoke() && call.Common().Method.Name() == "Config" {
						fromLive = true
					}
				})
				c.Check(rule, key, in.Pos(), !fromParam && fromLive, "the recorded host list is built from the live host set (host.Config())", "the host list recorded in the stored configuration is the list the update was called with, not the hosts read back from the live host set: the runtime de-duplicates and replaces hosts by address, so the dump (and a restart from it) differs from the running proxy")
			}
		})
	}
	if n < 1 {
		c.Unresolved(rule, "host lists passed to pkg/configmanager from pkg/upstream/cluster")
	}
}

// c12RecordOnlyOnSuccess (R8): a rejected update leaves the stored configuration alone.
// The stored configuration is what the dump (and a restart from it) reproduces; the live objects are what serves traffic.
// An update call that fails keeps the old live object - so it must also keep the old stored entry. Clause: in every
// update function of the router manager, the cluster manager and the listener handler that reports an error, no
// recorder (configmanager.Set*) has run on a path that ends in a non-nil error: no CFG path leads from a recorder call to
// an error return, and a recorder is never deferred (a deferred call runs on the error returns as well).
func c12RecordOnlyOnSuccess(c *Ctx) {
	n := 0
	ord := ordCounter{}
	isRecorder := func(cc *ssa.CallCommon) bool {
		f := cc.StaticCallee()
		return f != nil && f.Pkg != nil && strings.HasSuffix(f.Pkg.Pkg.Path(), "pkg/configmanager") && strings.HasPrefix(f.Name(), "Set")
	}
	for _, pkg := range []string{"pkg/router", "pkg/upstream/cluster", "pkg/server"} {
		for _, fn := range c.PkgFuncs(pkg) {
			res := fn.Signature.Results()
			if res.Len() == 0 || !types.Identical(res.At(res.Len()-1).Type(), types.Universe.Lookup("error").Type()) {
				continue
			}
			// error exits: return sites whose error value is not the constant nil
			var errExits []ssa.Instruction
			for _, rs := range returnSites(fn, res.Len()-1) {
				if isNilConst(rs.val) {
					continue
				}
				// `return err` under a dominating err == nil test is not an error exit
				nilHere := false
				for _, g := range guardsAt(rs.at.Block()) {
					if bo, ok := g.Cond.(*ssa.BinOp); ok && isNilConst(bo.Y) && bo.X == rs.val {
						if (bo.Op == token.EQL && g.True) || (bo.Op == token.NEQ && !g.True) {
							nilHere = true
						}
					}
				}
				if !nilHere {
					errExits = append(errExits, rs.at)
				}
			}
			forEachInstr(fn, false, func(f *ssa.Function, in ssa.Instruction) {
				ci, ok := in.(ssa.CallInstruction)
				if !ok || !isRecorder(ci.Common()) {
					return
				}
				n++
				key := ord.next(f, "recorded-only-on-success")
				if _, isDefer := in.(*ssa.Defer); isDefer {
					// runs at every exit executed after the defer statement
					for _, e := range errExits {
						e := e
						if existsPath(f, in, func(x ssa.Instruction) bool { return x == e }, nil) != nil {
							c.Fail("C12.R8", key, in.Pos(), fmt.Sprintf("%s is deferred in %s and therefore also runs when the update is rejected (error exit at %s): the live object stays the old one while the stored configuration - what the dump and a restart reproduce - becomes the rejected one", ci.Common().StaticCallee().Name(), f.Name(), shortPos(c, e.Pos())))
							return
						}
					}
					c.Check("C12.R8", key, in.Pos(), true, "deferred, but no error exit follows the defer statement", "")
					return
				}
				var bad ssa.Instruction
				for _, e := range errExits {
					e := e
					if existsPath(f, in, func(x ssa.Instruction) bool { return x == e }, nil) != nil {
						bad = e
						break
					}
				}
				why := ""
				if bad != nil {
					why = shortPos(c, bad.Pos())
				}
				c.Check("C12.R8", key, in.Pos(), bad == nil, fmt.Sprintf("no error exit of %s is reachable after the recorder (%d error exits)", f.Name(), len(errExits)), fmt.Sprintf("%s in %s can be followed by an error return (%s): the update is reported as rejected but the stored configuration - what the dump and a restart reproduce - has already been replaced", ci.Common().StaticCallee().Name(), f.Name(), why))
			})
		}
	}
	if n < 4 {
		c.Unresolved("C12.R8", "recorder calls in update functions that return an error (expected at least 4)")
	}
}

// c12SearchOnSorted (R9): a binary search runs on a slice that is still sorted.
// RemoveClusterHosts sorts the current hosts once and then looks every address to remove up with sort.Search. That is
// right only while the slice stays sorted between the sort and each search: deleting by closing the gap
// (append(s[:i], s[i+1:]...)) keeps the order, moving another element into the hole or appending does not - a later
// address is then not found and silently stays in the live host set and in the stored configuration ("removed objects
// are gone"). Clause: for every sort.Search whose predicate reads a slice variable, a sort of that variable dominates the
// search, and no write that can break the order (an element store, or an assignment that is not a re-slice / gap-closing
// append of the variable itself) can reach the search without passing another sort.
func c12SearchOnSorted(c *Ctx) {
	n := 0
	ord := ordCounter{}
	isSortCall := func(in ssa.Instruction, al *ssa.Alloc) bool {
		ci, ok := in.(ssa.CallInstruction)
		if !ok {
			return false
		}
		cal := ci.Common().StaticCallee()
		if cal == nil || cal.Pkg == nil || cal.Pkg.Pkg.Path() != "sort" || !(cal.Name() == "Sort" || cal.Name() == "Stable" || cal.Name() == "Slice" || cal.Name() == "SliceStable") {
			return false
		}
		v := stripIface(ci.Common().Args[0])
		for i := 0; i < 3; i++ {
			if ct, ok := v.(*ssa.ChangeType); ok {
				v = ct.X
			}
		}
		u, ok := v.(*ssa.UnOp)
		return ok && u.X == ssa.Value(al)
	}
	var fromVar func(v ssa.Value, al *ssa.Alloc, d int) bool
	fromVar = func(v ssa.Value, al *ssa.Alloc, d int) bool {
		if d > 5 {
			return false
		}
		switch x := v.(type) {
		case *ssa.UnOp:
			return x.X == ssa.Value(al)
		case *ssa.Slice:
			return fromVar(x.X, al, d+1)
		case *ssa.ChangeType:
			return fromVar(x.X, al, d+1)
		}
		return false
	}
	for _, pkg := range []string{"pkg/upstream/cluster", "pkg/router", "pkg/server"} {
		for _, fn := range c.PkgFuncs(pkg) {
			forEachInstr(fn, false, func(f *ssa.Function, in ssa.Instruction) {
				call, ok := in.(*ssa.Call)
				if !ok || call.Common().StaticCallee() == nil || call.Common().StaticCallee().String() != "sort.Search" {
					return
				}
				mc, ok := call.Common().Args[1].(*ssa.MakeClosure)
				if !ok {
					return
				}
				// the slice variable the predicate reads: a captured Alloc of slice type
				var al *ssa.Alloc
				for _, b := range mc.Bindings {
					if a, isA := b.(*ssa.Alloc); isA {
						if _, isSl := a.Type().Underlying().(*types.Pointer).Elem().Underlying().(*types.Slice); isSl {
							al = a
						}
					}
				}
				n++
				key := ord.next(f, "search-on-sorted")
				if al == nil {
					c.Fail("C12.R9", key, call.Pos(), "the slice searched by sort.Search could not be identified (the predicate captures no slice variable of this function)")
					return
				}
				sorted := false
				forEachInstr(f, false, func(_ *ssa.Function, x ssa.Instruction) {
					if isSortCall(x, al) && instrDominates(x, call) {
						sorted = true
					}
				})
				bad := ""
				forEachInstr(f, false, func(_ *ssa.Function, x ssa.Instruction) {
					st, isS := x.(*ssa.Store)
					if !isS || bad != "" {
						return
					}
					breaks := ""
					if ia, isIA := st.Addr.(*ssa.IndexAddr); isIA && fromVar(ia.X, al, 0) {
						breaks = "an element of the sorted slice is overwritten"
					} else if st.Addr == ssa.Value(al) {
						v := st.Val
						for i := 0; i < 3; i++ {
							if ct, isCT := v.(*ssa.ChangeType); isCT {
								v = ct.X
							}
						}
						switch y := v.(type) {
						case *ssa.Slice:
							if !fromVar(y, al, 0) {
								breaks = "the variable is replaced by another slice"
							}
						case *ssa.Call:
							if b, isB := y.Common().Value.(*ssa.Builtin); isB && b.Name() == "append" {
								if !(fromVar(y.Common().Args[0], al, 0) && fromVar(y.Common().Args[1], al, 0)) {
									breaks = "elements are appended"
								} else if _, whole := y.Common().Args[0].(*ssa.UnOp); whole {
									breaks = "elements are appended"
								}
							} else {
								breaks = "the variable is replaced by a call result"
							}
						default:
							// the initial assignment (before the sort) is harmless: only writes that can reach the search count
							breaks = "the variable is replaced"
						}
					}
					if breaks == "" {
						return
					}
					if existsPath(f, st, func(y ssa.Instruction) bool { return y == ssa.Instruction(call) }, func(y ssa.Instruction) bool { return isSortCall(y, al) }) != nil {
						bad = breaks + " at " + shortPos(c, st.Pos())
					}
				})
				why := "sorted before, and only order-preserving deletions in between"
				if !sorted {
					why = "no sort of the slice dominates the search"
				} else if bad != "" {
					why = bad + " and the search can run again without a new sort"
				}
				c.Check("C12.R9", key, call.Pos(), sorted && bad == "", why, "sort.Search in "+f.Name()+" can run on a slice that is no longer sorted ("+why+"): a later element is not found, so an object the update was told to remove stays in the live state and in the stored configuration while the call reports success")
			})
		}
	}
	if n < 1 {
		c.Unresolved("C12.R9", "sort.Search call sites in the update paths")
	}
}

// c12AppendLastWins (R10): appending a host that is already known updates it.
// AppendClusterHosts merges the appended host configs with the current host set and lets NewHostSet de-duplicate by
// address. hostSet.setFinalHost keeps the *first* occurrence of an address, so "the last update wins" holds only if the
// merged list starts with the appended hosts: an append for a known address with a new weight / metadata is otherwise
// dropped silently - in the live set and, through refreshHostsConfig, in the stored configuration. Clause: (a) setFinalHost
// skips an address it has already seen (first occurrence wins); (b) in AppendSimpleHostHandler every append of a host built
// from the handler's hostConfigs happens before the existing hosts are appended (the Range over the snapshot's host set),
// and none after it.
func c12AppendLastWins(c *Ctx) { c12AppendLastWinsRule(c, "C12.R10") }

func c12AppendLastWinsRule(c *Ctx, rule string) {
	pkg := "pkg/upstream/cluster"
	// (a) first occurrence wins
	firstWins := false
	for _, fn := range c.PkgFuncs(pkg) {
		if !strings.Contains(fn.String(), "setFinalHost") {
			continue
		}
		forEachInstr(fn, true, func(f *ssa.Function, in ssa.Instruction) {
			lk, ok := in.(*ssa.Lookup)
			if !ok || !lk.CommaOk {
				return
			}
			for _, r := range refs(lk) {
				ex, isE := r.(*ssa.Extract)
				if !isE || ex.Index != 1 {
					continue
				}
				for _, rr := range refs(ex) {
					ifi, isIf := rr.(*ssa.If)
					if !isIf {
						continue
					}
					// on the "seen" edge no append to the result happens before the loop continues
					seenBlk := ifi.Block().Succs[0]
					hasAppend := false
					for _, x := range seenBlk.Instrs {
						if call, isC := x.(*ssa.Call); isC {
							if b, isB := call.Common().Value.(*ssa.Builtin); isB && b.Name() == "append" {
								hasAppend = true
							}
						}
					}
					if !hasAppend {
						firstWins = true
					}
				}
			}
		})
	}
	h := c.F(pkg, "AppendSimpleHostHandler")
	if h == nil {
		c.Unresolved(rule, "AppendSimpleHostHandler")
		return
	}
	c.Check(rule, "pkg/upstream/cluster.hostSet.setFinalHost:first-occurrence-wins", h.Pos(), firstWins, "an address already seen is skipped", "hostSet.setFinalHost no longer keeps the first occurrence of an address: the order AppendSimpleHostHandler relies on (appended hosts first) does not make the last update win any more")
	// (b)
	var newAppends []ssa.Instruction
	forEachInstr(h, false, func(_ *ssa.Function, in ssa.Instruction) {
		call, ok := in.(*ssa.Call)
		if !ok {
			return
		}
		if b, isB := call.Common().Value.(*ssa.Builtin); !isB || b.Name() != "append" || len(call.Common().Args) < 2 {
			return
		}
		// the appended element is NewSimpleHost(hc, ...)
		found := false
		var walk func(v ssa.Value, d int)
		walk = func(v ssa.Value, d int) {
			if d > 6 || v == nil || found {
				return
			}
			switch x := v.(type) {
			case *ssa.Call:
				if cal := x.Common().StaticCallee(); cal != nil && cal.Name() == "NewSimpleHost" {
					found = true
				}
			case *ssa.Slice:
				walk(x.X, d+1)
			case *ssa.Alloc:
				for _, r := range refs(x) {
					if ia, ok := r.(*ssa.IndexAddr); ok {
						for _, rr := range refs(ia) {
							if st, ok := rr.(*ssa.Store); ok {
								walk(st.Val, d+1)
							}
						}
					}
				}
			case *ssa.MakeInterface:
				walk(x.X, d+1)
			case *ssa.ChangeInterface:
				walk(x.X, d+1)
			}
		}
		walk(call.Common().Args[1], 0)
		if found {
			newAppends = append(newAppends, in)
		}
	})
	ranges := callsIn(h, false, func(cc *ssa.CallCommon) bool { return cc.IsInvoke() && cc.Method.Name() == "Range" })
	if len(newAppends) == 0 || len(ranges) != 1 {
		c.Fail(rule, funcKey(h)+":appended-before-existing", h.Pos(), fmt.Sprintf("expected appends of NewSimpleHost(...) and one Range over the existing hosts in AppendSimpleHostHandler, found %d/%d", len(newAppends), len(ranges)))
		return
	}
	rg := ranges[0].Instr
	ok := true
	for _, a := range newAppends {
		a := a
		if existsPath(h, rg, func(x ssa.Instruction) bool { return x == a }, nil) != nil {
			ok = false
		}
		if existsPath(h, a, func(x ssa.Instruction) bool { return x == rg }, nil) == nil {
			ok = false
		}
	}
	c.Check(rule, funcKey(h)+":appended-before-existing", rg.Pos(), ok, "the appended hosts come first in the merged list", "AppendSimpleHostHandler puts the existing hosts in front of the appended ones: NewHostSet keeps the first occurrence of an address, so an append for an address that is already known (new weight, metadata, TLS flag) is silently dropped - the live host set and the stored configuration keep the superseded attributes although the last update should win")
}
