package main

import (
	"fmt"
	"go/token"
	"sort"
	"strings"

	"golang.org/x/tools/go/ssa"
)

// C17.R8 — path and host rewrite apply exactly the configured action.
//
//	prefix rewrite: under HasPrefix(path, matched) the new path is prefixRewrite + path[len(matched):] (the same `path`
//	and `matched` values in guard, slice and length); regex rewrite: regexPattern.ReplaceAllString(path, Substitution);
//	the original path is saved (HeaderOriginalPath) before the path variable is overwritten, from the same value;
//	prefix rewrite wins when both are configured; host rewrite sources are tried in the order
//	host_rewrite > auto_host_rewrite_header > auto_host_rewrite.
func c17Rewrite(c *Ctx, pp string) {
	fn := c.M("pkg/router", "RouteRuleImplBase", "finalizePathHeader")
	if fn == nil {
		c.Unresolved("C17.R8", "RouteRuleImplBase.finalizePathHeader")
		return
	}
	fk := funcKey(fn)
	var path ssa.Value
	for _, cs := range callsIn(fn, false, func(cc *ssa.CallCommon) bool { return strings.HasSuffix(calleeName(cc), "variable.GetString") }) {
		for _, r := range refs(cs.Instr.(ssa.Value)) {
			if ex, ok := r.(*ssa.Extract); ok && ex.Index == 0 && fromVarPath(ex) {
				path = ex
			}
		}
	}
	sets := callsIn(fn, false, func(cc *ssa.CallCommon) bool { return strings.HasSuffix(calleeName(cc), "variable.SetString") })
	if path == nil || len(sets) != 2 {
		c.Fail("C17.R8", fk+":shape", fn.Pos(), fmt.Sprintf("expected the request path read once and two SetString(VarPath, ..) sites, found path=%v sets=%d", path != nil, len(sets)))
		return
	}
	matched := ssa.Value(fn.Params[len(fn.Params)-1])
	var prefixSet, regexSet ssa.CallInstruction
	for _, s := range sets {
		val := s.Instr.Common().Args[2]
		if bo, ok := val.(*ssa.BinOp); ok && bo.Op.String() == "+" {
			prefixSet = s.Instr
			_, f, _, okf := loadedField(bo.X)
			sl, isSl := bo.Y.(*ssa.Slice)
			okShape := okf && f == "prefixRewrite" && isSl && sl.X == path && sl.High == nil
			if okShape {
				if ln, ok := sl.Low.(*ssa.Call); !ok || methodName(ln.Common()) != "len" || ln.Common().Args[0] != matched {
					okShape = false
				}
			}
			guarded := false
			for _, g := range guardsAt(s.Instr.Block()) {
				if call, ok := g.Cond.(*ssa.Call); ok && g.True && methodName(call.Common()) == "HasPrefix" {
					a := call.Common().Args
					guarded = a[0] == path && a[1] == matched
				}
			}
			c.Check("C17.R8", fk+":prefix-rewrite", s.Instr.Pos(), okShape && guarded, "path = prefixRewrite + path[len(matched):] under HasPrefix(path, matched)", "prefix rewrite does not replace exactly the matched prefix of the request path with the configured prefix_rewrite")
		} else if call, ok := val.(*ssa.Call); ok && regexHelper(call) {
			// the regex step lives in a helper of the package that applies a Regexp.Replace* to its parameters; which
			// variant it may use is C17.R19's business
			regexSet = s.Instr
			pathIn, subIn, patIn := false, false, false
			for _, a := range call.Common().Args {
				if a == path {
					pathIn = true
				}
				if _, f, _, okf := loadedField(a); okf && f == "Substitution" {
					subIn = true
				}
				if _, f, _, okf := loadedField(a); okf && f == "regexPattern" {
					patIn = true
				}
			}
			if h := call.Common().StaticCallee(); h != nil {
				forEachInstr(h, false, func(_ *ssa.Function, in ssa.Instruction) {
					if _, f, _, okf := loadedField(valueOf(in)); okf && f == "Substitution" {
						subIn = true
					}
					if _, f, _, okf := loadedField(valueOf(in)); okf && f == "regexPattern" {
						patIn = true
					}
				})
			}
			c.Check("C17.R8", fk+":regex-rewrite", s.Instr.Pos(), pathIn && subIn && patIn, "path = helper(regexPattern, path, Substitution)", "regex rewrite does not apply the configured pattern and substitution to the request path")
		} else if call, ok := val.(*ssa.Call); ok && methodName(call.Common()) == "ReplaceAllString" {
			regexSet = s.Instr
			a := call.Common().Args
			_, fr, _, okr := loadedField(a[0])
			_, fs, _, oks := loadedField(a[2])
			c.Check("C17.R8", fk+":regex-rewrite", s.Instr.Pos(), okr && fr == "regexPattern" && a[1] == path && oks && fs == "Substitution", "path = regexPattern.ReplaceAllString(path, Substitution)", "regex rewrite does not apply the configured pattern and substitution to the request path")
		}
	}
	if prefixSet == nil || regexSet == nil {
		c.Fail("C17.R8", fk+":both-forms", fn.Pos(), "prefix rewrite or regex rewrite form not found")
		return
	}
	// original path saved first, from the same value
	for i, s := range []ssa.CallInstruction{prefixSet, regexSet} {
		ok := false
		for _, hs := range callsIn(fn, false, func(cc *ssa.CallCommon) bool { return cc.IsInvoke() && cc.Method.Name() == "Set" }) {
			a := hs.Instr.Common().Args
			if len(a) == 2 && a[1] == path && instrDominates(hs.Instr, s) && hs.Instr.Block() == s.Block() {
				ok = true
			}
		}
		c.Check("C17.R8", fmt.Sprintf("%s:original-path-saved#%d", fk, i+1), s.Pos(), ok, "the original path is recorded before it is overwritten", "the request path is rewritten without recording the original path first")
	}
	// prefix wins: no path from the prefix branch (len(prefixRewrite) != 0 true edge) to the regex rewrite
	prefixFirst := existsPath(fn, prefixSet, func(in ssa.Instruction) bool { return in == ssa.Instruction(regexSet) }, nil) == nil && !instrDominates(regexSet, prefixSet)
	okExclusive := false
	for _, g := range guardsAt(regexSet.Block()) {
		if bo, ok := g.Cond.(*ssa.BinOp); ok {
			if call, ok := bo.X.(*ssa.Call); ok && methodName(call.Common()) == "len" {
				if _, f, _, okf := loadedField(call.Common().Args[0]); okf && f == "prefixRewrite" {
					// regex branch only when len(prefixRewrite) == 0
					if (bo.Op.String() == "!=" && !g.True) || (bo.Op.String() == "==" && g.True) {
						okExclusive = true
					}
				}
			}
		}
	}
	c.Check("C17.R8", fk+":prefix-wins", regexSet.Pos(), prefixFirst && okExclusive, "regex rewrite only when no prefix rewrite is configured", "regex rewrite can run although a prefix rewrite is configured (documented: prefix rewrite wins)")
	// host rewrite precedence
	hf := c.M("pkg/router", "RouteRuleImplBase", "finalizeRequestHeaders")
	if hf == nil {
		c.Unresolved("C17.R8", "RouteRuleImplBase.finalizeRequestHeaders")
		return
	}
	order := []string{}
	var sites []ssa.Instruction
	for _, s := range callsIn(hf, false, func(cc *ssa.CallCommon) bool { return strings.HasSuffix(calleeName(cc), "variable.SetString") }) {
		sites = append(sites, s.Instr)
	}
	for _, s := range sites {
		src := "?"
		val := s.(ssa.CallInstruction).Common().Args[2]
		if _, f, _, ok := loadedField(val); ok && f == "hostRewrite" {
			src = "host_rewrite"
		} else if ex, ok := val.(*ssa.Extract); ok {
			if call, ok := ex.Tuple.(*ssa.Call); ok && call.Common().IsInvoke() && call.Common().Method.Name() == "Get" {
				src = "auto_host_rewrite_header"
			}
		} else if call, ok := val.(*ssa.Call); ok && call.Common().IsInvoke() && call.Common().Method.Name() == "Hostname" {
			src = "auto_host_rewrite"
		}
		// which earlier sources' "configured" tests are false here?
		neg := 0
		for _, g := range guardsAt(s.Block()) {
			if !g.True {
				neg++
			}
		}
		order = append(order, fmt.Sprintf("%s@%d", src, neg))
	}
	want := "host_rewrite@0 auto_host_rewrite_header@1 auto_host_rewrite@2"
	c.Check("C17.R8", funcKey(hf)+":host-rewrite-precedence", hf.Pos(), strings.Join(order, " ") == want, "host_rewrite, else auto_host_rewrite_header, else auto_host_rewrite", "host rewrite sources are not tried in the documented order (found "+strings.Join(order, " ")+")")
}

// c17FinalisedOnce (R9): the route's request actions are applied once per request, not once per attempt.
// FinalizeRequestHeaders appends headers (append mode adds a second value), rewrites the path relative to what it
// finds (a rewritten path is rewritten again) and records "the original path" from the current one. It is therefore
// not idempotent: it must run once for a request, on the first attempt's way out, and never on the retry path, which
// re-sends the same header map. Clause: no call of RouteRule.FinalizeRequestHeaders in pkg/proxy lies in a function
// reachable from downStream.doRetry, nor inside a loop.
func c17FinalisedOnce(c *Ctx, pp string) {
	retry := c.M(pp, "downStream", "doRetry")
	if retry == nil {
		c.Unresolved("C17.R9", "downStream.doRetry")
		return
	}
	reach := staticReach([]*ssa.Function{retry}, pp)
	n := 0
	ord := ordCounter{}
	for _, fn := range c.PkgFuncs(pp) {
		forEachInstr(fn, false, func(f *ssa.Function, in ssa.Instruction) {
			ci, ok := in.(ssa.CallInstruction)
			if !ok || methodName(ci.Common()) != "FinalizeRequestHeaders" {
				return
			}
			n++
			key := ord.next(f, "request-finalised-once")
			top := f
			for top.Parent() != nil {
				top = top.Parent()
			}
			onRetry := reach[f] || reach[top]
			looped := inLoop(in.Block())
			c.Check("C17.R9", key, in.Pos(), !onRetry && !looped, "applied on the first attempt's path only ("+top.Name()+" is not reachable from doRetry)", fmt.Sprintf("FinalizeRequestHeaders is called in %s, which %s: on a retried request the route's header additions are appended a second time and the path rewrite is applied to the already rewritten path", top.Name(), map[bool]string{true: "is reachable from doRetry (it runs once per upstream attempt)", false: "calls it inside a loop"}[onRetry]))
		})
	}
	if n < 1 {
		c.Unresolved("C17.R9", "a call of RouteRule.FinalizeRequestHeaders in pkg/proxy")
	}
}

// c17RewriteReachesH2Upstream (R10): a rewritten path is what the HTTP/2 upstream sees.
// prefix_rewrite / regex_rewrite publish their result through the path variable (types.VarPath) only. The HTTP/1 client
// and the HTTP/2 client for non-HTTP/2 downstreams build the outgoing target from that variable; a request that came from
// an HTTP/2 downstream carries its own *http.Request, which is forwarded as received. Clause: in the HTTP/2 client's
// AppendHeaders no path reaches NewMClientStream on which the request's URL was neither (re)built from the path variable
// nor found equal to it (path == "" / URL == nil / path == URL.Path).
func c17RewriteReachesH2Upstream(c *Ctx) {
	fn := c.M("pkg/stream/http2", "clientStream", "AppendHeaders")
	if fn == nil {
		c.Unresolved("C17.R10", "pkg/stream/http2.clientStream.AppendHeaders")
		return
	}
	// V: variable.GetString(ctx, types.VarPath)
	var v ssa.Value
	for _, cs := range callsIn(fn, false, func(cc *ssa.CallCommon) bool { return strings.HasSuffix(calleeName(cc), "variable.GetString") }) {
		args := cs.Instr.Common().Args
		if len(args) == 2 {
			if k, ok := constStringVal(stripIface(args[1])); ok && k == "x-mosn-path" {
				for _, r := range refs(cs.Instr.(ssa.Value)) {
					if ex, isE := r.(*ssa.Extract); isE && ex.Index == 0 {
						v = ex
					}
				}
			}
		}
	}
	mk := callsIn(fn, false, func(cc *ssa.CallCommon) bool { return strings.HasSuffix(calleeName(cc), "NewMClientStream") })
	if v == nil || len(mk) != 1 {
		c.Unresolved("C17.R10", "the path variable read / the NewMClientStream call in the HTTP/2 client's AppendHeaders")
		return
	}
	// values that carry V: V itself, phis/loads of locals it is stored to
	carries := map[ssa.Value]bool{v: true}
	for changed := true; changed; {
		changed = false
		forEachInstr(fn, false, func(_ *ssa.Function, in ssa.Instruction) {
			switch x := in.(type) {
			case *ssa.Store:
				if carries[x.Val] && !carries[x.Addr] {
					if _, isAl := x.Addr.(*ssa.Alloc); isAl {
						carries[x.Addr] = true
						changed = true
					}
				}
			case *ssa.UnOp:
				if x.Op == token.MUL && carries[x.X] && !carries[x] {
					carries[x] = true
					changed = true
				}
			case *ssa.Phi:
				for _, e := range x.Edges {
					if carries[e] && !carries[x] {
						carries[x] = true
						changed = true
					}
				}
			}
		})
	}
	// S: stores of V into a url.URL's Path (composite literal or assignment) whose URL is then stored into a request, or directly
	isS := func(in ssa.Instruction) bool {
		st, ok := in.(*ssa.Store)
		if !ok || !carries[st.Val] {
			return false
		}
		tn, f, _, okf := fieldAddrInfo(st.Addr)
		return okf && f == "Path" && strings.HasSuffix(tn, "net/url.URL")
	}
	// the URL written with V must be the one installed in the request: require a store to Request.URL after it
	isURLInstall := func(in ssa.Instruction) bool {
		st, ok := in.(*ssa.Store)
		if !ok {
			return false
		}
		tn, f, _, okf := fieldAddrInfo(st.Addr)
		return okf && f == "URL" && strings.HasSuffix(tn, "net/http.Request")
	}
	edgeOK := func(from, to *ssa.BasicBlock) bool {
		ifi, ok := from.Instrs[len(from.Instrs)-1].(*ssa.If)
		if !ok || from.Succs[0] == from.Succs[1] {
			return true
		}
		taken := from.Succs[0] == to
		bo, ok := ifi.Cond.(*ssa.BinOp)
		if !ok || (bo.Op != token.EQL && bo.Op != token.NEQ) {
			return true
		}
		eqEdge := (bo.Op == token.EQL) == taken // on this edge X == Y holds
		var other ssa.Value
		if carries[bo.X] {
			other = bo.Y
		} else if carries[bo.Y] {
			other = bo.X
		}
		if other != nil {
			if k, isK := constStringVal(other); isK && k == "" && eqEdge {
				return false // path variable empty: nothing to apply
			}
			if _, f, _, okf := loadedField(other); okf && f == "Path" && eqEdge {
				return false // unchanged
			}
		}
		// URL == nil
		if _, f, _, okf := loadedField(bo.X); okf && f == "URL" && isNilConst(bo.Y) && eqEdge {
			return false
		}
		return true
	}
	target := mk[0].Instr
	// a path from entry to the request hand-over that passes no (Path := V ; Request.URL := that URL) pair and no excuse edge
	bad := existsPathEdges(fn, nil, func(in ssa.Instruction) bool { return in == target }, func(in ssa.Instruction) bool {
		// the install is the stop; it only counts when a Path := V store dominates it or precedes in the same block chain
		if !isURLInstall(in) {
			return false
		}
		ok := false
		forEachInstr(fn, false, func(_ *ssa.Function, x ssa.Instruction) {
			if isS(x) && (instrDominates(x, in)) {
				ok = true
			}
		})
		return ok
	}, edgeOK)
	c.Check("C17.R10", funcKey(fn)+":rewritten-path-reaches-upstream", fn.Pos(), bad == nil, "on every path the outgoing request's URL is rebuilt from the path variable or found equal to it", "the HTTP/2 client can hand a request to the upstream whose URL was neither rebuilt from the path variable nor compared with it (a request that came from an HTTP/2 downstream is forwarded with its received URL): a configured prefix_rewrite / regex_rewrite is silently ignored on HTTP/2 to HTTP/2 routes")
}

// c17RedirectPortTable (R11): a scheme redirect drops the port exactly when it is the default port of the scheme the
// request arrived on. `http://host:80/x` redirected to https must become `https://host/x` (port 80 would be wrong for
// https), and `https://host:443/x` redirected to http must become `http://host/x`; every other explicit port is kept.
// In terms of the *new* scheme the host loses its port iff (new scheme, port) is (https, "80") or (http, "443"). The
// decision table is read off the code: for each of the four combinations of {http, https} x {"80", "443"} the conditions
// on the URL's Scheme field and on SplitHostPort's port result are evaluated (also through a boolean helper of the
// package called with those two values) and the store that strips the port must be reachable exactly for those two.
func c17RedirectPortTable(c *Ctx, pp string) {
	var fn *ssa.Function
	var split *ssa.Call
	for _, f := range c.PkgFuncs(pp) {
		for _, cs := range callsIn(f, false, func(cc *ssa.CallCommon) bool { return calleeName(cc) == "net.SplitHostPort" }) {
			// the one whose result feeds a store to url.URL.Host
			hasStore := false
			forEachInstr(f, false, func(_ *ssa.Function, in ssa.Instruction) {
				if st, ok := in.(*ssa.Store); ok {
					if tn, fld, _, okf := fieldAddrInfo(st.Addr); okf && fld == "Host" && strings.HasSuffix(tn, "net/url.URL") {
						// the host result itself, or (repair 154) the old host with ":"+port cut off
						if derivesFrom(st.Val, func(v ssa.Value) bool {
							ex, isE := v.(*ssa.Extract)
							return isE && ex.Tuple == ssa.Value(cs.Instr.(*ssa.Call))
						}) {
							hasStore = true
						}
					}
				}
			})
			if hasStore {
				fn, split = f, cs.Instr.(*ssa.Call)
			}
		}
	}
	if fn == nil {
		c.Unresolved("C17.R11", "the redirect code that strips a default port from the Location (net.SplitHostPort + store to url.URL.Host)")
		return
	}
	var strip ssa.Instruction
	var port ssa.Value
	for _, r := range refs(split) {
		if ex, ok := r.(*ssa.Extract); ok && ex.Index == 1 {
			port = ex
		}
	}
	forEachInstr(fn, false, func(_ *ssa.Function, in ssa.Instruction) {
		st, isS := in.(*ssa.Store)
		if !isS {
			return
		}
		if tn, fld, _, okf := fieldAddrInfo(st.Addr); okf && fld == "Host" && strings.HasSuffix(tn, "net/url.URL") {
			if derivesFrom(st.Val, func(v ssa.Value) bool {
				ex, isE := v.(*ssa.Extract)
				return isE && ex.Tuple == ssa.Value(split)
			}) {
				strip = st
			}
		}
	})
	if strip == nil || port == nil {
		c.Unresolved("C17.R11", "port result / strip store of the redirect code")
		return
	}
	isScheme := func(v ssa.Value) bool {
		_, f, _, ok := loadedField(v)
		return ok && f == "Scheme"
	}
	// evaluate a boolean helper of the package under an assignment of its parameters
	var mayReturn func(h *ssa.Function, env map[ssa.Value]string, want bool, d int) bool
	edgeFilter := func(env map[ssa.Value]string, schemeVal, portVal string, d int) func(from, to *ssa.BasicBlock) bool {
		val := func(v ssa.Value) (string, bool) {
			if s, ok := env[v]; ok {
				return s, true
			}
			if isScheme(v) && schemeVal != "" {
				return schemeVal, true
			}
			if v == port && portVal != "" {
				return portVal, true
			}
			return "", false
		}
		return func(from, to *ssa.BasicBlock) bool {
			ifi, ok := from.Instrs[len(from.Instrs)-1].(*ssa.If)
			if !ok || from.Succs[0] == from.Succs[1] {
				return true
			}
			taken := from.Succs[0] == to
			switch x := ifi.Cond.(type) {
			case *ssa.BinOp:
				if x.Op != token.EQL && x.Op != token.NEQ {
					return true
				}
				var a, b string
				var oka, okb bool
				if k, isK := constStringVal(x.Y); isK {
					a, oka = val(x.X)
					b, okb = k, true
				} else if k, isK := constStringVal(x.X); isK {
					a, oka = val(x.Y)
					b, okb = k, true
				}
				if !oka || !okb {
					return true
				}
				return ((a == b) == (x.Op == token.EQL)) == taken
			case *ssa.Call:
				h := x.Common().StaticCallee()
				if h == nil || len(h.Blocks) == 0 || h.Pkg != from.Parent().Pkg || d > 2 {
					return true
				}
				sub := map[ssa.Value]string{}
				for i, a := range x.Common().Args {
					if i < len(h.Params) {
						if s, ok := val(a); ok {
							sub[h.Params[i]] = s
						}
					}
				}
				return mayReturn(h, sub, taken, d+1)
			}
			return true
		}
	}
	mayReturn = func(h *ssa.Function, env map[ssa.Value]string, want bool, d int) bool {
		ef := edgeFilter(env, "", "", d)
		return existsPathEdges(h, nil, func(in ssa.Instruction) bool {
			ret, ok := in.(*ssa.Return)
			if !ok || len(ret.Results) != 1 {
				return false
			}
			if b, isB := constBool(unspill(ret, 0)); isB {
				return b == want
			}
			// `return port == "80"`: a comparison as the result
			if bo, isBO := unspill(ret, 0).(*ssa.BinOp); isBO && (bo.Op == token.EQL || bo.Op == token.NEQ) {
				if k, isK := constStringVal(bo.Y); isK {
					if s, known := env[bo.X]; known {
						return ((s == k) == (bo.Op == token.EQL)) == want
					}
				}
			}
			return true // unknown result: may be anything
		}, nil, ef) != nil
	}
	want := map[string]bool{"https|80": true, "http|443": true, "http|80": false, "https|443": false}
	var wrong []string
	for _, sch := range []string{"http", "https"} {
		for _, pt := range []string{"80", "443"} {
			got := existsPathEdges(fn, split, func(in ssa.Instruction) bool { return in == strip }, nil, edgeFilter(map[ssa.Value]string{}, sch, pt, 0)) != nil
			if got != want[sch+"|"+pt] {
				verb := "keeps"
				if got {
					verb = "drops"
				}
				wrong = append(wrong, fmt.Sprintf("redirect to %s %s port %s", sch, verb, pt))
			}
		}
	}
	sort.Strings(wrong)
	c.Check("C17.R11", funcKey(fn)+":redirect-default-port-table", strip.Pos(), len(wrong) == 0, "the port is dropped exactly for (https, 80) and (http, 443)", "the Location of a scheme redirect handles explicit default ports wrongly ("+strings.Join(wrong, "; ")+"): `http://host:80/x` redirected to https must become `https://host/x` and `https://host:443/x` redirected to http must become `http://host/x`, every other port is kept")
}

// regexHelper: call is a call of a same-package function every return of which is the result of a (*regexp.Regexp).Replace*
// call.
func regexHelper(call *ssa.Call) bool {
	h := call.Common().StaticCallee()
	if h == nil || len(h.Blocks) == 0 || call.Parent().Pkg != h.Pkg {
		return false
	}
	n := 0
	for _, in := range instrsWhere(h, isReturn) {
		r := in.(*ssa.Return)
		if len(r.Results) != 1 {
			return false
		}
		var leaves []ssa.Value
		var walk func(v ssa.Value)
		walk = func(v ssa.Value) {
			if phi, ok := v.(*ssa.Phi); ok {
				for _, e := range phi.Edges {
					walk(e)
				}
				return
			}
			leaves = append(leaves, v)
		}
		walk(unspill(r, 0))
		for _, l := range leaves {
			c2, ok := l.(*ssa.Call)
			if !ok || !strings.HasPrefix(calleeName(c2.Common()), "(*regexp.Regexp).Replace") {
				return false
			}
			n++
		}
	}
	return n > 0
}

func valueOf(in ssa.Instruction) ssa.Value {
	if v, ok := in.(ssa.Value); ok {
		return v
	}
	return nil
}
