package main

import (
	"fmt"
	"strings"

	"golang.org/x/tools/go/ssa"
)

// C17.R8 — path and host rewrite apply exactly the configured action.
//
//	prefix rewrite: under HasPrefix(path, matched) the new path is prefixRewrite + path[len(matched):] (the same `path`
//	and `matched` values in guard, slice and length); regex rewrite: regexPattern.ReplaceAllString(path, Substitution);
//	the original path is saved (HeaderOriginalPath) before the path variable is overwritten, from the same value;
//	prefix rewrite wins when both are configured; host rewrite sources are tried in the order
//	host_rewrite > auto_host_rewrite_header > auto_host_rewrite.
func c17Rewrite(c *Ctx, pp string) {
	fn := c.M("pkg/router", "RouteRuleImplBase", "finalizePathHeader")
	if fn == nil {
		c.Unresolved("C17.R8", "RouteRuleImplBase.finalizePathHeader")
		return
	}
	fk := funcKey(fn)
	var path ssa.Value
	for _, cs := range callsIn(fn, false, func(cc *ssa.CallCommon) bool { return strings.HasSuffix(calleeName(cc), "variable.GetString") }) {
		for _, r := range refs(cs.Instr.(ssa.Value)) {
			if ex, ok := r.(*ssa.Extract); ok && ex.Index == 0 && fromVarPath(ex) {
				path = ex
			}
		}
	}
	sets := callsIn(fn, false, func(cc *ssa.CallCommon) bool { return strings.HasSuffix(calleeName(cc), "variable.SetString") })
	if path == nil || len(sets) != 2 {
		c.Fail("C17.R8", fk+":shape", fn.Pos(), fmt.Sprintf("expected the request path read once and two SetString(VarPath, ..) sites, found path=%v sets=%d", path != nil, len(sets)))
		return
	}
	matched := ssa.Value(fn.Params[len(fn.Params)-1])
	var prefixSet, regexSet ssa.CallInstruction
	for _, s := range sets {
		val := s.Instr.Common().Args[2]
		if bo, ok := val.(*ssa.BinOp); ok && bo.Op.String() == "+" {
			prefixSet = s.Instr
			_, f, _, okf := loadedField(bo.X)
			sl, isSl := bo.Y.(*ssa.Slice)
			okShape := okf && f == "prefixRewrite" && isSl && sl.X == path && sl.High == nil
			if okShape {
				if ln, ok := sl.Low.(*ssa.Call); !ok || methodName(ln.Common()) != "len" || ln.Common().Args[0] != matched {
					okShape = false
				}
			}
			guarded := false
			for _, g := range guardsAt(s.Instr.Block()) {
				if call, ok := g.Cond.(*ssa.Call); ok && g.True && methodName(call.Common()) == "HasPrefix" {
					a := call.Common().Args
					guarded = a[0] == path && a[1] == matched
				}
			}
			c.Check("C17.R8", fk+":prefix-rewrite", s.Instr.Pos(), okShape && guarded, "path = prefixRewrite + path[len(matched):] under HasPrefix(path, matched)", "prefix rewrite does not replace exactly the matched prefix of the request path with the configured prefix_rewrite")
		} else if call, ok := val.(*ssa.Call); ok && methodName(call.Common()) == "ReplaceAllString" {
			regexSet = s.Instr
			a := call.Common().Args
			_, fr, _, okr := loadedField(a[0])
			_, fs, _, oks := loadedField(a[2])
			c.Check("C17.R8", fk+":regex-rewrite", s.Instr.Pos(), okr && fr == "regexPattern" && a[1] == path && oks && fs == "Substitution", "path = regexPattern.ReplaceAllString(path, Substitution)", "regex rewrite does not apply the configured pattern and substitution to the request path")
		}
	}
	if prefixSet == nil || regexSet == nil {
		c.Fail("C17.R8", fk+":both-forms", fn.Pos(), "prefix rewrite or regex rewrite form not found")
		return
	}
	// original path saved first, from the same value
	for i, s := range []ssa.CallInstruction{prefixSet, regexSet} {
		ok := false
		for _, hs := range callsIn(fn, false, func(cc *ssa.CallCommon) bool { return cc.IsInvoke() && cc.Method.Name() == "Set" }) {
			a := hs.Instr.Common().Args
			if len(a) == 2 && a[1] == path && instrDominates(hs.Instr, s) && hs.Instr.Block() == s.Block() {
				ok = true
			}
		}
		c.Check("C17.R8", fmt.Sprintf("%s:original-path-saved#%d", fk, i+1), s.Pos(), ok, "the original path is recorded before it is overwritten", "the request path is rewritten without recording the original path first")
	}
	// prefix wins: no path from the prefix branch (len(prefixRewrite) != 0 true edge) to the regex rewrite
	prefixFirst := existsPath(fn, prefixSet, func(in ssa.Instruction) bool { return in == ssa.Instruction(regexSet) }, nil) == nil && !instrDominates(regexSet, prefixSet)
	okExclusive := false
	for _, g := range guardsAt(regexSet.Block()) {
		if bo, ok := g.Cond.(*ssa.BinOp); ok {
			if call, ok := bo.X.(*ssa.Call); ok && methodName(call.Common()) == "len" {
				if _, f, _, okf := loadedField(call.Common().Args[0]); okf && f == "prefixRewrite" {
					// regex branch only when len(prefixRewrite) == 0
					if (bo.Op.String() == "!=" && !g.True) || (bo.Op.String() == "==" && g.True) {
						okExclusive = true
					}
				}
			}
		}
	}
	c.Check("C17.R8", fk+":prefix-wins", regexSet.Pos(), prefixFirst && okExclusive, "regex rewrite only when no prefix rewrite is configured", "regex rewrite can run although a prefix rewrite is configured (documented: prefix rewrite wins)")
	// host rewrite precedence
	hf := c.M("pkg/router", "RouteRuleImplBase", "finalizeRequestHeaders")
	if hf == nil {
		c.Unresolved("C17.R8", "RouteRuleImplBase.finalizeRequestHeaders")
		return
	}
	order := []string{}
	var sites []ssa.Instruction
	for _, s := range callsIn(hf, false, func(cc *ssa.CallCommon) bool { return strings.HasSuffix(calleeName(cc), "variable.SetString") }) {
		sites = append(sites, s.Instr)
	}
	for _, s := range sites {
		src := "?"
		val := s.(ssa.CallInstruction).Common().Args[2]
		if _, f, _, ok := loadedField(val); ok && f == "hostRewrite" {
			src = "host_rewrite"
		} else if ex, ok := val.(*ssa.Extract); ok {
			if call, ok := ex.Tuple.(*ssa.Call); ok && call.Common().IsInvoke() && call.Common().Method.Name() == "Get" {
				src = "auto_host_rewrite_header"
			}
		} else if call, ok := val.(*ssa.Call); ok && call.Common().IsInvoke() && call.Common().Method.Name() == "Hostname" {
			src = "auto_host_rewrite"
		}
		// which earlier sources' "configured" tests are false here?
		neg := 0
		for _, g := range guardsAt(s.Block()) {
			if !g.True {
				neg++
			}
		}
		order = append(order, fmt.Sprintf("%s@%d", src, neg))
	}
	want := "host_rewrite@0 auto_host_rewrite_header@1 auto_host_rewrite@2"
	c.Check("C17.R8", funcKey(hf)+":host-rewrite-precedence", hf.Pos(), strings.Join(order, " ") == want, "host_rewrite, else auto_host_rewrite_header, else auto_host_rewrite", "host rewrite sources are not tried in the documented order (found "+strings.Join(order, " ")+")")
}

// c17FinalisedOnce (R9): the route's request actions are applied once per request, not once per attempt.
// FinalizeRequestHeaders appends headers (append mode adds a second value), rewrites the path relative to what it
// finds (a rewritten path is rewritten again) and records "the original path" from the current one. It is therefore
// not idempotent: it must run once for a request, on the first attempt's way out, and never on the retry path, which
// re-sends the same header map. Clause: no call of RouteRule.FinalizeRequestHeaders in pkg/proxy lies in a function
// reachable from downStream.doRetry, nor inside a loop.
func c17FinalisedOnce(c *Ctx, pp string) {
	retry := c.M(pp, "downStream", "doRetry")
	if retry == nil {
		c.Unresolved("C17.R9", "downStream.doRetry")
		return
	}
	reach := staticReach([]*ssa.Function{retry}, pp)
	n := 0
	ord := ordCounter{}
	for _, fn := range c.PkgFuncs(pp) {
		forEachInstr(fn, false, func(f *ssa.Function, in ssa.Instruction) {
			ci, ok := in.(ssa.CallInstruction)
			if !ok || methodName(ci.Common()) != "FinalizeRequestHeaders" {
				return
			}
			n++
			key := ord.next(f, "request-finalised-once")
			top := f
			for top.Parent() != nil {
				top = top.Parent()
			}
			onRetry := reach[f] || reach[top]
			looped := inLoop(in.Block())
			c.Check("C17.R9", key, in.Pos(), !onRetry && !looped, "applied on the first attempt's path only ("+top.Name()+" is not reachable from doRetry)", fmt.Sprintf("FinalizeRequestHeaders is called in %s, which %s: on a retried request the route's header additions are appended a second time and the path rewrite is applied to the already rewritten path", top.Name(), map[bool]string{true: "is reachable from doRetry (it runs once per upstream attempt)", false: "calls it inside a loop"}[onRetry]))
		})
	}
	if n < 1 {
		c.Unresolved("C17.R9", "a call of RouteRule.FinalizeRequestHeaders in pkg/proxy")
	}
}
