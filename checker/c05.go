package main

import (
	"fmt"
	"go/token"
	"go/types"
	"sort"
	"strings"

	"golang.org/x/tools/go/ssa"
)

// C05 — load balancers return only current, healthy members.

const hostType = "mosn.io/mosn/pkg/types.Host"

func init() {
	register(&PropSpec{
		ID:       "C05",
		Patterns: []string{"./pkg/upstream/cluster", "./pkg/types"},
		Explanation: "Static guarded-return analysis over the SSA of every types.LoadBalancer implementation: " +
			"(R1) every types.Host value returned by a ChooseHost method, or by any helper whose result can flow into such a return, is nil or was observed healthy (h.Health() true edge dominates the return / phi edge) on that very path — decided as a greatest fixed point over phi cycles and interprocedural summaries; " +
			"(R2) every non-nil returned host originates from HostSet.Get on the balancer's own host set or from the EDF scheduler which is filled only from that set; " +
			"(R3) the host-set fields of balancers and the cluster snapshot are written only while the object is being constructed and the snapshot is published by atomic.Value.Store of a fresh literal whose lb was built from the hostSet stored beside it; " +
			"(R4) each scanning policy visits `total` slots before returning nil. Decides the code shape on all paths, not concrete schedules. (R5) subsetLoadBalancer.ChooseHost returns an intermediate delegate result only on its non-nil edge, nil only when no fallback entry exists, and otherwise the fallback entry's result. (R6) in UpdateCluster the update handler never receives the new cluster after clustersMap.Store published it. (R7) the process-wide per-address registry of health words is only accessed through Load/LoadOrStore and never reassigned (append-only): the word the health checker marks and the word a balancer consults stay the same object. (R3 host-array) no value stored into hostSet.allHosts originates from sync.Pool.Get or another object's field (through append, re-slicing, phis and helpers of the package); no slice read from allHosts is given to sync.Pool.Put, stored in a global or appended to. (R8) a fixed point marks functions whose result may be the empty outcome of a loop bounded by the choice field (through calls and phis, unless known non-nil on the arriving edge); no ChooseHost / unweightChoose* / unweightedChoose* is one.",
		Run: runC05,
	})
}

type hnState struct {
	c        *Ctx
	lbImpls  []types.Type // implementers of types.LoadBalancer considered
	excluded map[string]string
	inprogV  map[string]bool
	inprogF  map[string]bool
	needed   map[*ssa.Function]bool // functions whose Host results must be HN
	origins  map[string]ssa.Value   // origin description -> value
	fieldFns map[string][]*ssa.Function
	why      string
}

func isHostType(t types.Type) bool { return t.String() == hostType }

func runC05(c *Ctx) {
	c.Rule("C05.R1", "every returned types.Host is nil or passed Health() on that path", 30)
	c.Rule("C05.R2", "non-nil returned hosts originate from the balancer's own host set / scheduler", 8)
	c.Rule("C05.R3", "host set fields write-once; snapshot published by one atomic store of a fresh literal", 8)
	c.Rule("C05.R4", "scan loops cover `total` slots before returning nil", 4)
	c.Rule("C05.R5", "a composite balancer returns no host only after its fallback was consulted", 3)
	defer c05Composite(c)
	c.Rule("C05.R6", "a new cluster (host set + balancer) becomes visible to lookups only after the update handler filled it", 2)
	defer publishAfterInit(c, "C05.R6")
	c.Rule("C05.R7", "the health word a balancer consults is the one the checker writes: the per-address registry is append-only", 1)
	defer healthRegistryAppendOnly(c, "C05.R7")
	defer c05HostArrayPrivate(c)
	c.Rule("C05.R8", "a sampling policy returns no host only after a full scan (or another balancer) was consulted", 5)
	defer c05SampleThenScan(c)
	c.Rule("C05.R9", "a pushed host set is always installed: every update handler reaches Cluster.UpdateHosts, the manager always runs the handler", 4)
	defer c05ReplacementInstalled(c)
	c.Rule("C05.R10", "the balancer a snapshot publishes is built from the host set the same snapshot publishes", 1)
	defer snapshotLBBuiltFromItsHostSet(c, "C05.R10")
	c.Assumptions = append(c.Assumptions,
		"Health() observed true earlier on the path counts as healthy (a concurrent flip after the check is outside the clause)",
		"no reflection/unsafe in the balancers",
		"OriginalDstLoadBalancer is excluded by name: it synthesises a host from the original destination by design and is not one of the policies the property enumerates")
	c.NotDecided = append(c.NotDecided, "that nil is returned only if no host is healthy, beyond the full-scan shape (R4)", "behaviour under concurrent host-set replacement beyond single atomic publication (R3)")

	tp := c.TypesPkg("pkg/types")
	if tp == nil {
		// quick tier: types package only available through imports
		for _, p := range c.Pkgs {
			if imp := p.Imports[modPath+"/pkg/types"]; imp != nil {
				tp = imp.Types
			}
		}
	}
	if tp == nil {
		c.Unresolved("C05.R1", "package pkg/types")
		return
	}
	lbObj := tp.Scope().Lookup("LoadBalancer")
	if lbObj == nil {
		c.Unresolved("C05.R1", "types.LoadBalancer")
		return
	}
	lbIface := lbObj.Type().Underlying().(*types.Interface)

	st := &hnState{c: c, inprogV: map[string]bool{}, inprogF: map[string]bool{}, needed: map[*ssa.Function]bool{},
		origins: map[string]ssa.Value{}, excluded: map[string]string{
			modPath + "/pkg/upstream/cluster.OriginalDstLoadBalancer": "original-dst balancer: host synthesised from the connection's original destination by design",
		}}
	impls := c.implementers(lbIface, true)
	var roots []*ssa.Function
	for _, t := range impls {
		if _, ex := st.excluded[typeName(t)]; ex {
			continue
		}
		fn := c.methodOf(t, "ChooseHost")
		if fn == nil {
			continue
		}
		fn = unwrapPromoted(fn)
		if fn == nil || len(fn.Blocks) == 0 {
			continue
		}
		st.lbImpls = append(st.lbImpls, t)
		roots = append(roots, fn)
	}
	if len(roots) < 6 {
		c.Fail("C05.R1", "anchor:implementers", token.NoPos, fmt.Sprintf("only %d ChooseHost implementations of types.LoadBalancer found (expected >= 6)", len(roots)))
	}
	c.Extra["lb_implementations"] = typeNames(st.lbImpls)

	for _, fn := range roots {
		st.needed[fn] = true
	}
	// iterate: analysing a function may add callees to needed
	done := map[*ssa.Function]bool{}
	for {
		var todo []*ssa.Function
		for fn := range st.needed {
			if !done[fn] {
				todo = append(todo, fn)
			}
		}
		if len(todo) == 0 {
			break
		}
		sort.Slice(todo, func(i, j int) bool { return todo[i].String() < todo[j].String() })
		for _, fn := range todo {
			done[fn] = true
			st.checkFunc(fn)
		}
	}
	runC05R3(c)
	runC05R4(c, done)
}

func typeNames(ts []types.Type) []string {
	var out []string
	for _, t := range ts {
		out = append(out, t.String())
	}
	return out
}

// unwrapPromoted: for a synthetic promoted-method wrapper return the declared method it calls.
func unwrapPromoted(fn *ssa.Function) *ssa.Function {
	for i := 0; i < 4 && fn != nil && fn.Synthetic != "" && !strings.HasPrefix(fn.Synthetic, "bound method wrapper"); i++ {
		var next *ssa.Function
		for _, b := range fn.Blocks {
			for _, in := range b.Instrs {
				if ci, ok := in.(ssa.CallInstruction); ok {
					if f := ci.Common().StaticCallee(); f != nil && f.Name() == fn.Name() {
						next = f
					}
				}
			}
		}
		if next == nil {
			return fn
		}
		fn = next
	}
	return fn
}

func (st *hnState) checkFunc(fn *ssa.Function) {
	c := st.c
	c.FuncsSeen[fn.String()] = true
	ord := ordCounter{}
	sig := fn.Signature
	for _, b := range fn.Blocks {
		for _, in := range b.Instrs {
			ret, ok := in.(*ssa.Return)
			if !ok {
				continue
			}
			if !isReturn(in) && (allConstResults(ret) || allResultsUnnamed(sig)) {
				// the synthetic return of the recover block: zero values, or - results are spilled into cells as soon as
				// the function defers - what a normal return had stored before a deferred call panicked; that value is
				// judged at the normal return
				continue
			}
			for i, r := range ret.Results {
				if !isHostType(sig.Results().At(i).Type()) {
					continue
				}
				key := ord.next(fn, "return-host")
				st.why = ""
				okHN := st.hn(r, b, 0)
				if okHN {
					c.Pass("C05.R1", key, nearestPos(ret), "returned value is nil or dominated by a true Health() edge on every incoming path")
				} else {
					c.Fail("C05.R1", key, nearestPos(ret), "a types.Host can be returned without having passed Health() on this path: "+st.why)
				}
				// R2 provenance
				orig := map[string]bool{}
				st.collectOrigins(r, orig, map[ssa.Value]bool{}, 0)
				var bad []string
				var good []string
				for o := range orig {
					if strings.HasPrefix(o, "BAD:") {
						bad = append(bad, o[4:])
					} else {
						good = append(good, o)
					}
				}
				sort.Strings(bad)
				sort.Strings(good)
				k2 := strings.Replace(key, "return-host", "origin", 1)
				if len(bad) > 0 {
					c.Fail("C05.R2", k2, nearestPos(ret), "returned host may originate outside the balancer's own host set: "+strings.Join(bad, "; "))
				} else {
					c.Pass("C05.R2", k2, nearestPos(ret), strings.Join(good, "; "))
				}
			}
		}
	}
}

// hn: v is nil-or-healthy when control is at the end of block b.
func (st *hnState) hn(v ssa.Value, b *ssa.BasicBlock, depth int) bool {
	if depth > 40 {
		st.why = "analysis depth exceeded"
		return false
	}
	if isNilConst(v) {
		return true
	}
	if st.guardedHealthy(v, b) {
		return true
	}
	key := fmt.Sprintf("%p@%p", v, b)
	if st.inprogV[key] {
		return true // coinductive assumption on phi cycles
	}
	st.inprogV[key] = true
	defer delete(st.inprogV, key)

	switch x := v.(type) {
	case *ssa.Phi:
		for i, e := range x.Edges {
			pred := x.Block().Preds[i]
			// the edge pred -> phi block may itself be the true edge of `e.Health()`
			if ifi, ok := pred.Instrs[len(pred.Instrs)-1].(*ssa.If); ok && pred.Succs[0] == x.Block() && pred.Succs[0] != pred.Succs[1] {
				if call, ok := ifi.Cond.(*ssa.Call); ok && methodName(call.Common()) == "Health" {
					if r := recvOf(call.Common()); r != nil {
						same := false
						for _, cv := range sameValueSet(r) {
							for _, xv := range sameValueSet(e) {
								if cv == xv {
									same = true
								}
							}
						}
						if same {
							continue
						}
					}
				}
			}
			if !st.hn(e, pred, depth+1) {
				return false
			}
		}
		return true
	case *ssa.TypeAssert:
		if x.CommaOk {
			break
		}
		return st.hn(x.X, b, depth+1)
	case *ssa.ChangeInterface:
		return st.hn(x.X, b, depth+1)
	case *ssa.MakeInterface:
		return st.hn(x.X, b, depth+1)
	case *ssa.Extract:
		if call, ok := x.Tuple.(*ssa.Call); ok {
			return st.callHN(call, x.Index)
		}
		if ta, ok := x.Tuple.(*ssa.TypeAssert); ok && x.Index == 0 {
			return st.hn(ta.X, b, depth+1)
		}
	case *ssa.Call:
		return st.callHN(x, 0)
	case *ssa.UnOp:
		// load of a non-escaping local (result variables are spilled to a local when the function defers)
		if al, ok := localAlloc(x); ok {
			for _, r := range refs(al) {
				if s, isStore := r.(*ssa.Store); isStore {
					if !st.hn(s.Val, s.Block(), depth+1) {
						return false
					}
				}
			}
			return true
		}
	}
	if st.why == "" {
		st.why = fmt.Sprintf("value %s (%T) at %s is neither nil, nor guarded by Health(), nor the result of a health-checking callee", v.Name(), v, st.c.pos(valuePos(v)))
	}
	return false
}

func valuePos(v ssa.Value) token.Pos {
	if in, ok := v.(ssa.Instruction); ok {
		return nearestPos(in)
	}
	return v.Pos()
}

// guardedHealthy: some `t = v.Health()` whose true edge dominates block b (or b's end).
func (st *hnState) guardedHealthy(v ssa.Value, b *ssa.BasicBlock) bool {
	cands := sameValueSet(v)
	for _, g := range guardsAt(b) {
		if !g.True {
			continue
		}
		call, ok := g.Cond.(*ssa.Call)
		if !ok {
			continue
		}
		cc := call.Common()
		if methodName(cc) != "Health" {
			continue
		}
		r := recvOf(cc)
		if r == nil {
			continue
		}
		for _, cv := range sameValueSet(r) {
			for _, x := range cands {
				if cv == x {
					return true
				}
			}
		}
	}
	return false
}

// sameValueSet: values that denote the same dynamic object (interface conversions only).
func sameValueSet(v ssa.Value) []ssa.Value {
	out := []ssa.Value{v}
	for {
		switch x := v.(type) {
		case *ssa.ChangeInterface:
			v = x.X
		case *ssa.TypeAssert:
			if x.CommaOk {
				return out
			}
			v = x.X
		case *ssa.MakeInterface:
			v = x.X
		default:
			return out
		}
		out = append(out, v)
	}
}

// callHN: result #idx of the call is nil-or-healthy for every possible callee.
func (st *hnState) callHN(call *ssa.Call, idx int) bool {
	callees, why := st.resolveCallees(call)
	if callees == nil {
		st.why = why
		return false
	}
	// modular: each callee gets its own return obligations (assume/guarantee); a callee without a
	// body cannot be vouched for.
	for _, f := range callees {
		if len(f.Blocks) == 0 {
			st.why = "callee " + f.String() + " has no body available"
			return false
		}
		if idx >= f.Signature.Results().Len() || !isHostType(f.Signature.Results().At(idx).Type()) {
			st.why = "callee " + f.String() + " result is not a types.Host"
			return false
		}
		st.needed[f] = true
	}
	return true
}

func (st *hnState) summaryHN(fn *ssa.Function, idx int) bool {
	st.needed[fn] = true
	key := fmt.Sprintf("%s#%d", fn.String(), idx)
	if st.inprogF[key] {
		return true
	}
	st.inprogF[key] = true
	defer delete(st.inprogF, key)
	if len(fn.Blocks) == 0 {
		st.why = "callee " + fn.String() + " has no body available"
		return false
	}
	for _, b := range fn.Blocks {
		for _, in := range b.Instrs {
			if ret, ok := in.(*ssa.Return); ok && isReturn(in) && idx < len(ret.Results) {
				if !st.hn(unspill(ret, idx), b, 1) {
					return false
				}
			}
		}
	}
	return true
}

// resolveCallees: static callee; interface ChooseHost -> all considered implementations;
// call of a function-typed struct field -> all functions ever stored to that field.
func (st *hnState) resolveCallees(call *ssa.Call) ([]*ssa.Function, string) {
	cc := call.Common()
	c := st.c
	if cc.IsInvoke() {
		if cc.Method.Name() == "ChooseHost" {
			var out []*ssa.Function
			for _, t := range st.lbImpls {
				if !types.Implements(t, cc.Value.Type().Underlying().(*types.Interface)) {
					continue
				}
				if f := unwrapPromoted(c.methodOf(t, "ChooseHost")); f != nil {
					out = append(out, f)
				}
			}
			if len(out) == 0 {
				return nil, "no implementation found for interface call " + calleeName(cc)
			}
			return out, ""
		}
		if cc.Method.Name() == "Get" {
			return nil, "a host taken from HostSet.Get (" + st.c.pos(call.Pos()) + ") reaches the return with no Health() check on the path"
		}
		return nil, "interface call " + calleeName(cc) + " returns a host the analysis cannot vouch for"
	}
	if f := cc.StaticCallee(); f != nil {
		if f.Synthetic != "" && strings.HasPrefix(f.Synthetic, "bound method wrapper") {
			return []*ssa.Function{f}, ""
		}
		return []*ssa.Function{f}, ""
	}
	// dynamic: value loaded from a struct field?
	if typ, field, _, ok := loadedField(cc.Value); ok {
		fns, why := st.fieldFuncs(typ, field)
		if fns == nil {
			return nil, why
		}
		return fns, ""
	}
	return nil, "dynamic call at " + c.pos(call.Pos()) + " cannot be resolved"
}

// fieldFuncs enumerates every function value stored into (typ).field anywhere in the loaded module packages.
func (st *hnState) fieldFuncs(typ, field string) ([]*ssa.Function, string) {
	if st.fieldFns == nil {
		st.fieldFns = map[string][]*ssa.Function{}
	}
	k := typ + "." + field
	if v, ok := st.fieldFns[k]; ok {
		return v, ""
	}
	c := st.c
	var out []*ssa.Function
	seen := map[*ssa.Function]bool{}
	nstores := 0
	var fail string
	var trace func(v ssa.Value, depth int)
	trace = func(v ssa.Value, depth int) {
		if depth > 6 {
			fail = "function value flow too deep"
			return
		}
		switch x := v.(type) {
		case *ssa.MakeClosure:
			if f, ok := x.Fn.(*ssa.Function); ok && !seen[f] {
				seen[f] = true
				out = append(out, f)
			}
		case *ssa.Function:
			if !seen[x] {
				seen[x] = true
				out = append(out, x)
			}
		case *ssa.ChangeType:
			trace(x.X, depth+1)
		case *ssa.Phi:
			for _, e := range x.Edges {
				trace(e, depth+1)
			}
		case *ssa.Call:
			// wrapper such as slowStartHostWeightFunc: not a host chooser; cannot resolve
			fail = "function value produced by call " + calleeName(x.Common())
		case *ssa.Parameter:
			// all call sites of the parent function in loaded source
			parent := x.Parent()
			pi := -1
			for i, p := range parent.Params {
				if p == x {
					pi = i
				}
			}
			found := 0
			for fn := range c.all {
				if fn.Pkg == nil || !strings.HasPrefix(fn.Pkg.Pkg.Path(), modPath) {
					continue
				}
				for _, b := range fn.Blocks {
					for _, in := range b.Instrs {
						if ci, ok := in.(ssa.CallInstruction); ok && ci.Common().StaticCallee() == parent {
							found++
							trace(ci.Common().Args[pi], depth+1)
						}
					}
				}
			}
			if found == 0 {
				fail = "no call site found for " + parent.String()
			}
		default:
			if isNilConst(v) {
				return
			}
			fail = fmt.Sprintf("function value of unsupported form %T", v)
		}
	}
	for fn := range c.all {
		if fn.Pkg == nil || !strings.HasPrefix(fn.Pkg.Pkg.Path(), modPath) {
			continue
		}
		for _, s := range storesToField(fn, typ, field, false) {
			nstores++
			trace(s.Val, 0)
		}
	}
	c.Extra["stores:"+k] = nstores
	if fail != "" {
		return nil, "cannot enumerate functions stored in " + k + ": " + fail
	}
	if len(out) == 0 {
		return nil, "no function is ever stored in " + k
	}
	sort.Slice(out, func(i, j int) bool { return out[i].String() < out[j].String() })
	st.fieldFns[k] = out
	return out, ""
}

// collectOrigins: where can a returned non-nil host come from.
func (st *hnState) collectOrigins(v ssa.Value, out map[string]bool, seen map[ssa.Value]bool, depth int) {
	if seen[v] || depth > 30 {
		return
	}
	seen[v] = true
	if isNilConst(v) {
		return
	}
	switch x := v.(type) {
	case *ssa.Phi:
		for _, e := range x.Edges {
			st.collectOrigins(e, out, seen, depth+1)
		}
		return
	case *ssa.TypeAssert:
		st.collectOrigins(x.X, out, seen, depth+1)
		return
	case *ssa.ChangeInterface:
		st.collectOrigins(x.X, out, seen, depth+1)
		return
	case *ssa.MakeInterface:
		st.collectOrigins(x.X, out, seen, depth+1)
		return
	case *ssa.Extract:
		if call, ok := x.Tuple.(*ssa.Call); ok {
			st.callOrigins(call, x.Index, out, seen, depth)
			return
		}
		st.collectOrigins(x.Tuple, out, seen, depth+1)
		return
	case *ssa.Call:
		st.callOrigins(x, 0, out, seen, depth)
		return
	case *ssa.UnOp:
		if al, ok := localAlloc(x); ok {
			for _, r := range refs(al) {
				if s, isStore := r.(*ssa.Store); isStore {
					st.collectOrigins(s.Val, out, seen, depth+1)
				}
			}
			return
		}
	}
	out["BAD:"+fmt.Sprintf("%T %s at %s", v, v.Name(), st.c.pos(valuePos(v)))] = true
}

func (st *hnState) callOrigins(call *ssa.Call, idx int, out map[string]bool, seen map[ssa.Value]bool, depth int) {
	cc := call.Common()
	name := methodName(cc)
	if cc.IsInvoke() && name == "Get" && strings.HasSuffix(cc.Value.Type().String(), "types.HostSet") {
		// receiver must be the balancer's own hosts field
		if why, ok := st.ownHostSet(cc.Value, 0); ok {
			out["HostSet.Get on "+why] = true
			return
		}
		out["BAD:HostSet.Get on a host set that is not the balancer's own field at "+st.c.pos(call.Pos())] = true
		return
	}
	if !cc.IsInvoke() && name == "NextAndPush" {
		if _, f, _, ok := loadedField(recvOf(cc)); ok && f == "scheduler" {
			out["edfScheduler.NextAndPush on own scheduler"] = true
			return
		}
	}
	callees, why := st.resolveCallees(call)
	if callees == nil {
		out["BAD:"+why] = true
		return
	}
	for _, f := range callees {
		out["via "+funcKey(f)+" (checked separately)"] = true
		st.needed[f] = true
	}
}

// R3: write-once fields and atomic publication.
func runC05R3(c *Ctx) {
	pkg := "pkg/upstream/cluster"
	ord := ordCounter{}
	// fields holding a host set / lb / scheduler inside balancers and snapshot
	type fld struct{ typ, field string }
	watch := []fld{
		{"randomLoadBalancer", "hosts"}, {"roundRobinLoadBalancer", "hosts"}, {"EdfLoadBalancer", "hosts"},
		{"maglevLoadBalancer", "hosts"}, {"maglevLoadBalancer", "maglev"}, {"reqRoundRobinLoadBalancer", "hosts"},
		{"clusterSnapshot", "hostSet"}, {"clusterSnapshot", "lb"}, {"clusterSnapshot", "info"},
		{"subsetLoadBalancer", "hostSet"}, {"subsetLoadBalancer", "fullLb"}, {"hostSet", "allHosts"},
	}
	found := map[fld]int{}
	for _, fn := range c.PkgFuncs(pkg) {
		forEachInstr(fn, false, func(f *ssa.Function, in ssa.Instruction) {
			s, ok := in.(*ssa.Store)
			if !ok {
				return
			}
			t, fl, base, ok := fieldAddrInfo(s.Addr)
			if !ok {
				return
			}
			for _, w := range watch {
				if fl == w.field && strings.HasSuffix(t, "."+w.typ) {
					found[w]++
					key := ord.next(f, "store-"+w.typ+"."+w.field)
					if isFreshAlloc(base) {
						c.Pass("C05.R3", key, nearestPos(s), "store into an object allocated in this function (construction)")
					} else if onlyUnderOnce(f) {
						c.Pass("C05.R3", key, nearestPos(s), "store inside the closure of sync.Once.Do (write-once)")
					} else {
						c.Fail("C05.R3", key, nearestPos(s), fmt.Sprintf("field %s.%s is written after construction (base is not a fresh allocation): a concurrent ChooseHost can observe a half-updated balancer", w.typ, w.field))
					}
				}
			}
		})
	}
	for _, w := range watch[:8] {
		if found[w] == 0 {
			c.Unresolved("C05.R3", "store to "+w.typ+"."+w.field)
		}
	}
	// snapshot: simpleCluster.snapshot only via Load/Store; Store argument is fresh literal with lb built from same hostSet
	for _, fn := range c.PkgFuncs(pkg) {
		for _, acc := range fieldAccesses(fn, ".simpleCluster", "snapshot", false) {
			v := acc.(ssa.Value)
			for _, r := range refs(v) {
				key := ord.next(fn, "snapshot-use")
				ci, ok := r.(ssa.CallInstruction)
				if !ok || (methodName(ci.Common()) != "Store" && methodName(ci.Common()) != "Load") {
					c.Fail("C05.R3", key, nearestPos(r), "simpleCluster.snapshot used other than through atomic.Value Load/Store")
					continue
				}
				if methodName(ci.Common()) == "Load" {
					c.Pass("C05.R3", key, nearestPos(r), "atomic Load")
					continue
				}
				// Store(&clusterSnapshot{...})
				arg := stripConv(argsOf(ci.Common())[0])
				al, isAlloc := arg.(*ssa.Alloc)
				if !isAlloc {
					c.Fail("C05.R3", key, nearestPos(r), "snapshot.Store argument is not a freshly allocated clusterSnapshot literal")
					continue
				}
				var lbV, hsV ssa.Value
				for _, rr := range refs(al) {
					if fa, ok := rr.(*ssa.FieldAddr); ok {
						_, fname, _, _ := fieldAddrInfo(fa)
						for _, r3 := range refs(fa) {
							if s, ok := r3.(*ssa.Store); ok && s.Addr == fa {
								if fname == "lb" {
									lbV = s.Val
								}
								if fname == "hostSet" {
									hsV = s.Val
								}
							}
						}
					}
				}
				if lbV == nil || hsV == nil {
					c.Fail("C05.R3", key, nearestPos(r), "published snapshot literal does not set both lb and hostSet")
					continue
				}
				if lbBuiltFrom(lbV, hsV, map[ssa.Value]bool{}) {
					c.Pass("C05.R3", key, nearestPos(r), "snapshot literal: lb constructed from the very hostSet value stored beside it; one atomic Store")
				} else {
					c.Fail("C05.R3", key, nearestPos(r), "published snapshot's lb is not built from the hostSet stored beside it: lookups could see a balancer over one set and a host set of another")
				}
			}
		}
	}
}

// isFreshAlloc: the base pointer is (a phi/convert of) an Alloc or new object made in this function.
func isFreshAlloc(v ssa.Value) bool {
	switch x := v.(type) {
	case *ssa.Alloc:
		return true
	case *ssa.FieldAddr: // embedded struct inside fresh object
		return isFreshAlloc(x.X)
	case *ssa.UnOp:
		// load of a pointer field of a fresh object whose stored value is itself fresh (lb.EdfLoadBalancer = new...) — not proven
		return false
	case *ssa.ChangeType:
		return isFreshAlloc(x.X)
	}
	return false
}

// lbBuiltFrom: lb value is the result of constructor call(s) taking hs as an argument (through phis).
func lbBuiltFrom(lb, hs ssa.Value, seen map[ssa.Value]bool) bool {
	if seen[lb] {
		return true
	}
	seen[lb] = true
	switch x := lb.(type) {
	case *ssa.Phi:
		for _, e := range x.Edges {
			if !lbBuiltFrom(e, hs, seen) {
				return false
			}
		}
		return true
	case *ssa.Call:
		for _, a := range x.Common().Args {
			if stripConv(a) == stripConv(hs) {
				return true
			}
		}
	case *ssa.ChangeInterface:
		return lbBuiltFrom(x.X, hs, seen)
	case *ssa.MakeInterface:
		return lbBuiltFrom(x.X, hs, seen)
	}
	return false
}

// R4: in each function among the analysed set that has a `for i := ...; i < total` scan with Health()
// inside, the loop bound compares the induction variable (stride 1) with Size() of the own host set.
func runC05R4(c *Ctx, fns map[*ssa.Function]bool) {
	var list []*ssa.Function
	for f := range fns {
		list = append(list, f)
	}
	sort.Slice(list, func(i, j int) bool { return list[i].String() < list[j].String() })
	ord := ordCounter{}
	for _, fn := range list {
		// does the function have a `return nil` of Host type reachable after a loop containing Health()?
		healthInLoop := false
		var loopHeaderConds []*ssa.If
		for _, b := range fn.Blocks {
			for _, in := range b.Instrs {
				if ci, ok := in.(*ssa.Call); ok && methodName(ci.Common()) == "Health" && inLoop(b) {
					healthInLoop = true
				}
			}
		}
		if !healthInLoop {
			continue
		}
		// loop header conditions: If in a block that is in a loop, with one successor leaving the loop
		for _, b := range fn.Blocks {
			if len(b.Instrs) == 0 || !inLoop(b) {
				continue
			}
			ifi, ok := b.Instrs[len(b.Instrs)-1].(*ssa.If)
			if !ok {
				continue
			}
			bin, ok := ifi.Cond.(*ssa.BinOp)
			if !ok || bin.Op != token.LSS {
				continue
			}
			if _, isPhi := bin.X.(*ssa.Phi); !isPhi {
				continue
			}
			loopHeaderConds = append(loopHeaderConds, ifi)
		}
		for _, ifi := range loopHeaderConds {
			bin := ifi.Cond.(*ssa.BinOp)
			phi := bin.X.(*ssa.Phi)
			// only loops whose body contains Health()
			body := reachableFrom(ifi.Block().Succs[0])
			hasHealth := false
			for bb := range body {
				if !reachableFrom(bb)[ifi.Block()] {
					continue
				}
				for _, in := range bb.Instrs {
					if ci, ok := in.(*ssa.Call); ok && methodName(ci.Common()) == "Health" {
						hasHealth = true
					}
				}
			}
			if !hasHealth {
				continue
			}
			key := ord.next(fn, "scan-loop")
			stride1 := false
			var start ssa.Value
			for _, e := range phi.Edges {
				if bo, ok := e.(*ssa.BinOp); ok && bo.Op == token.ADD && bo.X == phi {
					if n, ok := constInt(bo.Y); ok && n == 1 {
						stride1 = true
					}
				} else {
					start = e
				}
			}
			boundOK, boundDesc := scanBound(bin.Y, start)
			// the slot visited in each iteration must be a canonical full-coverage index of the loop variable
			if stride1 && boundOK && !strings.Contains(boundDesc, "sampling") {
				idxOK, idxDesc := scanIndexCanonical(fn, ifi, phi, bin.Y, start)
				if !idxOK {
					c.Fail("C05.R4", key, nearestPos(ifi), "the health scan does not visit slot (loop variable + start) mod size (or the loop variable itself): "+idxDesc+" — some hosts may never be looked at, so no host is returned although a healthy one exists")
					continue
				}
				boundDesc += "; " + idxDesc
			}
			if stride1 && boundOK {
				c.Pass("C05.R4", key, nearestPos(ifi), "stride-1 loop bounded by "+boundDesc)
			} else if !stride1 {
				c.Fail("C05.R4", key, nearestPos(ifi), "health scan loop does not advance by exactly 1: hosts can be skipped before nil is returned")
			} else {
				c.Fail("C05.R4", key, nearestPos(ifi), "health scan loop bound is not the host-set size (or `choice` for sampling loops): "+boundDesc)
			}
		}
	}
}

// scanBound: bound is Size() of a host set, or Size()+start, or int(lb.choice) for the sampling loops.
func scanBound(y ssa.Value, start ssa.Value) (bool, string) {
	y = stripConvNum(y)
	if call, ok := y.(*ssa.Call); ok && methodName(call.Common()) == "Size" {
		if s, ok := constInt(start); ok && s == 0 {
			return true, "HostSet.Size() from 0"
		}
		return false, "Size() but start is not 0"
	}
	if bo, ok := y.(*ssa.BinOp); ok && bo.Op == token.ADD {
		for _, pair := range [][2]ssa.Value{{bo.X, bo.Y}, {bo.Y, bo.X}} {
			if call, ok := stripConvNum(pair[0]).(*ssa.Call); ok && methodName(call.Common()) == "Size" && pair[1] == start {
				return true, "start+Size()"
			}
		}
	}
	// k x Size() tries, k a positive constant: a retry loop over a scheduler that may repeat a slot visits every slot at least
	// as often as a plain scan does
	if k, ok := sizeMultiple(y); ok && k > 1 {
		if s, ok := constInt(start); ok && s == 0 {
			return true, fmt.Sprintf("%d x HostSet.Size() from 0", k)
		}
	}
	if _, f, _, ok := loadedField(y); ok && f == "choice" {
		return true, "sampling loop bounded by lb.choice (falls back to a full scan elsewhere)"
	}
	return false, fmt.Sprintf("bound %s", y.String())
}

func stripConvNum(v ssa.Value) ssa.Value {
	for {
		if x, ok := v.(*ssa.Convert); ok {
			v = x.X
			continue
		}
		return v
	}
}

// localAlloc: u is a load of a local Alloc whose address never escapes (only stores to it and loads from it).
func localAlloc(u *ssa.UnOp) (*ssa.Alloc, bool) {
	if u.Op != token.MUL {
		return nil, false
	}
	al, ok := u.X.(*ssa.Alloc)
	if !ok {
		return nil, false
	}
	for _, r := range refs(al) {
		switch x := r.(type) {
		case *ssa.Store:
			if x.Addr != al {
				return nil, false
			}
		case *ssa.UnOp:
		case *ssa.DebugRef:
		default:
			return nil, false
		}
	}
	return al, true
}

// onlyUnderOnce: fn is an anonymous function used only as the argument of (*sync.Once).Do.
func onlyUnderOnce(fn *ssa.Function) bool {
	if fn.Parent() == nil {
		return false
	}
	used := 0
	ok := true
	forEachInstr(fn.Parent(), false, func(_ *ssa.Function, in ssa.Instruction) {
		mc, isMC := in.(*ssa.MakeClosure)
		if !isMC || mc.Fn != fn {
			return
		}
		for _, r := range refs(mc) {
			ci, isCall := r.(ssa.CallInstruction)
			if isCall && calleeName(ci.Common()) == "(*sync.Once).Do" {
				used++
			} else {
				ok = false
			}
		}
	})
	return ok && used > 0
}

// ownHostSet: v is the balancer's own host-set field, or a parameter that every caller in the module
// binds to such a field.
func (st *hnState) ownHostSet(v ssa.Value, depth int) (string, bool) {
	if _, f, _, ok := loadedField(v); ok && (f == "hosts" || f == "hostSet") {
		return "own field " + f, true
	}
	if p, ok := v.(*ssa.Parameter); ok && depth < 3 {
		parent := p.Parent()
		pi := -1
		for i, q := range parent.Params {
			if q == p {
				pi = i
			}
		}
		n := 0
		for fn := range st.c.all {
			if fn.Pkg == nil || !strings.HasPrefix(fn.Pkg.Pkg.Path(), modPath) {
				continue
			}
			for _, b := range fn.Blocks {
				for _, in := range b.Instrs {
					if ci, ok := in.(ssa.CallInstruction); ok && ci.Common().StaticCallee() == parent {
						n++
						if _, ok := st.ownHostSet(ci.Common().Args[pi], depth+1); !ok {
							return "", false
						}
					}
				}
			}
		}
		if n > 0 {
			return fmt.Sprintf("parameter %s bound to the caller's own host set at all %d call sites", p.Name(), n), true
		}
	}
	return "", false
}

// scanIndexCanonical: inside the loop headed by ifi, every HostSet.Get(x) has x of one of the forms
//
//	i                      (i from 0 to size)
//	(i + s) % size, (s + i) % size
//	i % size               (i from s to s+size)
//	atomic.AddUint32(&ctr,1) % size   (a shared round-robin cursor advanced once per iteration)
func scanIndexCanonical(fn *ssa.Function, ifi *ssa.If, phi *ssa.Phi, bound ssa.Value, start ssa.Value) (bool, string) {
	body := reachableFrom(ifi.Block().Succs[0])
	var gets []*ssa.Call
	for bb := range body {
		if !reachableFrom(bb)[ifi.Block()] {
			continue
		}
		for _, in := range bb.Instrs {
			if call, ok := in.(*ssa.Call); ok && call.Common().IsInvoke() && call.Common().Method.Name() == "Get" && strings.HasSuffix(call.Common().Value.Type().String(), "types.HostSet") {
				gets = append(gets, call)
			}
		}
	}
	if len(gets) == 0 {
		return true, "no indexed access in the loop (delegates to a helper)"
	}
	isSize := func(v ssa.Value) bool {
		v = stripConvNum(v)
		if call, ok := v.(*ssa.Call); ok && methodName(call.Common()) == "Size" {
			return true
		}
		return false
	}
	for _, g := range gets {
		x := stripConvNum(g.Common().Args[0])
		ok := false
		switch {
		case x == ssa.Value(phi):
			ok = true
		default:
			if rem, isB := x.(*ssa.BinOp); isB && rem.Op == token.REM && isSize(rem.Y) {
				num := stripConvNum(rem.X)
				if num == ssa.Value(phi) {
					ok = true
				} else if add, isA := num.(*ssa.BinOp); isA && add.Op == token.ADD && (stripConvNum(add.X) == ssa.Value(phi) || stripConvNum(add.Y) == ssa.Value(phi)) {
					ok = true
				} else if call, isC := num.(*ssa.Call); isC && isAtomicCall(call.Common(), "Add") {
					ok = true
				}
			}
		}
		if !ok {
			return false, "index expression " + x.String() + " (" + x.Name() + ")"
		}
	}
	return true, fmt.Sprintf("%d indexed access(es) of canonical form", len(gets))
}

// allConstResults: every operand of the return is a constant (the zero values go/ssa returns from a recover block).
func allConstResults(ret *ssa.Return) bool {
	for _, r := range ret.Results {
		if _, ok := r.(*ssa.Const); !ok {
			return false
		}
	}
	return true
}

func allResultsUnnamed(sig *types.Signature) bool {
	for i := 0; i < sig.Results().Len(); i++ {
		if n := sig.Results().At(i).Name(); n != "" && n != "_" {
			return false
		}
	}
	return true
}
