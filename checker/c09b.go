package main

import (
	"fmt"
	"go/constant"
	"go/token"
	"go/types"
	"sort"
	"strings"

	"golang.org/x/tools/go/ssa"
)

// C09.R8 — the connection of a reset request is closed, whatever the reset reason.
//
// A ping-pong pool decides in OnResetStream whether the connection is to be closed when the stream is destroyed. Both
// pools were written with the belief "only a *local* reset leaves a live connection behind; every other reason means the
// connection is already gone". The belief is an obligation on whoever raises a reset:
//
//	for every site that resets a client stream with reason r:
//	    r is in the pool's closing set (the reasons for which OnResetStream raises its close flag)
//	    or the connection is known to be closed at that site.
//
// "Known closed" is one of: the reason is the parameter of the stream connection's Reset method (called by the stream
// client from the connection's close event only - checked as its own obligation), the reason is read from the
// resetReason field (written only by that Reset method), or the site is dominated by err == types.ErrConnectionHasClosed.
// Anything else with a reason outside the closing set re-pools a connection in the middle of an exchange: request half
// written, response half read, or - HTTP/1 - the response reader goroutine gone.
type resetPool struct {
	pkg, client, flag string
}

var c09ResetPools = []resetPool{
	{"pkg/stream/http", "activeClient", "closeConn"},
	{"pkg/stream/xprotocol", "activeClientPingPong", "shouldCloseConn"},
}

func c09ResetCloses(c *Ctx, rule string) {
	for _, p := range c09ResetPools {
		on := c.M(p.pkg, p.client, "OnResetStream")
		if on == nil || len(on.Params) < 2 {
			c.Unresolved(rule, p.client+".OnResetStream")
			continue
		}
		reason := ssa.Value(on.Params[1])
		// closing set
		all := false
		set := map[string]bool{}
		nStores := 0
		forEachInstr(on, false, func(_ *ssa.Function, in ssa.Instruction) {
			st, ok := in.(*ssa.Store)
			if !ok {
				return
			}
			if _, f, _, okf := fieldAddrInfo(st.Addr); !okf || f != p.flag {
				return
			}
			if b, isC := constBool(st.Val); !isC || !b {
				return
			}
			nStores++
			onReason := false
			for _, g := range guardsAt(in.Block()) {
				bo, isB := g.Cond.(*ssa.BinOp)
				if !isB {
					continue
				}
				var k ssa.Value
				if bo.X == reason {
					k = bo.Y
				} else if bo.Y == reason {
					k = bo.X
				} else {
					continue
				}
				onReason = true
				if s, okS := constStringVal(k); okS && ((bo.Op == token.EQL && g.True) || (bo.Op == token.NEQ && !g.True)) {
					set[s] = true
				}
			}
			if !onReason {
				all = true
			}
		})
		if nStores == 0 {
			c.Fail(rule, funcKey(on)+":closing-set", on.Pos(), p.client+".OnResetStream never raises "+p.flag+": no reset request's connection is closed")
			continue
		}
		var names []string
		for s := range set {
			names = append(names, s)
		}
		sort.Strings(names)
		desc := "{" + strings.Join(names, ",") + "}"
		if all {
			desc = "every reason"
		}
		c.Extra["closing_set:"+p.client] = desc

		// resetReason is written only by Reset
		writersOK := true
		for _, fn := range c.PkgFuncs(p.pkg) {
			forEachInstr(fn, true, func(f *ssa.Function, in ssa.Instruction) {
				if st, ok := in.(*ssa.Store); ok {
					if _, fl, _, okf := fieldAddrInfo(st.Addr); okf && fl == "resetReason" && f.Name() != "Reset" {
						writersOK = false
					}
				}
			})
		}

		// raise sites
		n := 0
		ord := ordCounter{}
		for _, fn := range c.PkgFuncs(p.pkg) {
			forEachInstr(fn, false, func(f *ssa.Function, in ssa.Instruction) {
				ci, ok := in.(ssa.CallInstruction)
				if !ok || methodName(ci.Common()) != "ResetStream" {
					return
				}
				args := argsOf(ci.Common())
				if len(args) == 0 {
					return
				}
				if f.Name() == "ResetStream" {
					return // the wrapper forwarding to BaseStream.ResetStream
				}
				n++
				key := ord.next(f, "reset-closes")
				ok2, why := c09ReasonOK(args[len(args)-1], in, all, set, writersOK, 0)
				c.Check(rule, key, in.Pos(), ok2, why+" (closing set of "+p.client+": "+desc+")", fmt.Sprintf("a client stream is reset in %s with a reason for which %s.OnResetStream does not mark the connection to be closed (%s; closing set: %s) although the connection is not known to be closed there: the connection goes back to the idle list in the middle of an exchange and the next request leases it", f.Name(), p.client, why, desc))
			})
		}
		if n < 2 {
			c.Unresolved(rule, "ResetStream sites in "+p.pkg)
		}
	}
	// the stream client calls StreamConnection.Reset only from a connection event that CheckReasonError classified as a close
	if on := c.M("pkg/stream", "client", "OnEvent"); on == nil {
		c.Unresolved(rule, "pkg/stream.client.OnEvent")
	} else {
		n := 0
		for _, cs := range callsIn(on, false, func(cc *ssa.CallCommon) bool { return cc.IsInvoke() && cc.Method.Name() == "Reset" }) {
			n++
			args := cs.Instr.Common().Args
			ok := false
			if len(args) == 1 {
				if ex, isE := args[0].(*ssa.Extract); isE && ex.Index == 0 {
					if call, isC := ex.Tuple.(*ssa.Call); isC && methodName(call.Common()) == "CheckReasonError" {
						for _, g := range guardsAt(cs.Instr.Block()) {
							if e2, isE2 := g.Cond.(*ssa.Extract); isE2 && e2.Tuple == ex.Tuple && e2.Index == 1 && !g.True {
								ok = true
							}
						}
					}
				}
			}
			c.Check(rule, fmt.Sprintf("%s:connection-reset-on-close-event#%d", funcKey(on), n), cs.Instr.Pos(), ok, "Reset(reason) with the reason CheckReasonError gave for a close event", "the stream client resets all streams of a connection with a connection-closed reason outside the close-event branch: the pools treat those reasons as 'connection already gone' and re-pool a live connection")
		}
		if n < 1 {
			c.Unresolved(rule, "StreamConnection.Reset call in client.OnEvent")
		}
	}
}

func constStringVal(v ssa.Value) (string, bool) {
	if k, ok := v.(*ssa.Const); ok && k.Value != nil && k.Value.Kind() == constant.String {
		return constant.StringVal(k.Value), true
	}
	return "", false
}

func c09ReasonOK(v ssa.Value, site ssa.Instruction, all bool, set map[string]bool, writersOK bool, depth int) (bool, string) {
	if depth > 6 {
		return false, "reason not resolved"
	}
	switch x := v.(type) {
	case *ssa.Const:
		s, _ := constStringVal(x)
		if all || set[s] {
			return true, "reason " + s + " closes"
		}
		for _, g := range guardsAt(site.Block()) {
			if bo, ok := g.Cond.(*ssa.BinOp); ok && bo.Op == token.EQL && g.True {
				for _, side := range []ssa.Value{bo.X, bo.Y} {
					if u, isU := side.(*ssa.UnOp); isU {
						if gl, isG := u.X.(*ssa.Global); isG && gl.Name() == "ErrConnectionHasClosed" {
							return true, "reason " + s + " under err == ErrConnectionHasClosed"
						}
					}
				}
			}
		}
		return false, "reason " + s
	case *ssa.Parameter:
		if x.Parent().Name() == "Reset" {
			return true, "the connection-level Reset's reason (raised from a close event)"
		}
		if all {
			return true, "any reason closes"
		}
		return false, "reason is a parameter of " + x.Parent().Name()
	case *ssa.UnOp:
		if _, f, _, ok := fieldAddrInfo(x.X); ok && f == "resetReason" {
			if writersOK {
				return true, "reason recorded by the connection-level Reset"
			}
			return false, "resetReason is written outside Reset"
		}
	case *ssa.Phi:
		for i, e := range x.Edges {
			// judge the edge at its predecessor: guards of the phi's own block do not apply
			pred := x.Block().Preds[i]
			var at ssa.Instruction = site
			if len(pred.Instrs) > 0 {
				at = pred.Instrs[len(pred.Instrs)-1]
			}
			if ok, why := c09ReasonOK(e, at, all, set, writersOK, depth+1); !ok {
				return false, why
			}
		}
		return true, "every alternative closes or is raised on a closed connection"
	case *ssa.ChangeType:
		return c09ReasonOK(x.X, site, all, set, writersOK, depth+1)
	case *ssa.Convert:
		return c09ReasonOK(x.X, site, all, set, writersOK, depth+1)
	}
	if all {
		return true, "any reason closes"
	}
	return false, "reason not resolved"
}

// c09CloseHandlerUnconditional (R3): every close event of a pooled connection retires its client.
// The pool's books (idle list, closed flag, client count) are corrected in the connection-event handler. A handler that
// declines for some close events - because of the client's own state, a counter, a flag - leaves a dead connection that
// still looks alive: OnDestroyStream re-pools it (closed is false), the next request leases it, and the count stays one too
// high for good. Clause: for every closing event, no path through the handler avoids the instruction that marks the client
// closed (directly, or through a helper of the package that does so unconditionally).
func c09CloseHandlerUnconditional(c *Ctx) {
	for _, p := range c09ResetPools {
		n := 0
		ord := ordCounter{}
		for _, fn := range c.PkgFuncs(p.pkg) {
			for _, st := range storesToField(fn, "."+p.client, "closed", false) {
				if b, ok := constBool(st.Val); !ok || !b {
					continue
				}
				if ev, _ := eventParamOf(fn); ev != nil {
					n++
					ok, why := mustRunOnCloseEvents(st)
					c.Check("C09.R3", ord.next(fn, "close-handler-unconditional"), st.Pos(), ok, "the client is marked closed for every closing event", "the connection-event handler of "+p.client+" "+why+" without retiring the client: a closed connection stays in the books, is re-pooled by OnDestroyStream and leased to the next request, and the client count never comes down")
					continue
				}
				// a helper: unconditional inside, and every event handler calling it cannot skip it
				if !unconditionalIn(st) {
					n++
					c.Fail("C09.R3", ord.next(fn, "close-handler-unconditional"), st.Pos(), fn.Name()+" marks the client closed only on some of its paths")
					continue
				}
				for _, g := range c.PkgFuncs(p.pkg) {
					if ev, _ := eventParamOf(g); ev == nil {
						continue
					}
					for _, cs := range callsIn(g, false, func(cc *ssa.CallCommon) bool { return cc.StaticCallee() == fn }) {
						n++
						ok, why := mustRunOnCloseEvents(cs.Instr)
						c.Check("C09.R3", ord.next(g, "close-handler-unconditional"), cs.Instr.Pos(), ok, "the client is retired ("+fn.Name()+") for every closing event", "the connection-event handler of "+p.client+" "+why+" without retiring the client ("+fn.Name()+"): a closed connection stays in the books, is re-pooled by OnDestroyStream and leased to the next request, and the client count never comes down")
					}
				}
			}
		}
		if n < 1 {
			c.Unresolved("C09.R3", "the place where "+p.client+" is marked closed on a connection event")
		}
	}
}

// c09IdleListNotAliased (R3): the idle list is read under the pool mutex - all of it, not only its header.
// Loading the slice field under the lock and walking the loaded value after the lock is released reads the *shared backing
// array* unprotected: a client that comes back meanwhile (append under the lock) overwrites slots the walker has not read
// yet. pool.Close then closes the wrong client and the overwritten one is neither idle, leased nor closed, while it still
// counts against the limit. Clause: every element access (index, range, re-slice that is then indexed) through a value
// loaded from the idle-list field happens with the pool mutex held; code that needs the clients after unlocking copies
// them into storage of its own first.
func c09IdleListNotAliased(c *Ctx) {
	for _, p := range c09Pools {
		n := 0
		ord := ordCounter{}
		for _, fn := range c.PkgFuncs(p.pkg) {
			forEachInstr(fn, false, func(f *ssa.Function, in ssa.Instruction) {
				u, ok := in.(*ssa.UnOp)
				if !ok || u.Op != token.MUL {
					return
				}
				tn, fld, _, okf := fieldAddrInfo(u.X)
				if !okf || fld != p.idle || !strings.HasSuffix(tn, "."+p.poolType) {
					return
				}
				// element accesses through this loaded slice value
				var visit func(v ssa.Value, d int)
				visit = func(v ssa.Value, d int) {
					if d > 3 {
						return
					}
					for _, r := range refs(v) {
						switch x := r.(type) {
						case *ssa.Slice:
							visit(x, d+1)
						case *ssa.Phi:
							visit(x, d+1)
						case *ssa.IndexAddr:
							for _, rr := range refs(x) {
								ri, isI := rr.(ssa.Instruction)
								if !isI {
									continue
								}
								if _, isDbg := rr.(*ssa.DebugRef); isDbg {
									continue
								}
								n++
								held := lockHeld(ri, p.mutex) || strings.HasSuffix(f.Name(), "Locked")
								c.Check("C09.R3", ord.next(f, "element-access-"+p.idle), ri.Pos(), held, p.mutex+" held while an element of "+p.idle+" is accessed", "an element of "+p.poolType+"."+p.idle+" is accessed in "+f.Name()+" through a slice value that was loaded from the field, after "+p.mutex+" was released: the slice shares its backing array with the live idle list, so a client returned meanwhile overwrites a slot that has not been read yet - the wrong connection is closed and the overwritten one leaks")
							}
						}
					}
				}
				visit(u, 0)
			})
		}
		if n < 1 {
			c.Unresolved("C09.R3", "element accesses of "+p.poolType+"."+p.idle)
		}
	}
}

// c09SlotClearedBeforeReceive (R7, HTTP/1): the single stream slot of a ping-pong connection is released before the
// response is delivered. Delivering the response destroys the stream and puts the connection back into the pool
// (clientStreamReceiverWrapper.OnReceive -> DestroyStream -> OnDestroyStream -> idle list), so the connection can be
// leased again before handleResponse returns. Clause: in clientStream.handleResponse every receiver.OnReceive call is
// dominated by a store of nil to clientStreamConnection.stream, and no store to that slot - in the function, in a
// deferred call or in a closure - can execute after the delivery: such a store would wipe the slot the next lease has
// just filled, and the next response would find no stream to go to.
func c09SlotClearedBeforeReceive(c *Ctx) {
	fn := c.M("pkg/stream/http", "clientStream", "handleResponse")
	if fn == nil {
		c.Unresolved("C09.R7", "http clientStream.handleResponse")
		return
	}
	fk := funcKey(fn)
	recv := callsIn(fn, false, func(cc *ssa.CallCommon) bool { return cc.IsInvoke() && cc.Method.Name() == "OnReceive" })
	if len(recv) == 0 {
		c.Unresolved("C09.R7", "receiver.OnReceive call in http clientStream.handleResponse")
		return
	}
	direct := storesToField(fn, "clientStreamConnection", "stream", false)
	all := storesToField(fn, "clientStreamConnection", "stream", true)
	for i, cs := range recv {
		cleared := false
		for _, st := range direct {
			if isNilConst(st.Val) && instrDominates(st, cs.Instr) {
				cleared = true
			}
		}
		late := len(all) != len(direct) // a store inside a deferred function or closure runs at an unknown, later time
		for _, st := range direct {
			if existsPath(fn, cs.Instr, func(in ssa.Instruction) bool { return in == ssa.Instruction(st) }, nil) != nil {
				late = true
			}
		}
		c.Check("C09.R7", fmt.Sprintf("%s:slot-cleared-before-receive#%d", fk, i+1), cs.Instr.Pos(), cleared && !late, "connection.stream = nil dominates the delivery and nothing writes the slot afterwards", "the HTTP/1 connection's stream slot is not released before the response is delivered (or is written after it): delivery hands the connection back to the pool, the next lease fills the slot, and the late write wipes it - the next request's response has no stream to go to and the connection never returns to the pool")
	}
}

// freshStreamPerTry (C09.R9 / C10.PAIR): the stream object a client connection hands out starts a new life.
// stream.BaseStream carries the once-only state of a stream (reset -> destroying -> destroyed) and its listener list; the
// pools release the connection, the requests-breaker slot and the active gauges in OnDestroyStream, which BaseStream runs
// exactly once. The client stream objects of HTTP/1 and xprotocol live in the per-request buffer context, and a retry
// opens its next try on the same request context - so the function that hands the object out must not pass on the
// state of the try that ended. Clause, for every function of pkg/stream/{http,http2,xprotocol} that returns a client
// stream embedding BaseStream (NewStream / newClientStream): each returned object is
//
//	(a) freshly allocated, or
//	(c) a slot of the request's buffer context on a path where it was tested unused (a pointer field of the slot
//	    compared with nil).
//
// Until repair 109 a third form was accepted: (b) a slot whose embedded stream is overwritten by a whole-struct store. That
// keeps the state of the old try out, but not its owner: the serve goroutine of the old try's connection may still hold
// the slot and resets the new try when it wakes up late (S86). So (b) is gone.
//
// Otherwise the stream of a retry is born destroyed: its DestroyStream/ResetStream are no-ops, the connection is neither
// returned to the pool nor closed, and the breaker slot and gauges of every retried request leak.
func freshStreamPerTry(c *Ctx, rule string) {
	type target struct{ pkg, typ, fn string }
	n := 0
	for _, t := range []target{{"pkg/stream/http", "clientStreamConnection", "NewStream"}, {"pkg/stream/xprotocol", "streamConn", "newClientStream"}, {"pkg/stream/http2", "clientStreamConnection", "NewStream"}} {
		if c.TypesPkg(t.pkg) == nil {
			continue // package not in this property's quick scope
		}
		fn := c.M(t.pkg, t.typ, t.fn)
		if fn == nil {
			c.Unresolved(rule, t.typ+"."+t.fn)
			continue
		}
		fk := funcKey(fn)
		var why string
		var fresh func(v ssa.Value, gs []Guard, seen map[ssa.Value]bool) bool
		fresh = func(v ssa.Value, gs []Guard, seen map[ssa.Value]bool) bool {
			if seen[v] {
				return true
			}
			seen[v] = true
			switch x := v.(type) {
			case *ssa.Alloc:
				return true
			case *ssa.MakeInterface:
				return fresh(x.X, gs, seen)
			case *ssa.ChangeInterface:
				return fresh(x.X, gs, seen)
			case *ssa.Phi:
				for i, e := range x.Edges {
					pred := x.Block().Preds[i]
					eg := guardsAt(pred)
					if ifi, ok := pred.Instrs[len(pred.Instrs)-1].(*ssa.If); ok && pred.Succs[0] != pred.Succs[1] {
						eg = append(eg, normGuard(Guard{Cond: ifi.Cond, True: pred.Succs[0] == x.Block(), If: ifi})...)
					}
					if !fresh(e, eg, seen) {
						return false
					}
				}
				return true
			case *ssa.FieldAddr:
				// a slot of the per-context buffers
				// (A whole-struct store into the slot used to be accepted here as "re-initialised". It is not enough: the serve
				// goroutine of the connection of the try that ended can still hold the slot and resets whatever is in it when
				// it wakes up (S86) - the slot must be unused, not merely rewritten.)
				// (c) tested unused on the way here
				for _, g := range gs {
					bo, ok := g.Cond.(*ssa.BinOp)
					if !ok || !isNilConst(bo.Y) {
						continue
					}
					ld, ok := bo.X.(*ssa.UnOp)
					if !ok {
						continue
					}
					if fa, ok := ld.X.(*ssa.FieldAddr); ok && fa.X == ssa.Value(x) {
						if (bo.Op == token.EQL && g.True) || (bo.Op == token.NEQ && !g.True) {
							return true
						}
					}
				}
				_, fld, _, _ := fieldAddrInfo(x)
				why = "the per-request slot " + fld + " is handed out again as it is"
				return false
			}
			why = fmt.Sprintf("stream object of unrecognised origin (%T)", v)
			return false
		}
		for i, rs := range returnSites(fn, 0) {
			if isNilConst(rs.val) {
				continue
			}
			n++
			why = ""
			ok := fresh(rs.val, guardsAt(rs.at.Block()), map[ssa.Value]bool{})
			c.Check(rule, fmt.Sprintf("%s:fresh-stream-per-try#%d", fk, i+1), nearestPos(rs.at), ok, "the stream handed out is new, or a slot tested unused", "the client stream handed out for a new try can be the object of the try that ended ("+why+"): a retry runs on the same request context; with the old state in it the stream is born destroyed (DestroyStream/ResetStream do nothing, the breaker slot and gauges of the retried request leak), and even rewritten it is still held by the serve goroutine of the old connection, which resets the new try when it wakes up late")
		}
	}
	if n < 1 {
		c.Unresolved(rule, "client stream constructors (NewStream / newClientStream)")
	}
}

func derefType(t types.Type) types.Type {
	if p, ok := t.Underlying().(*types.Pointer); ok {
		return p.Elem()
	}
	return t
}
