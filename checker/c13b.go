package main

import (
	"fmt"
	"go/token"
	"sort"
	"strings"

	"golang.org/x/tools/go/ssa"
)

// C13.R6 — a server name selects a context only by whole-name or whole-label comparison.
//
// GetConfigForClient (R5) picks the TLS context - certificate and client-auth policy - whose MatchedServerName(sni) is
// true. If that predicate can be satisfied by a name that merely *ends with* a configured wildcard's base name
// ("contest.com" for "*.test.com"), a peer gets another context's policy. Structural clause: every `return true` of a
// name predicate is dominated by the hit edge of a comparison that is whole-string (map membership, ==, EqualFold) or,
// for substring primitives (HasSuffix/HasPrefix), by one whose pattern provably starts (resp. ends) at a label boundary.
// "Provably" uses a small prefix domain over string values: constants, "."+x, TrimPrefix(x,"*") / x[1:] under a
// HasPrefix(x,"*.") guard, and elements of a slice field all of whose appended values have the prefix.

type prefixCtx struct {
	c    *Ctx
	pkg  string
	seen map[ssa.Value]bool
}

// startsWithDot: the string value provably begins with ".".
func (p *prefixCtx) startsWith(v ssa.Value, want string, depth int) bool {
	if v == nil || depth > 8 || p.seen[v] {
		return false
	}
	p.seen[v] = true
	defer delete(p.seen, v)
	switch x := v.(type) {
	case *ssa.Const:
		s, ok := constString(x)
		return ok && strings.HasPrefix(s, want)
	case *ssa.BinOp:
		if x.Op == token.ADD {
			if k, ok := x.X.(*ssa.Const); ok {
				if s, ok := constString(k); ok && len(s) > 0 {
					return strings.HasPrefix(s, want)
				}
			}
			return p.startsWith(x.X, want, depth+1)
		}
	case *ssa.Call:
		cc := x.Common()
		name := calleeName(cc)
		switch {
		case strings.HasSuffix(name, "strings.TrimPrefix") && len(cc.Args) == 2:
			if k, ok := cc.Args[1].(*ssa.Const); ok {
				if cut, ok := constString(k); ok {
					// TrimPrefix(x, cut): when x starts with cut+want the result starts with want
					return p.guardedPrefix(cc.Args[0], cut+want, x) || p.startsWith(cc.Args[0], cut+want, depth+1)
				}
			}
		case strings.HasSuffix(name, "strings.ToLower"):
			if want == strings.ToLower(want) {
				return p.startsWith(cc.Args[0], want, depth+1)
			}
		}
	case *ssa.Slice:
		// x[k:] of a string with a known longer prefix
		if x.High == nil && x.Low != nil {
			if k, ok := constInt(x.Low); ok && k > 0 {
				for _, pre := range []string{"*", "*.", "."} {
					if int(k) == len(pre) && (p.guardedPrefix(x.X, pre+want, x) || p.startsWith(x.X, pre+want, depth+1)) {
						return true
					}
				}
			}
		}
	case *ssa.Phi:
		for _, e := range x.Edges {
			if !p.startsWith(e, want, depth+1) {
				return false
			}
		}
		return len(x.Edges) > 0
	case *ssa.UnOp:
		if x.Op == token.MUL {
			// element of a slice field: every value stored into that field in the package has the prefix
			if ia, ok := x.X.(*ssa.IndexAddr); ok {
				if _, f, _, okf := loadedField(ia.X); okf {
					return p.fieldElemsStartWith(f, want, depth+1)
				}
			}
		}
	case *ssa.Extract:
		// range over a slice field yields (index, value) through Next for maps; for slices go/ssa uses IndexAddr
	}
	return false
}

// guardedPrefix: at `at`, v is known to start with want because a dominating HasPrefix(v, lit) true edge says so.
func (p *prefixCtx) guardedPrefix(v ssa.Value, want string, at ssa.Instruction) bool {
	for _, g := range guardsAt(at.Block()) {
		call, ok := g.Cond.(*ssa.Call)
		if !ok || !g.True {
			continue
		}
		cc := call.Common()
		if strings.HasSuffix(calleeName(cc), "strings.HasPrefix") && len(cc.Args) == 2 && cc.Args[0] == v {
			if k, ok := cc.Args[1].(*ssa.Const); ok {
				if s, ok := constString(k); ok && strings.HasPrefix(s, want) {
					return true
				}
			}
		}
	}
	return false
}

func (p *prefixCtx) fieldElemsStartWith(field, want string, depth int) bool {
	n := 0
	ok := true
	for _, fn := range p.c.PkgFuncs(p.pkg) {
		forEachInstr(fn, true, func(_ *ssa.Function, in ssa.Instruction) {
			st, isS := in.(*ssa.Store)
			if !isS {
				return
			}
			if _, f, _, okf := fieldAddrInfo(st.Addr); !okf || f != field {
				return
			}
			if isNilConst(st.Val) {
				return
			}
			n++
			if !p.sliceElemsStartWith(st.Val, want, depth+1, map[ssa.Value]bool{}) {
				ok = false
			}
		})
	}
	return ok && n > 0
}

// sliceElemsStartWith: every element ever appended to the slice value has the prefix.
func (p *prefixCtx) sliceElemsStartWith(v ssa.Value, want string, depth int, seen map[ssa.Value]bool) bool {
	if seen[v] {
		return true // cycle through the accumulator phi
	}
	seen[v] = true
	if depth > 10 {
		return false
	}
	switch x := v.(type) {
	case *ssa.Const:
		return x.IsNil()
	case *ssa.Phi:
		for _, e := range x.Edges {
			if !p.sliceElemsStartWith(e, want, depth+1, seen) {
				return false
			}
		}
		return true
	case *ssa.Call:
		if b, ok := x.Call.Value.(*ssa.Builtin); ok && b.Name() == "append" {
			if !p.sliceElemsStartWith(x.Call.Args[0], want, depth+1, seen) {
				return false
			}
			// variadic pack: new [n]string; stores of the elements; slice
			return p.packedElemsStartWith(x.Call.Args[1], want, depth+1)
		}
	case *ssa.MakeSlice:
		n, ok := constInt(x.Len)
		return ok && n == 0
	case *ssa.Slice:
		return emptyFresh(x)
	case *ssa.UnOp:
		if al, ok := localAlloc(x); ok {
			for _, r := range refs(al) {
				if st, isS := r.(*ssa.Store); isS && st.Addr == ssa.Value(al) {
					if !p.sliceElemsStartWith(st.Val, want, depth+1, seen) {
						return false
					}
				}
			}
			return true
		}
	}
	return false
}

func (p *prefixCtx) packedElemsStartWith(v ssa.Value, want string, depth int) bool {
	sl, ok := v.(*ssa.Slice)
	if !ok {
		return false
	}
	al, ok := sl.X.(*ssa.Alloc)
	if !ok {
		return false
	}
	n := 0
	for _, r := range refs(al) {
		if ia, isI := r.(*ssa.IndexAddr); isI {
			for _, r2 := range refs(ia) {
				if st, isS := r2.(*ssa.Store); isS && st.Addr == ssa.Value(ia) {
					n++
					if !p.startsWith(st.Val, want, depth+1) {
						return false
					}
				}
			}
		}
	}
	return n > 0
}

func c13NameMatching(c *Ctx) {
	pkg := "pkg/mtls"
	fn := c.M(pkg, "tlsContext", "MatchedServerName")
	if fn == nil {
		c.Unresolved("C13.R6", "tlsContext.MatchedServerName")
		return
	}
	fk := funcKey(fn)
	pc := &prefixCtx{c: c, pkg: pkg, seen: map[ssa.Value]bool{}}
	n := 0
	for _, rs := range returnSites(fn, 0) {
		b, isC := constBool(rs.val)
		if isC && !b {
			continue
		}
		n++
		key := fmt.Sprintf("%s:positive-decision#%d", fk, n)
		if !isC {
			c.Fail("C13.R6", key, nearestPos(rs.at), "the verdict is a computed value, not the outcome of a recognised whole-name comparison")
			continue
		}
		why, ok := "", false
		var reasons []string
		for _, g := range guardsAt(rs.at.Block()) {
			switch x := g.Cond.(type) {
			case *ssa.Extract:
				if lk, isL := x.Tuple.(*ssa.Lookup); isL && x.Index == 1 && g.True && lk.CommaOk {
					if _, f, _, okf := loadedField(lk.X); okf && f == "matches" {
						ok, why = true, "hit in the table of configured names (whole-string equality)"
					}
				}
			case *ssa.BinOp:
				if x.Op == token.EQL && g.True && isStringType(x.X) {
					ok, why = true, "string equality"
				}
			case *ssa.Call:
				cc := x.Common()
				name := calleeName(cc)
				switch {
				case strings.HasSuffix(name, "strings.EqualFold") && g.True:
					ok, why = true, "EqualFold"
				case strings.HasSuffix(name, "strings.HasSuffix") && g.True && len(cc.Args) == 2:
					if pc.startsWith(cc.Args[1], ".", 0) {
						ok, why = true, "suffix comparison whose pattern starts at a label boundary"
					} else {
						reasons = append(reasons, "HasSuffix with a pattern not known to start with '.'")
					}
				case (strings.HasSuffix(name, "strings.Contains") || strings.HasSuffix(name, "strings.HasPrefix") || strings.HasSuffix(name, "strings.Index")) && g.True:
					reasons = append(reasons, "substring test "+name[strings.LastIndex(name, ".")+1:])
				}
			}
		}
		sort.Strings(reasons)
		if ok {
			c.Pass("C13.R6", key, nearestPos(rs.at), why)
		} else {
			c.Fail("C13.R6", key, nearestPos(rs.at), "a server name is accepted without a whole-name / label-boundary comparison ("+strings.Join(reasons, "; ")+"): a name that merely ends with a wildcard's base name (contest.com for *.test.com) selects that context and gets its certificate and client-auth policy")
		}
	}
	if n < 2 {
		c.Unresolved("C13.R6", fmt.Sprintf("positive decisions in MatchedServerName (found %d)", n))
	}
	// the label idiom, when used: Split and Join on the same "." separator; the replaced label is "*"
	var split, join []string
	forEachInstr(fn, false, func(_ *ssa.Function, in ssa.Instruction) {
		call, ok := in.(*ssa.Call)
		if !ok {
			return
		}
		cc := call.Common()
		name := calleeName(cc)
		if strings.HasSuffix(name, "strings.Split") || strings.HasSuffix(name, "strings.Join") {
			sep := "?"
			if k, ok := cc.Args[1].(*ssa.Const); ok {
				if s, ok := constString(k); ok {
					sep = s
				}
			}
			if strings.HasSuffix(name, "Split") {
				split = append(split, sep)
			} else {
				join = append(join, sep)
			}
		}
	})
	if len(split)+len(join) > 0 {
		ok := len(split) == 1 && len(join) == 1 && split[0] == "." && join[0] == "."
		c.Check("C13.R6", fk+":label-idiom", fn.Pos(), ok, "labels are split and re-joined on \".\"", "wildcard candidates are not built by splitting and joining on the same \".\" separator")
	}
	// normalisation: the name is lower-cased before any comparison
	low := callsIn(fn, false, func(cc *ssa.CallCommon) bool {
		if strings.HasSuffix(calleeName(cc), "strings.ToLower") {
			return true
		}
		// a normalising helper of the package (round 16: the lower-casing may be factored out): every return of it
		// derives from a strings.ToLower call
		callee := cc.StaticCallee()
		if callee == nil || callee.Pkg != fn.Pkg || len(callee.Blocks) == 0 || callee.Signature.Results().Len() != 1 {
			return false
		}
		all, any := true, false
		for _, in := range instrsWhere(callee, isReturn) {
			any = true
			if !derivesFrom(unspill(in.(*ssa.Return), 0), func(v ssa.Value) bool {
				cl, isC := v.(*ssa.Call)
				return isC && strings.HasSuffix(calleeName(cl.Common()), "strings.ToLower")
			}) {
				all = false
			}
		}
		return any && all
	})
	okLow := len(low) >= 1
	if okLow {
		forEachInstr(fn, false, func(_ *ssa.Function, in ssa.Instruction) {
			if lk, ok := in.(*ssa.Lookup); ok {
				if _, f, _, okf := loadedField(lk.X); okf && f == "matches" && !instrDominates(low[0].Instr, lk) {
					okLow = false
				}
			}
		})
	}
	c.Check("C13.R6", fk+":lower-cased-first", fn.Pos(), okLow, "the server name is lower-cased before it is compared", "the server name is compared without lower-casing it first (SNI is case-insensitive)")
}

func isStringType(v ssa.Value) bool {
	return strings.HasSuffix(v.Type().Underlying().String(), "string")
}

// c13FreshPool (R3, provenance of the trust anchors): the pool GetX509Pool returns reflects the CA bytes as they are now.
// caIndex is either inline PEM or a file path. Every non-nil pool returned must be a pool created in this call
// (x509.NewCertPool) and filled (AppendCertsFromPEM) from bytes obtained in this call — the inline PEM or the file read
// now — or come from package-level state looked up under a key derived from those bytes. A pool remembered under the
// path string survives a rotation of the CA file: peers chaining to the old CA keep being accepted and the configured
// CA is rejected, for client authentication and for upstream verification alike.
func c13FreshPool(c *Ctx) {
	fn := c.M("pkg/mtls", "defaultConfigHooks", "GetX509Pool")
	if fn == nil {
		c.Unresolved("C13.R3", "defaultConfigHooks.GetX509Pool")
		return
	}
	fk := funcKey(fn)
	// bytes read in this call
	fromBytes := func(v ssa.Value) bool {
		seen := map[ssa.Value]bool{}
		var walk func(v ssa.Value, d int) bool
		walk = func(v ssa.Value, d int) bool {
			if v == nil || seen[v] || d > 8 {
				return false
			}
			seen[v] = true
			switch x := v.(type) {
			case *ssa.Call:
				n := calleeName(x.Common())
				if strings.HasSuffix(n, "ioutil.ReadFile") || strings.HasSuffix(n, "os.ReadFile") {
					return true
				}
				// hash / string(bytes) of the content
				for _, a := range x.Call.Args {
					if walk(a, d+1) {
						return true
					}
				}
			case *ssa.Extract:
				return walk(x.Tuple, d+1)
			case *ssa.Convert:
				// []byte(caIndex): the inline PEM itself
				if _, isP := x.X.(*ssa.Parameter); isP {
					return true
				}
				return walk(x.X, d+1)
			case *ssa.Phi:
				for _, e := range x.Edges {
					if !walk(e, d+1) {
						return false
					}
				}
				return len(x.Edges) > 0
			case *ssa.UnOp:
				if al, ok := localAlloc(x); ok {
					any := false
					for _, r := range refs(al) {
						if st, isS := r.(*ssa.Store); isS && st.Addr == ssa.Value(al) {
							if !walk(st.Val, d+1) {
								return false
							}
							any = true
						}
					}
					return any
				}
			case *ssa.MakeInterface:
				return walk(x.X, d+1)
			case *ssa.Slice:
				return walk(x.X, d+1)
			}
			return false
		}
		return walk(v, 0)
	}
	n := 0
	for _, rs := range returnSites(fn, 0) {
		if isNilConst(rs.val) {
			continue
		}
		n++
		key := fmt.Sprintf("%s:pool-reflects-current-ca#%d", fk, n)
		ok, why := false, "unrecognised origin"
		switch x := stripIface(rs.val).(type) {
		case *ssa.Call:
			if strings.HasSuffix(calleeName(x.Common()), "x509.NewCertPool") {
				// filled from bytes obtained now
				for _, r := range refs(x) {
					if call, isC := r.(*ssa.Call); isC && methodName(call.Common()) == "AppendCertsFromPEM" && fromBytes(call.Common().Args[1]) {
						ok, why = true, "new pool filled from the CA bytes read in this call"
					}
				}
				if !ok {
					why = "new pool not filled from the CA bytes of this call"
				}
			}
		case *ssa.TypeAssert:
			// value loaded from package-level state: the lookup key must derive from the bytes
			if ex, isEx := x.X.(*ssa.Extract); isEx {
				if call, isC := ex.Tuple.(*ssa.Call); isC && methodName(call.Common()) == "Load" {
					args := call.Common().Args
					if fromBytes(args[len(args)-1]) {
						ok, why = true, "cached under a key derived from the CA bytes"
					} else {
						why = "taken from a cache whose key is not derived from the CA bytes (a file path names different content after a rotation)"
					}
				}
			}
		}
		c.Check("C13.R3", key, nearestPos(rs.at), ok, why, "GetX509Pool can return a pool that does not reflect the configured CA as it is now ("+why+"): after the CA file is replaced, rebuilt TLS contexts keep trusting the old CA and reject the configured one")
	}
	if n < 1 {
		c.Unresolved("C13.R3", "non-nil pool returns of GetX509Pool")
	}
}

// c13ManagerFromUpdatedConfig (R7): an updated listener's TLS manager is built from the updated configuration.
// AddOrUpdateListener copies the new settings into the listener's stored config and then builds a new TLS context
// manager from that config. Everything the constructor reads (computed from NewTLSServerContextManager and its callees:
// inspector, the filter chains' TLS contexts, the name) must have been copied *before* the call; a field assigned after
// it makes the manager keep the previous value while the stored (dumped) config shows the new one - e.g. plaintext keeps
// being accepted on a listener whose inspector was switched off.
func c13ManagerFromUpdatedConfig(c *Ctx) {
	ctor := c.F("pkg/mtls", "NewTLSServerContextManager")
	upd := c.M("pkg/server", "connHandler", "AddOrUpdateListener")
	if ctor == nil || upd == nil {
		c.Unresolved("C13.R7", "mtls.NewTLSServerContextManager / connHandler.AddOrUpdateListener")
		return
	}
	// fields of the listener config the constructor reads (first and second level names)
	reads := map[string]bool{}
	for f := range staticReach([]*ssa.Function{ctor}, "pkg/mtls") {
		forEachInstr(f, true, func(_ *ssa.Function, in ssa.Instruction) {
			fa, ok := in.(*ssa.FieldAddr)
			if !ok {
				return
			}
			tn := typeName(fa.X.Type())
			if strings.HasSuffix(tn, "v2.Listener") || strings.HasSuffix(tn, "v2.ListenerConfig") || strings.HasSuffix(tn, "v2.FilterChain") || strings.HasSuffix(tn, "v2.FilterChainConfig") {
				reads[derefStruct(fa.X.Type()).Field(fa.Field).Name()] = true
			}
		})
	}
	delete(reads, "ListenerConfig")
	delete(reads, "FilterChainConfig")
	if len(reads) < 2 {
		c.Unresolved("C13.R7", fmt.Sprintf("listener-config fields read by NewTLSServerContextManager (found %d)", len(reads)))
		return
	}
	var names []string
	for n := range reads {
		names = append(names, n)
	}
	sort.Strings(names)
	n := 0
	for _, cs := range callsIn(upd, false, func(cc *ssa.CallCommon) bool { return cc.StaticCallee() == ctor }) {
		cfg := cs.Instr.Common().Args[0]
		// only the call that rebuilds from the stored config of an existing listener (its argument is not the parameter)
		if _, isParam := cfg.(*ssa.Parameter); isParam {
			continue
		}
		n++
		var late []string
		forEachInstr(upd, false, func(_ *ssa.Function, in ssa.Instruction) {
			st, ok := in.(*ssa.Store)
			if !ok {
				return
			}
			_, f, _, okf := fieldAddrInfo(st.Addr)
			if !okf || !reads[f] || rootOf(st.Addr) != rootOf(cfg) {
				return
			}
			if existsPath(upd, cs.Instr, func(x ssa.Instruction) bool { return x == in }, nil) != nil {
				late = append(late, f)
			}
		})
		sort.Strings(late)
		c.Check("C13.R7", fmt.Sprintf("%s:manager-built-after-config-copied#%d", funcKey(upd), n), cs.Instr.Pos(), len(late) == 0, "every field the TLS manager constructor reads ("+strings.Join(names, ",")+") is copied into the stored config before the manager is built", "the stored listener config field(s) "+strings.Join(late, ",")+" are assigned after the TLS context manager was built from that config: the manager keeps the previous setting (e.g. still accepts plaintext although inspector was switched off) while the configuration shows the new one")
	}
	if n < 1 {
		c.Unresolved("C13.R7", "rebuild of the TLS manager in the update branch of AddOrUpdateListener")
	}
}

// ---------------------------------------------------------------------------------------------
// C13.R5, clauses on the ALPN fallback that do not depend on where the test is written.
//
// "When no context's names match, the first context - in configuration order - whose ALPN list shares a protocol with
// the client's list is used." Two structural necessary conditions:
//
//	alpn-whole-list      every MatchedALPN test is given the client's whole protocol list (ClientHelloInfo.SupportedProtos,
//	                     possibly handed down through a parameter): testing one protocol at a time makes the *client's*
//	                     preference order decide, not the configuration order;
//	alpn-context-order   the tested provider is the element of serverContextManager.providers of the one loop around the
//	                     test; the test sits in exactly one loop (a second, outer loop re-orders the candidates).
type alpnSite struct {
	fn   *ssa.Function
	call ssa.CallInstruction
}

func c13ALPNCalls(c *Ctx, pkg string, gc *ssa.Function) []alpnSite {
	reach := staticReach([]*ssa.Function{gc}, pkg)
	var fns []*ssa.Function
	for f := range reach {
		fns = append(fns, f)
	}
	sort.Slice(fns, func(i, j int) bool { return fns[i].String() < fns[j].String() })
	var out []alpnSite
	for _, f := range fns {
		for _, cs := range callsIn(f, false, func(cc *ssa.CallCommon) bool { return cc.IsInvoke() && cc.Method.Name() == "MatchedALPN" }) {
			out = append(out, alpnSite{f, cs.Instr})
		}
	}
	ord := ordCounter{}
	for _, a := range out {
		key := ord.next(a.fn, "alpn-whole-list")
		okW, whyW := wholeProtoList(a.call.Common().Args[0], a.fn, reach, 0)
		c.Check("C13.R5", key, a.call.Pos(), okW, "MatchedALPN is given the client's whole protocol list", "the ALPN test is applied to "+whyW+" instead of the client's whole protocol list: with one protocol tested at a time the client's preference order, not the configured order of the contexts, decides which certificate and client-auth policy are presented")
		key2 := ord.next(a.fn, "alpn-context-order")
		recv := a.call.Common().Value
		elem := false
		if u, ok := recv.(*ssa.UnOp); ok {
			if ia, ok := u.X.(*ssa.IndexAddr); ok {
				if _, f, _, okf := loadedField(ia.X); okf && f == "providers" {
					elem = true
				}
			}
		}
		nLoops := 0
		for _, body := range naturalLoops(a.fn) {
			if body[a.call.Block()] {
				nLoops++
			}
		}
		c.Check("C13.R5", key2, a.call.Pos(), elem && nLoops == 1, "tested on the element of the one loop over the configured providers", fmt.Sprintf("the ALPN test is not made once per configured context in configuration order (element of providers: %v, enclosing loops: %d): the first context in configuration order that matches is no longer the one chosen", elem, nLoops))
	}
	return out
}

// wholeProtoList: v is ClientHelloInfo.SupportedProtos, or a parameter bound to it at every call site in the reach set.
func wholeProtoList(v ssa.Value, fn *ssa.Function, reach map[*ssa.Function]bool, depth int) (bool, string) {
	if depth > 4 {
		return false, "a value that could not be traced"
	}
	switch x := v.(type) {
	case *ssa.UnOp:
		if _, f, _, ok := fieldAddrInfo(x.X); ok && f == "SupportedProtos" {
			return true, ""
		}
	case *ssa.Slice:
		return false, "a sub-slice of the list"
	case *ssa.Parameter:
		idx := -1
		for i, p := range fn.Params {
			if p == x {
				idx = i
			}
		}
		n := 0
		for f := range reach {
			for _, cs := range callsIn(f, true, func(cc *ssa.CallCommon) bool { return cc.StaticCallee() == fn }) {
				n++
				args := cs.Instr.Common().Args
				if idx < 0 || idx >= len(args) {
					return false, "a parameter that could not be traced"
				}
				if ok, why := wholeProtoList(args[idx], cs.Instr.Parent(), reach, depth+1); !ok {
					return false, why
				}
			}
		}
		if n > 0 {
			return true, ""
		}
		return false, "a parameter with no traced caller"
	}
	return false, "a derived value"
}

// c13SelectionHelperForm: the ALPN fallback is computed by a helper of the package that returns the chosen provider.
func c13SelectionHelperForm(c *Ctx, gc *ssa.Function, sni ssa.Instruction, a alpnSite) {
	fk := funcKey(gc)
	h := a.fn
	recv := a.call.Common().Value
	// ready-first (both places)
	readyGuard := func(at ssa.Instruction, recv ssa.Value) bool {
		for _, g := range guardsAt(at.Block()) {
			if call, ok := g.Cond.(*ssa.Call); ok && g.True && call.Common().IsInvoke() && call.Common().Method.Name() == "Ready" && call.Common().Value == recv {
				return true
			}
		}
		return false
	}
	sniRecv := sni.(ssa.CallInstruction).Common().Value
	c.Check("C13.R5", fk+":ready-first", gc.Pos(), readyGuard(sni, sniRecv) && readyGuard(a.call, recv), "providers that are not ready are skipped before any matching", "a provider that is not ready can be matched")
	// helper: first match returns that provider
	first := false
	for _, r := range refs(a.call.(ssa.Value)) {
		if ifi, ok := r.(*ssa.If); ok {
			for _, in := range ifi.Block().Succs[0].Instrs {
				if ret, isR := in.(*ssa.Return); isR && isReturn(in) && len(ret.Results) >= 1 && stripIface(unspill(ret, 0)) == stripIface(recv) {
					first = true
				}
			}
		}
	}
	c.Check("C13.R5", fk+":first-alpn", a.call.Pos(), first, "the first provider whose ALPN test holds is returned at once", "the helper does not return the first provider whose ALPN test holds")
	// the helper is consulted after the loop over all providers (every SNI test done), outside any loop
	var hc ssa.CallInstruction
	for _, cs := range callsIn(gc, false, func(cc *ssa.CallCommon) bool { return cc.StaticCallee() == h }) {
		hc = cs.Instr
	}
	if hc == nil {
		c.Fail("C13.R5", fk+":sni-wins", gc.Pos(), "the ALPN helper is not called directly by GetConfigForClient: the order of SNI and ALPN matching cannot be decided")
		return
	}
	sniReturns := false
	for _, r := range refs(sni.(ssa.Value)) {
		if ifi, ok := r.(*ssa.If); ok {
			if existsPathFrom(ifi.Block().Succs[0], func(in ssa.Instruction) bool { return in == ssa.Instruction(hc) }, isReturn) == nil {
				sniReturns = true
			}
		}
	}
	c.Check("C13.R5", fk+":sni-wins", gc.Pos(), sniReturns && inLoop(sni.Block()) && !inLoop(hc.Block()) && !reachableFrom(hc.Block())[sni.Block()], "an SNI match returns immediately; ALPN is consulted only after every provider's names were tested", "an SNI match does not take precedence over ALPN")
	// every return after the helper call that does not use its result is guarded by result == nil
	hv := hc.(ssa.Value)
	okOrder := true
	for _, in := range instrsWhere(gc, isReturn) {
		if !reachableFrom(hc.Block())[in.Block()] || in.Block() == hc.Block() {
			continue
		}
		ret := in.(*ssa.Return)
		uses := false
		var walk func(v ssa.Value, d int)
		walk = func(v ssa.Value, d int) {
			if d > 6 || v == nil {
				return
			}
			if v == hv {
				uses = true
			}
			if call, ok := v.(*ssa.Call); ok {
				if call.Common().IsInvoke() {
					walk(call.Common().Value, d+1)
				}
				for _, x := range call.Common().Args {
					walk(x, d+1)
				}
			}
		}
		walk(unspill(ret, 0), 0)
		if uses {
			continue
		}
		isNil := false
		for _, g := range guardsAt(in.Block()) {
			if bo, ok := g.Cond.(*ssa.BinOp); ok && isNilConst(bo.Y) && bo.X == hv {
				if (bo.Op == token.NEQ && !g.True) || (bo.Op == token.EQL && g.True) {
					isNil = true
				}
			}
		}
		if !isNil {
			okOrder = false
		}
	}
	c.Check("C13.R5", fk+":alpn-before-default", gc.Pos(), okOrder, "after the helper the default is used only when it found nothing", "the default provider can be chosen although an ALPN match exists")
	// default = first ready
	okDef := false
	for _, b := range gc.Blocks {
		if ifi, ok := b.Instrs[len(b.Instrs)-1].(*ssa.If); ok && inLoop(b) {
			if bo, ok := ifi.Cond.(*ssa.BinOp); ok && bo.Op == token.EQL && isNilConst(bo.Y) {
				if _, isPhi := bo.X.(*ssa.Phi); isPhi && strings.HasSuffix(bo.X.Type().String(), "TLSProvider") {
					okDef = true
				}
			}
		}
	}
	c.Check("C13.R5", fk+":default-is-first-ready", gc.Pos(), okDef, "the default is recorded only while none is recorded: the first ready provider", "the default provider is not the first ready one")
}

// c13SdsUpdateSerialised (R8): an SDS-backed TLS context is always built from the latest policy and the latest secret.
// sdsProvider.update reads the listener's TLS config and the secret, builds a context and stores it - a read-build-write
// that is only correct if no other update of the same provider runs in between. The three ways in (updateConfig from a
// listener/cluster update, setCertificate and setValidation from a secret push) are serialised by pemProvider.mutex. If
// one of them runs outside the mutex, the slower one stores last: a listener just switched to verify_client +
// require_client_cert keeps serving with the previous client-auth mode until the next push. Clause (lockset): every call of
// sdsProvider.updateConfig / setCertificate / setValidation is made with pemProvider.mutex held, and update() is called
// only by those three.
func c13SdsUpdateSerialised(c *Ctx, pkg string) {
	wrappers := map[string]bool{"updateConfig": true, "setCertificate": true, "setValidation": true}
	n := 0
	ord := ordCounter{}
	for _, fn := range c.PkgFuncs(pkg) {
		forEachInstr(fn, false, func(f *ssa.Function, in ssa.Instruction) {
			ci, ok := in.(ssa.CallInstruction)
			if !ok {
				return
			}
			cal := ci.Common().StaticCallee()
			if cal == nil || cal.Signature.Recv() == nil || !strings.HasSuffix(typeName(cal.Signature.Recv().Type()), "mtls.sdsProvider") {
				return
			}
			top := f
			for top.Parent() != nil {
				top = top.Parent()
			}
			switch {
			case cal.Name() == "update":
				n++
				inWrapper := top.Signature.Recv() != nil && strings.HasSuffix(typeName(top.Signature.Recv().Type()), "mtls.sdsProvider") && wrappers[top.Name()]
				c.Check("C13.R8", ord.next(f, "update-only-through-wrappers"), in.Pos(), inWrapper, "update() called by "+top.Name(), "sdsProvider.update() is called from "+top.Name()+", outside the three serialised entry points: the rebuild of the TLS context can interleave with a policy or secret change and store a context built from the older of the two")
			case wrappers[cal.Name()]:
				n++
				held := lockHeld(in, "mutex")
				c.Check("C13.R8", ord.next(f, "under-provider-mutex:"+cal.Name()), in.Pos(), held, "called with pemProvider.mutex held", "sdsProvider."+cal.Name()+" is called in "+top.Name()+" without pemProvider.mutex held: the rebuild of the TLS context races with a concurrent policy update of the same provider and the slower one stores last - a listener switched to verify_client + require_client_cert keeps the previous client-authentication mode until the next push")
			}
		})
	}
	if n < 5 {
		c.Unresolved("C13.R8", fmt.Sprintf("calls of sdsProvider.update and its three entry points (found %d)", n))
	}
}

// c13SessionCachePrivate (R9): an upstream is verified against the trust anchors configured *now*.
// On a resumed TLS session the client does not verify the server's chain again - it trusts what was verified when the
// session was created. That is sound only while the cache of sessions belongs to one context (one set of trust anchors):
// a cache that outlives the context, or is shared between contexts that differ in their CA, lets an upstream whose
// certificate no longer chains to the configured CA be accepted. Clause: tls.Config.ClientSessionCache is either never set
// in pkg/mtls, or set to the direct result of tls.NewLRUClientSessionCache called in the function that builds that very
// config (a cache private to the context); nothing else - in particular no adapter type and nothing reachable from a
// package-level variable.
func c13SessionCachePrivate(c *Ctx, pkg string) {
	n := 0
	ord := ordCounter{}
	for _, fn := range c.PkgFuncs(pkg) {
		forEachInstr(fn, false, func(f *ssa.Function, in ssa.Instruction) {
			st, ok := in.(*ssa.Store)
			if !ok {
				return
			}
			tn, fld, _, okf := fieldAddrInfo(st.Addr)
			if !okf || fld != "ClientSessionCache" || !strings.HasSuffix(tn, "tls.Config") {
				return
			}
			n++
			v := stripIface(st.Val)
			good, why := false, "a session cache that is not created for this config alone"
			if isNilConst(st.Val) {
				good, why = true, "nil"
			} else if call, isC := v.(*ssa.Call); isC {
				if cal := call.Common().StaticCallee(); cal != nil && cal.Name() == "NewLRUClientSessionCache" {
					good, why = true, "a cache created for this config alone"
				}
			}
			c.Check("C13.R9", ord.next(f, "session-cache-private"), st.Pos(), good, why, "tls.Config.ClientSessionCache is set in "+f.Name()+" to "+why+": sessions negotiated under one set of trust anchors can be resumed by a context with another - a resumed handshake does not verify the upstream's chain again, so an upstream whose certificate does not chain to the configured CA is accepted")
		})
	}
	// zero stores is the state of the reference tree; the mutant catalogue keeps a positive example
	c.Pass("C13.R9", "pkg/mtls:session-cache-stores", token.NoPos, fmt.Sprintf("%d store(s) to tls.Config.ClientSessionCache in %s, each private to its config", n, pkg))
}
