package main

import (
	"fmt"
	"os"
	"sort"
	"strings"

	"golang.org/x/tools/go/ssa"
)

// Frozen lockset tables (Engler et al.: infer candidates statistically, confirm by reading, freeze).
// For a struct with a mutex, a field is listed here when, on the reference tree, *every* access to it outside the
// object's construction happened with that mutex held (directly, in a *Locked helper, or in a function all of whose call
// sites in the package hold it). The table is the rule; the discovery mode (VERIF_LOCKSET_DISCOVER=1) only prints
// candidates and is never used to decide.
type lockTable struct {
	rule        string
	pkg         string
	typ         string   // type name suffix, e.g. "http2.ClientConn"
	mutex       string   // mutex field name
	fields      []string // protected fields
	consequence string
}

// accessHeld: the access happens with the mutex held.
func accessHeld(c *Ctx, pkg string, in ssa.Instruction, mutex string, depth int) (bool, string) {
	fn := in.Parent()
	if lockHeld(in, mutex) {
		return true, "held"
	}
	top := fn
	for top.Parent() != nil {
		top = top.Parent()
	}
	if strings.HasSuffix(top.Name(), "Locked") || strings.HasSuffix(top.Name(), "WithLock") {
		return true, "*Locked helper"
	}
	if depth >= 2 {
		return false, ""
	}
	// caller-holds-lock: every static call site of the enclosing top-level function in the package holds the mutex
	if fn.Parent() != nil {
		// a closure handed directly to a call (a visitor callback) runs while that call runs: it inherits what is held at
		// the call. A closure that is stored, deferred or started with go proves nothing.
		par := fn.Parent()
		var site ssa.Instruction
		sync := true
		forEachInstr(par, false, func(_ *ssa.Function, x ssa.Instruction) {
			mc, ok := x.(*ssa.MakeClosure)
			if !ok || mc.Fn != ssa.Value(fn) {
				return
			}
			for _, r := range refs(mc) {
				switch u := r.(type) {
				case *ssa.Call:
					isArg := false
					for _, a := range u.Common().Args {
						if a == ssa.Value(mc) {
							isArg = true
						}
					}
					if isArg || u.Common().Value == ssa.Value(mc) {
						site = u
					} else {
						sync = false
					}
				case *ssa.DebugRef:
				default:
					sync = false
				}
			}
		})
		if site != nil && sync {
			if ok, how := accessHeld(c, pkg, site, mutex, depth+1); ok {
				return true, how + " (synchronous callback)"
			}
		}
		return false, ""
	}
	n := 0
	for _, g := range c.PkgFuncs(pkg) {
		for _, cs := range callsIn(g, false, func(cc *ssa.CallCommon) bool { return cc.StaticCallee() == fn }) {
			n++
			if ok, _ := accessHeld(c, pkg, cs.Instr, mutex, depth+1); !ok {
				return false, ""
			}
		}
	}
	if n > 0 {
		return true, "every caller holds it"
	}
	return false, ""
}

// construction: the object is allocated in this function (nobody else can see it yet), or this is an init/New function.
func duringConstruction(in ssa.Instruction, base ssa.Value) bool {
	fn := in.Parent()
	for fn.Parent() != nil {
		fn = fn.Parent()
	}
	n := fn.Name()
	if n == "init" || strings.HasPrefix(n, "New") || strings.HasPrefix(n, "new") {
		return true
	}
	for i := 0; i < 6 && base != nil; i++ {
		switch x := base.(type) {
		case *ssa.Alloc:
			return true
		case *ssa.FieldAddr:
			base = x.X
		case *ssa.UnOp:
			base = x.X
		default:
			return false
		}
	}
	return false
}

type fieldAccess struct {
	in   ssa.Instruction // the instruction that uses the field address (load/store/call) - or the FieldAddr itself
	base ssa.Value
}

func accessesOf(c *Ctx, pkg, typSuffix, field string) []fieldAccess {
	var out []fieldAccess
	for _, fn := range c.PkgFuncs(pkg) {
		forEachInstr(fn, false, func(_ *ssa.Function, in ssa.Instruction) {
			fa, ok := in.(*ssa.FieldAddr)
			if !ok {
				return
			}
			tn, f, base, okf := fieldAddrInfo(fa)
			if !okf || f != field || !strings.HasSuffix(tn, typSuffix) {
				return
			}
			used := false
			for _, r := range refs(fa) {
				if _, isDbg := r.(*ssa.DebugRef); isDbg {
					continue
				}
				used = true
				out = append(out, fieldAccess{r, base})
			}
			if !used {
				out = append(out, fieldAccess{in, base})
			}
		})
	}
	return out
}

func runLockTable(c *Ctx, t lockTable) {
	for _, f := range t.fields {
		accs := accessesOf(c, t.pkg, t.typ, f)
		n := 0
		ord := ordCounter{}
		for _, a := range accs {
			if duringConstruction(a.in, a.base) {
				continue
			}
			n++
			ok, how := accessHeld(c, t.pkg, a.in, t.mutex, 0)
			fn := a.in.Parent()
			c.Check(t.rule, ord.next(fn, "lockset:"+shortOf(t.typ)+"."+f), a.in.Pos(), ok, t.mutex+" "+how, fmt.Sprintf("%s.%s is accessed in %s without %s held, while every other access to it is made under that mutex: %s", shortOf(t.typ), f, fn.Name(), t.mutex, t.consequence))
		}
		if n == 0 {
			c.Unresolved(t.rule, "accesses to "+t.typ+"."+f+" (field renamed or removed?)")
		}
	}
}

func shortOf(s string) string {
	if i := strings.LastIndex(s, "."); i >= 0 {
		return s[i+1:]
	}
	return s
}

// discoverLocksets prints, for every struct of the loaded packages that has a sync.Mutex/RWMutex field, the fields whose
// accesses are all (and at least twice) made under that mutex. Debugging aid only.
func discoverLocksets(c *Ctx, pkgs []string) {
	if os.Getenv("VERIF_LOCKSET_DISCOVER") == "" {
		return
	}
	for _, pkg := range pkgs {
		type key struct{ typ, field string }
		mutexes := map[string][]string{} // type -> mutex field names
		fields := map[string][]string{}
		tp := c.TypesPkg(pkg)
		if tp == nil {
			continue
		}
		for _, name := range tp.Scope().Names() {
			obj := tp.Scope().Lookup(name)
			st := derefStruct(obj.Type())
			if st == nil {
				continue
			}
			for i := 0; i < st.NumFields(); i++ {
				ft := st.Field(i).Type().String()
				if ft == "sync.Mutex" || ft == "sync.RWMutex" || strings.HasSuffix(ft, "utils.Mutex") {
					mutexes[name] = append(mutexes[name], st.Field(i).Name())
				} else {
					fields[name] = append(fields[name], st.Field(i).Name())
				}
			}
		}
		var tnames []string
		for n := range mutexes {
			tnames = append(tnames, n)
		}
		sort.Strings(tnames)
		for _, tn := range tnames {
			for _, mu := range mutexes[tn] {
				var prot, mixed []string
				for _, f := range fields[tn] {
					accs := accessesOf(c, pkg, "."+tn, f)
					held, total := 0, 0
					for _, a := range accs {
						if duringConstruction(a.in, a.base) {
							continue
						}
						total++
						if ok, _ := accessHeld(c, pkg, a.in, mu, 0); ok {
							held++
						}
					}
					if total >= 2 && held == total {
						prot = append(prot, fmt.Sprintf("%s(%d)", f, total))
					} else if held > 0 {
						mixed = append(mixed, fmt.Sprintf("%s(%d/%d)", f, held, total))
					}
				}
				fmt.Printf("LOCKSET %s.%s mutex=%s protected=%v mixed=%v\n", pkg, tn, mu, prot, mixed)
			}
		}
	}
}

// The frozen tables. Each entry was produced by the discovery mode on the reference tree (unanimous, at least two accesses)
// and confirmed by reading the accesses.
var lockTables = map[string][]lockTable{
	"C18": {{rule: "C18.W9", pkg: "pkg/module/http2", typ: "http2.ClientConn", mutex: "mu",
		fields:      []string{"streams", "initialWindowSize", "nextStreamID", "goAway", "closed", "maxConcurrentStreams"},
		consequence: "SETTINGS / WINDOW_UPDATE / GOAWAY handling on the read loop and request goroutines update these together under cc.mu; an unlocked access races with them - a stream can miss a window change or reuse a stream id"}},
	"C13": {{rule: "C13.R10", pkg: "pkg/mtls", typ: "mtls.pemProvider", mutex: "mutex",
		fields:      []string{"rootca", "cert", "key", "sdsProviders"},
		consequence: "a secret push and a listener/cluster update of the same provider interleave, and a TLS context is built from a half-updated secret or the older policy"},
		{rule: "C13.R10", pkg: "pkg/mtls", typ: "mtls.secretManager", mutex: "mutex", fields: []string{"validations"},
			consequence: "validation contexts pushed by SDS are applied to a stale set of certificates"}},
	"C11": {{rule: "C11.O11", pkg: "pkg/network", typ: "network.listener", mutex: "mutex", fields: []string{"state"},
		consequence: "stop-accept / close / restart decisions are taken on a stale listener state: a listener is shut down twice or keeps accepting while the process drains"}},
	"C12": {{rule: "C12.R11", pkg: "pkg/router", typ: "router.RoutersWrapper", mutex: "mux", fields: []string{"routers", "routersConfig"},
		consequence: "a lookup concurrent with an update can see the new route table together with the old stored configuration (or a torn pointer pair)"},
		{rule: "C12.R11", pkg: "pkg/upstream/cluster", typ: "cluster.simpleCluster", mutex: "mutex", fields: []string{"healthChecker", "hostSet"},
			consequence: "two concurrent host updates of one cluster interleave: the health checker is started on one host set while the other is published"}},
	"C02": {{rule: "C02.R15", pkg: "pkg/stream/http2", typ: "http2.clientStreamConnection", mutex: "mutex", fields: []string{"streams"},
		consequence: "the stream-id table is read while another goroutine inserts or deletes: a response frame is delivered to the wrong stream or dropped"},
		{rule: "C02.R15", pkg: "pkg/stream/http2", typ: "http2.serverStreamConnection", mutex: "mutex", fields: []string{"streams"},
			consequence: "the stream-id table is read while another goroutine inserts or deletes: a frame is attributed to the wrong request"},
		{rule: "C02.R15", pkg: "pkg/stream/http", typ: "http.serverStreamConnection", mutex: "mutex", fields: []string{"stream"},
			consequence: "the connection's current exchange is swapped under a concurrent reader"}},
	"C03": {{rule: "C03.R9", pkg: "pkg/stream", typ: "stream.BaseStream", mutex: "Mutex", fields: []string{"streamListeners"},
		consequence: "a listener added while the stream is being reset or destroyed is skipped or notified twice: the terminal event of a request is lost or duplicated"}},
	"C06": {{rule: "C06.R4", pkg: "pkg/upstream/cluster", typ: "cluster.edfScheduler", mutex: "lock", fields: []string{"items", "currentTime", "clock"},
		consequence: "two concurrent picks update the EDF heap and its clock at once: deadlines are computed from a stale current time and the proportional order is lost (or the heap is corrupted)"}},
}

func runLockTables(c *Ctx, prop string, floorRule map[string]int) {
	for _, t := range lockTables[prop] {
		runLockTable(c, t)
	}
}
