package main

import (
	"fmt"
	"go/token"
	"go/types"
	"sort"
	"strings"

	"golang.org/x/tools/go/ssa"
)

// C15.R5 — what a subset builder keeps (cache keys, entry hosts) is not shared scratch storage.
//
// The pre-index builder memoises host lists in a cache keyed by a *pointer* to the sparse index set of a key/value
// combination. If that pointer designates storage that is reused for the next combination (a field of the builder, a
// global), every cache entry aliases the same set: Equals compares the set with itself and the cache degenerates to a
// lookup by hash - a later combination gets an earlier combination's hosts. Clause: a pointer passed to a parameter
// that the callee (transitively, inside the package) retains in long-lived storage must be freshly allocated in the
// calling function.

type retainCtx struct {
	c    *Ctx
	pkg  string
	memo map[string]int // 0 unknown/in progress, 1 no, 2 yes
}

func (rc *retainCtx) retains(fn *ssa.Function, idx int, depth int) bool {
	if fn == nil || fn.Blocks == nil || idx >= len(fn.Params) || depth > 4 {
		return false
	}
	key := fmt.Sprintf("%s#%d", fn.String(), idx)
	switch rc.memo[key] {
	case 1:
		return false
	case 2:
		return true
	}
	rc.memo[key] = 1
	tainted := map[ssa.Value]bool{fn.Params[idx]: true}
	longLived := func(addr ssa.Value) bool {
		switch r := rootOf(addr).(type) {
		case *ssa.Parameter, *ssa.Global, *ssa.FreeVar:
			return true
		case *ssa.Alloc:
			return false && r != nil
		}
		return false
	}
	found := false
	for iter := 0; iter < 6 && !found; iter++ {
		changed := false
		forEachInstr(fn, false, func(_ *ssa.Function, in ssa.Instruction) {
			mark := func(v ssa.Value) {
				if v != nil && !tainted[v] {
					tainted[v] = true
					changed = true
				}
			}
			switch x := in.(type) {
			case *ssa.Store:
				if tainted[x.Val] {
					if longLived(x.Addr) {
						found = true
						return
					}
					mark(rootOf(x.Addr)) // the local container now holds the pointer
				}
			case *ssa.UnOp:
				if x.Op == token.MUL && tainted[rootOf(x.X)] {
					mark(x)
				}
			case *ssa.MakeInterface:
				if tainted[x.X] {
					mark(x)
				}
			case *ssa.ChangeType:
				if tainted[x.X] {
					mark(x)
				}
			case *ssa.Slice:
				if tainted[x.X] || tainted[rootOf(x.X)] {
					mark(x)
				}
			case *ssa.Phi:
				for _, e := range x.Edges {
					if tainted[e] {
						mark(x)
					}
				}
			case *ssa.MapUpdate:
				if tainted[x.Value] || tainted[x.Key] {
					if longLived(x.Map) {
						found = true
						return
					}
					mark(rootOf(x.Map))
				}
			case *ssa.Call:
				cc := x.Common()
				if b, ok := cc.Value.(*ssa.Builtin); ok {
					if b.Name() == "append" {
						for _, a := range cc.Args {
							if tainted[a] {
								mark(x)
							}
						}
					}
					return
				}
				if callee := cc.StaticCallee(); callee != nil && callee.Pkg != nil && strings.HasSuffix(callee.Pkg.Pkg.Path(), rc.pkg) {
					for i, a := range cc.Args {
						if tainted[a] && rc.retains(callee, i, depth+1) {
							found = true
							return
						}
					}
				}
				if cc.IsInvoke() {
					// interface method: any implementation in the module may be the target
					if iface, ok := cc.Value.Type().Underlying().(*types.Interface); ok {
						for _, t := range rc.c.implementers(iface, true) {
							m := rc.c.methodOf(t, cc.Method.Name())
							if m == nil {
								continue
							}
							for i, a := range cc.Args {
								if tainted[a] && rc.retains(m, i+1, depth+1) {
									found = true
									return
								}
							}
						}
					}
				}
			}
		})
		if !changed {
			break
		}
	}
	if found {
		rc.memo[key] = 2
	}
	return found
}

func c15RetainedStorage(c *Ctx, pkg string) {
	rc := &retainCtx{c: c, pkg: pkg, memo: map[string]int{}}
	n := 0
	evaluated := 0
	ord := ordCounter{}
	for _, fn := range c.PkgFuncs(pkg) {
		file := c.Fset.Position(fn.Pos()).Filename
		if !strings.Contains(file, "subset_loadbalancer") {
			continue
		}
		forEachInstr(fn, false, func(f *ssa.Function, in ssa.Instruction) {
			call, ok := in.(*ssa.Call)
			if !ok {
				return
			}
			callee := call.Common().StaticCallee()
			if callee == nil || callee.Pkg == nil || !strings.HasSuffix(callee.Pkg.Pkg.Path(), pkg) {
				return
			}
			for i, a := range call.Common().Args {
				if !strings.HasPrefix(a.Type().String(), "*") || i == 0 && callee.Signature.Recv() != nil {
					continue
				}
				evaluated++
				if !rc.retains(callee, i, 0) {
					continue
				}
				n++
				key := ord.next(f, "retained-arg")
				ok, why := freshPointer(a, map[ssa.Value]bool{})
				c.Check("C15.R5", key, call.Pos(), ok, "the retained pointer is allocated in this call: "+why, "a pointer that "+callee.Name()+" keeps (cache key / entry storage) designates shared storage ("+why+"): every kept entry aliases the same object, so a later key/value combination is served an earlier combination's hosts")
			}
		})
	}
	c.Extra["retention_pairs_evaluated"] = evaluated
	if n == 0 && evaluated >= 1 {
		c.Pass("C15.R5", "pkg/upstream/cluster:no-retained-pointer-argument", token.NoPos, fmt.Sprintf("%d (call, pointer argument) pairs evaluated, no callee keeps its argument", evaluated))
	}
	if evaluated < 1 {
		c.Unresolved("C15.R5", fmt.Sprintf("calls passing a pointer to a function of the package (evaluated %d)", evaluated))
	}
}

// freshPointer: the pointer value is nil, a heap allocation of the current function, or a parameter of the current
// function (then the obligation is the caller's, which is checked at its own call site).
func freshPointer(v ssa.Value, seen map[ssa.Value]bool) (bool, string) {
	if seen[v] {
		return true, "loop-carried"
	}
	seen[v] = true
	switch x := v.(type) {
	case *ssa.Const:
		return true, "nil"
	case *ssa.Alloc:
		return true, "allocated here"
	case *ssa.Parameter:
		return true, "caller's pointer (checked at the caller)"
	case *ssa.Phi:
		for _, e := range x.Edges {
			if ok, why := freshPointer(e, seen); !ok {
				return false, why
			}
		}
		return true, "allocated here on every path"
	case *ssa.FieldAddr:
		return false, "address of field " + derefStruct(x.X.Type()).Field(x.Field).Name() + " of a longer-lived object"
	case *ssa.Global:
		return false, "a package-level variable"
	case *ssa.UnOp:
		if x.Op == token.MUL {
			if _, f, _, ok := fieldAddrInfo(x.X); ok {
				return false, "pointer loaded from field " + f
			}
		}
	case *ssa.Call:
		return true, "result of a call"
	}
	return false, "unrecognised origin " + v.String()
}

// c15RouteCriteriaImmutable (R6): evaluating a request never changes the route's metadata match criteria.
// The criteria object returned by RouteEntry().MetadataMatchCriteria(cluster) is part of the route and shared by every
// request on it. A method that rewrites it in place (computed: methods of the criteria implementation from which a store
// into the receiver's fields is reachable, e.g. MergeMatchCriteria -> merge) makes one request's metadata stick to the
// route: later requests are matched against criteria they never carried, miss their subset and fall back to hosts whose
// metadata do not match. Clause: request-path code (pkg/proxy) calls no mutating method of api.MetadataMatchCriteria.
func c15RouteCriteriaImmutable(c *Ctx) {
	impl := c.Named("pkg/router", "MetadataMatchCriteriaImpl")
	if impl == nil {
		c.Unresolved("C15.R6", "router.MetadataMatchCriteriaImpl")
		return
	}
	mutating := map[string]bool{}
	ms := c.Prog.MethodSets.MethodSet(types.NewPointer(impl))
	for i := 0; i < ms.Len(); i++ {
		m := c.Prog.MethodValue(ms.At(i))
		if m == nil || m.Blocks == nil {
			continue
		}
		for f := range staticReach([]*ssa.Function{m}, "pkg/router") {
			if f.Signature.Recv() == nil || !strings.HasSuffix(typeName(f.Signature.Recv().Type()), ".MetadataMatchCriteriaImpl") {
				continue
			}
			recv := f.Params[0]
			forEachInstr(f, false, func(_ *ssa.Function, in ssa.Instruction) {
				if st, ok := in.(*ssa.Store); ok && sameParam(rootOf(st.Addr), recv) {
					mutating[m.Name()] = true
				}
			})
		}
	}
	delete(mutating, "Swap") // sort.Interface, used only while the object is being built
	if len(mutating) == 0 {
		c.Unresolved("C15.R6", "mutating methods of MetadataMatchCriteriaImpl (found 0)")
		return
	}
	var names []string
	for n := range mutating {
		names = append(names, n)
	}
	sort.Strings(names)
	fn := c.M("pkg/proxy", "downStream", "MetadataMatchCriteria")
	if fn == nil {
		c.Unresolved("C15.R6", "downStream.MetadataMatchCriteria")
		return
	}
	var bad ssa.Instruction
	nCalls := 0
	for _, f := range c.PkgFuncs("pkg/proxy") {
		forEachInstr(f, false, func(_ *ssa.Function, in ssa.Instruction) {
			ci, ok := in.(ssa.CallInstruction)
			if !ok {
				return
			}
			name := methodName(ci.Common())
			isCrit := false
			if ci.Common().IsInvoke() && strings.HasSuffix(ci.Common().Value.Type().String(), "MetadataMatchCriteria") {
				isCrit = true
			}
			if callee := ci.Common().StaticCallee(); callee != nil && callee.Signature.Recv() != nil && strings.HasSuffix(typeName(callee.Signature.Recv().Type()), ".MetadataMatchCriteriaImpl") {
				isCrit = true
			}
			if !isCrit {
				return
			}
			nCalls++
			if mutating[name] {
				bad = in
			}
		})
	}
	pos := fn.Pos()
	if bad != nil {
		pos = bad.Pos()
	}
	c.Check("C15.R6", "pkg/proxy:route-criteria-not-mutated", pos, bad == nil && nCalls >= 1, fmt.Sprintf("request-path code only reads the route's criteria (mutating methods: %s)", strings.Join(names, ",")), "request-path code calls a method that rewrites the route's shared metadata match criteria in place: one request's metadata sticks to the route, later requests are matched against criteria they never carried and can be sent to hosts whose metadata do not match")
}

// c15PresentNotEmpty (R1): "the host's metadata contain the pair" means the key is present with that value.
// Host metadata is a Go map; a plain index expression answers "" for a missing key, so `meta[k] != v` treats a host
// without the label like a host labelled k="" - such a host joins the subset {k:""} (or a default subset with an empty
// value) although its metadata do not contain the pair, and the two builders disagree. Clause: every lookup into a
// host's metadata map (type api.Metadata) in the package is the comma-ok form, and the looked-up value is used only
// where the presence flag is known to be true.
func c15PresentNotEmpty(c *Ctx) {
	pkg := "pkg/upstream/cluster"
	n := 0
	ord := ordCounter{}
	for _, fn := range c.PkgFuncs(pkg) {
		forEachInstr(fn, false, func(f *ssa.Function, in ssa.Instruction) {
			lk, ok := in.(*ssa.Lookup)
			if !ok || !strings.HasSuffix(typeName(lk.X.Type()), "api.Metadata") {
				return
			}
			n++
			key := ord.next(f, "metadata-lookup-distinguishes-missing")
			if !lk.CommaOk {
				c.Fail("C15.R1", key, lk.Pos(), "a host's metadata map is read with a plain index expression: a missing label reads as the empty string, so a host that lacks the label is treated as carrying label=\"\" and is put into (or served from) a subset whose pairs its metadata do not contain")
				return
			}
			var val, present ssa.Value
			for _, r := range refs(lk) {
				if ex, isE := r.(*ssa.Extract); isE {
					if ex.Index == 0 {
						val = ex
					} else {
						present = ex
					}
				}
			}
			good, why := true, "comma-ok lookup; the value is used only where the key is present"
			if present == nil {
				good, why = false, "the presence flag of the lookup is discarded"
			} else if val != nil {
				for _, u := range refs(val) {
					ui, isI := u.(ssa.Instruction)
					if !isI {
						continue
					}
					if _, isDbg := u.(*ssa.DebugRef); isDbg {
						continue
					}
					blk := ui.Block()
					if phi, isPhi := u.(*ssa.Phi); isPhi {
						// a phi uses the value on the incoming edge: judge the predecessor
						for i, e := range phi.Edges {
							if e == val {
								blk = phi.Block().Preds[i]
							}
						}
					}
					guarded := false
					for _, g := range guardsAt(blk) {
						if g.Cond == present && g.True {
							guarded = true
						}
					}
					if !guarded {
						good, why = false, "the looked-up value is used at "+shortPos(c, ui.Pos())+" where the key may be missing"
					}
				}
			}
			c.Check("C15.R1", key, lk.Pos(), good, why, "a host's metadata lookup does not distinguish a missing label from an empty one ("+why+"): a host that lacks the label is treated as carrying label=\"\" and is put into (or served from) a subset whose pairs its metadata do not contain")
		})
	}
	if n < 3 {
		c.Unresolved("C15.R1", "lookups into api.Metadata in pkg/upstream/cluster (expected ExtractSubsetMetadata, HostMatches, initIndex)")
	}
}

// c15CacheHitExact (R8): the builder's memo of host selections answers only for the very set it was filled with.
// selectHosts memoises "index set -> hosts" so that selectors resolving to the same hosts share one slice. A hit decided
// by a fingerprint alone (min, max, size) hands a subset the hosts of a *different* set with the same span: requests go
// to hosts that lack the requested pair, and the pre-indexed builder no longer agrees with the filtering one. Clause:
// every non-nil value returned by a cache's get(*intsets.Sparse) is returned under the true edge of a test that
// reaches (*intsets.Sparse).Equals on the key.
func c15CacheHitExact(c *Ctx) {
	pkg := "pkg/upstream/cluster"
	reachesEquals := func(f *ssa.Function) bool {
		for g := range staticReach([]*ssa.Function{f}, pkg) {
			if len(callsIn(g, false, func(cc *ssa.CallCommon) bool {
				cal := cc.StaticCallee()
				return cal != nil && strings.HasSuffix(cal.String(), "intsets.Sparse).Equals")
			})) > 0 {
				return true
			}
		}
		return false
	}
	n := 0
	for _, fn := range c.PkgFuncs(pkg) {
		if fn.Name() != "get" || fn.Signature.Recv() == nil || fn.Signature.Params().Len() != 1 || fn.Signature.Results().Len() != 1 {
			continue
		}
		if !strings.HasSuffix(fn.Signature.Params().At(0).Type().String(), "intsets.Sparse") {
			continue
		}
		n++
		good, why := true, "every hit is returned under a full comparison of the index sets"
		hits := 0
		for _, rs := range returnSites(fn, 0) {
			if isNilConst(rs.val) {
				continue
			}
			hits++
			exact := false
			for _, g := range guardsAt(rs.at.Block()) {
				call, ok := g.Cond.(*ssa.Call)
				if !ok || !g.True {
					continue
				}
				cal := call.Common().StaticCallee()
				if cal == nil {
					continue
				}
				if strings.HasSuffix(cal.String(), "intsets.Sparse).Equals") || reachesEquals(cal) {
					exact = true
				}
			}
			if !exact {
				good, why = false, "a value is returned at "+shortPos(c, nearestPos(rs.at))+" without comparing the stored index set with the requested one"
			}
		}
		if hits == 0 {
			good, why = false, "no hit path found"
		}
		c.Check("C15.R8", funcKey(fn)+":cache-hit-exact", fn.Pos(), good, why, "the subset builder's host-selection cache can answer for a different index set ("+why+"): two selections with the same first index, last index and size share one slot, so a subset is given the hosts of another one - requests are sent to hosts whose metadata lack the requested pair, and the pre-indexed builder disagrees with the filtering one")
	}
	if n < 1 {
		c.Unresolved("C15.R8", "a get(*intsets.Sparse) method of the subset builder's host cache")
	}
}
