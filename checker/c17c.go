package main

import (
	"fmt"
	"go/constant"
	"go/token"
	"go/types"
	"sort"
	"strings"

	"golang.org/x/tools/go/ssa"
)

// the reset reasons a try can end with (pkg/types; StreamResetReason is an alias of string, so the list is frozen here and
// every name is looked up in pkg/types on each run)
var c17ResetReasons = []string{"StreamConnectionTermination", "StreamConnectionFailed", "StreamConnectionSuccessed", "StreamLocalReset", "StreamOverflow", "StreamRemoteReset", "UpstreamReset", "UpstreamGlobalTimeout", "UpstreamPerTryTimeout"}

// c17RetryDecisionTable (R12): "a request is retried only under the configured conditions".
// retryState.doRetryCheck sees an ended try through a few observations only: the reset reason (a string constant), the
// route's retry_on flag and whether a status code can be read for the try. The function (with the same-package helpers
// it calls) is evaluated over the finite abstract domain of absint.go for every (reason, retry_on, status readable)
// combination; conditions outside the domain (the disable-retry variable, the status code itself) fork. The table read
// off - can doRetryCheck answer true? - must be:
//
//	StreamOverflow                       never (a refused try is not re-sent, whatever a previous try's status was)
//	retry_on=false                       only for StreamConnectionFailed
//	retry_on=true, a reset reason        only for ConnectionFailed, PerTryTimeout, ConnectionTermination (whatever status is readable:
//	                                     after a retried 5xx the context still holds that status)
//	retry_on=true, no reset reason       possible iff a status is readable (decided by the status code / the configured list)
//
// retryTable evaluates doRetryCheck for every (reason, retry_on, status readable) combination: can it answer true?
func retryTable(c *Ctx, pp string) (tab map[string]bool, fn *ssa.Function, ok bool) {
	fn = c.M(pp, "retryState", "doRetryCheck")
	if fn == nil || len(fn.Params) < 4 {
		return nil, nil, false
	}
	tp := c.TypesPkg("pkg/types")
	if tp == nil {
		return nil, fn, false
	}
	reasons := map[string]string{}
	for _, name := range c17ResetReasons {
		k, isC := tp.Scope().Lookup(name).(*types.Const)
		if !isC || k.Val().Kind() != constant.String {
			return nil, fn, false
		}
		reasons[name] = constant.StringVal(k.Val())
	}
	// no reset reason at all: a response arrived and its status decides
	reasons["(response)"] = ""
	spec := &aiSpec{
		fn: fn,
		classify: func(in ssa.Instruction, op func(ssa.Value) aiVal, asg map[string]bool) (aiVal, bool) {
			switch x := in.(type) {
			case *ssa.UnOp:
				if x.Op == token.MUL && op(x.X).tag == "&recv.retryOn" {
					return aiVal{k: aiBool, b: asg["retryOn"]}, true
				}
			case *ssa.Call:
				if strings.HasSuffix(calleeName(x.Common()), "MappingHeaderStatusCode") {
					return aiVal{tag: "status"}, true
				}
			case *ssa.Extract:
				if op(x.Tuple).tag == "status" && x.Index == 1 {
					if asg["statusReadable"] {
						return aiVal{k: aiNil}, true
					}
					return aiVal{k: aiNonNil, tag: "err"}, true
				}
			}
			return aiVal{}, false
		},
	}
	m := &aiMachine{spec: spec, res: &aiResult{}, visited: map[string]bool{}, c: c}
	tab = map[string]bool{}
	for _, name := range append([]string{"(response)"}, c17ResetReasons...) {
		for _, retryOn := range []bool{false, true} {
			for _, readable := range []bool{false, true} {
				args := make([]aiVal, len(fn.Params))
				args[0] = aiVal{k: aiNonNil, tag: "recv"}
				args[len(args)-1] = aiVal{k: aiStr, s: reasons[name]}
				alts, _ := m.call(fn, args, map[string]bool{"retryOn": retryOn, "statusReadable": readable}, 0)
				canTrue := false
				for _, a := range alts {
					if a.k != aiBool || a.b {
						canTrue = true
					}
				}
				tab[fmt.Sprintf("%s|%v|%v", name, retryOn, readable)] = canTrue
			}
		}
	}
	return tab, fn, true
}

// resetGuardsGlobalTimeout: in downStream.onUpstreamReset the retry decision is taken only when reason != UpstreamGlobalTimeout.
func resetGuardsGlobalTimeout(c *Ctx, pp string) (guarded bool, fn *ssa.Function) {
	fn = c.M(pp, "downStream", "onUpstreamReset")
	if fn == nil {
		return false, nil
	}
	retry := callsIn(fn, false, func(cc *ssa.CallCommon) bool { return methodName(cc) == "retry" })
	if len(retry) != 1 {
		return false, fn
	}
	for _, gd := range guardsAt(retry[0].Instr.Block()) {
		bo, ok := gd.Cond.(*ssa.BinOp)
		if !ok {
			continue
		}
		for _, k := range []ssa.Value{bo.X, bo.Y} {
			if s, isK := constStringVal(k); isK && s == "UpstreamGlobalTimeout" {
				if (bo.Op == token.NEQ && gd.True) || (bo.Op == token.EQL && !gd.True) {
					return true, fn
				}
			}
		}
	}
	return false, fn
}

// globalTimeoutFinal (C17.R3 / C03.R11): a try ended by the global timeout is never retried - the one-shot global timer
// is spent, a new try would have no deadline at all. Either onUpstreamReset keeps that reason away from the retry
// decision, or doRetryCheck cannot answer true for it under any (retry_on, status readable) combination.
func globalTimeoutFinal(c *Ctx, pp, rule string) {
	guarded, rf := resetGuardsGlobalTimeout(c, pp)
	if rf == nil {
		c.Unresolved(rule, "downStream.onUpstreamReset")
		return
	}
	tab, _, ok := retryTable(c, pp)
	if !ok {
		c.Unresolved(rule, "retryState.doRetryCheck / the reset reason constants of pkg/types")
		return
	}
	never := true
	for k, v := range tab {
		if strings.HasPrefix(k, "UpstreamGlobalTimeout|") && v {
			never = false
		}
	}
	c.Check(rule, funcKey(rf)+":global-timeout-final", rf.Pos(), guarded || never, "the global timeout never reaches a positive retry decision", "a try ended by the global timeout can be retried (onUpstreamReset no longer keeps UpstreamGlobalTimeout away from the retry decision and doRetryCheck can answer true for it, e.g. through the status a previous try left behind): the response token is re-opened although the one-shot global timer is spent - the request gets no reply at its deadline, or none at all")
}

func c17RetryDecisionTable(c *Ctx, pp string) {
	tab, fn, ok := retryTable(c, pp)
	if !ok {
		c.Unresolved("C17.R12", "retryState.doRetryCheck / the reset reason constants of pkg/types")
		return
	}
	var wrong []string
	names := append([]string{"(response)"}, c17ResetReasons...)
	sort.Strings(names)
	n := 0
	for _, name := range names {
		for _, retryOn := range []bool{false, true} {
			for _, readable := range []bool{false, true} {
				n++
				canTrue := tab[fmt.Sprintf("%s|%v|%v", name, retryOn, readable)]
				var want bool
				switch {
				case name == "StreamOverflow":
					want = false
				case name == "UpstreamGlobalTimeout" && !canTrue:
					// kept away from the decision by onUpstreamReset today; refusing it here as well is right (globalTimeoutFinal)
					want = false
				case name == "(response)":
					// a response arrived: retried only with retry_on and a readable status (the status list decides)
					want = retryOn && readable
				case !retryOn:
					want = name == "StreamConnectionFailed"
				default:
					// a try ended by a reset: the reason decides, whatever status a previous try left in the context
					// (until repair 82 a readable status could turn any reset into a retry)
					want = name == "StreamConnectionFailed" || name == "UpstreamPerTryTimeout" || name == "StreamConnectionTermination"
				}
				if canTrue != want {
					verb := "can be retried"
					if !canTrue {
						verb = "is never retried"
					}
					wrong = append(wrong, fmt.Sprintf("a try ended by %s %s with retry_on=%v, status readable=%v", name, verb, retryOn, readable))
				}
			}
		}
	}
	if len(wrong) > 4 {
		wrong = append(wrong[:4], fmt.Sprintf("... and %d more", len(wrong)-4))
	}
	c.Check("C17.R12", funcKey(fn)+":retry-decision-table", fn.Pos(), len(wrong) == 0, fmt.Sprintf("%d (reason, retry_on, status readable) combinations evaluated", n), "the retry conditions differ from the configured ones ("+strings.Join(wrong, "; ")+")")
}

// c17RetryPolicyVerbatim (R13): the route's retry policy is the configured one.
// NewRouteRuleImplBase copies v2.RetryPolicy into retryPolicyImpl; which of (per-try timeout, global timeout) wins is
// decided per request in parseProxyTimeout, where the *effective* global timeout is known (it can come from the protocol
// or from a request header and then differs from the route's). Clause: each field of retryPolicyImpl is stored from the
// configuration field of the same name and nothing else - no phi with a constant, no adjusted value. A per-try timeout
// zeroed at route-build time because it is not below the *route's* timeout is lost for every request whose own global
// timeout is larger.
func c17RetryPolicyVerbatim(c *Ctx) {
	pkg := "pkg/router"
	fn := c.F(pkg, "NewRouteRuleImplBase")
	if fn == nil {
		c.Unresolved("C17.R13", "NewRouteRuleImplBase")
		return
	}
	want := map[string]string{"retryOn": "RetryOn", "retryTimeout": "RetryTimeout", "numRetries": "NumRetries", "statusCodes": "StatusCodes"}
	n := 0
	forEachInstr(fn, false, func(_ *ssa.Function, in ssa.Instruction) {
		st, ok := in.(*ssa.Store)
		if !ok {
			return
		}
		t, fld, _, ok := fieldAddrInfo(st.Addr)
		if !ok || !strings.HasSuffix(t, "retryPolicyImpl") {
			return
		}
		src, tracked := want[fld]
		if !tracked {
			return
		}
		n++
		_, f, _, isLoad := loadedField(stripConv(st.Val))
		c.Check("C17.R13", funcKey(fn)+":retry-policy-verbatim:"+fld, st.Pos(), isLoad && f == src, "stored from RetryPolicy."+src+" as it is", "retryPolicyImpl."+fld+" is not the configured RetryPolicy."+src+" as it is (a value adjusted when the route is built): the retry policy applied to a request differs from the configured one - e.g. a per-try timeout dropped because it is not below the route's timeout is missing for requests whose own (protocol or header) global timeout is larger")
	})
	if n < 4 {
		c.Unresolved("C17.R13", fmt.Sprintf("stores into retryPolicyImpl in NewRouteRuleImplBase (found %d)", n))
	}
}

// c17HostRewriteReachesHTTP1Upstream (R14): the host a route rewrote is the Host of the HTTP/1.1 upstream request.
// The route's host rewrite is stored in the `authority` variable (types.VarIstioHeaderHost) by finalizeRequestHeaders; the
// HTTP/1 client stream turns the request variables back into the request in FillRequestHeadersFromCtxVar. Clause: the value
// read from that variable is handed to the Host of the request (SetHost, directly or as the result of a helper that feeds
// SetHost) under no other condition than "the variable was read successfully and is not empty". Any further condition -
// e.g. "differs from what the header map carries now" - is a condition on something the *previous* attempt left behind:
// the proxy reuses header map and variables for every try, so attempts 2, 4, ... go out with the downstream's Host.
func c17HostRewriteReachesHTTP1Upstream(c *Ctx) {
	pkg := "pkg/stream/http"
	if c.TypesPkg(pkg) == nil {
		c.Unresolved("C17.R14", "package "+pkg)
		return
	}
	n := 0
	for _, fn := range c.PkgFuncs(pkg) {
		forEachInstr(fn, false, func(f *ssa.Function, in ssa.Instruction) {
			call, ok := in.(*ssa.Call)
			if !ok || !strings.HasSuffix(calleeName(call.Common()), "variable.GetString") || len(call.Common().Args) != 2 {
				return
			}
			if s, isK := constStringVal(stripIface(call.Common().Args[1])); !isK || s != "authority" {
				return
			}
			// only the request-building side (the function, or its callers, sets the Host)
			var val, errv ssa.Value
			for _, r := range refs(call) {
				if ex, ok := r.(*ssa.Extract); ok {
					if ex.Index == 0 {
						val = ex
					} else {
						errv = ex
					}
				}
			}
			if val == nil {
				return
			}
			// where the value is applied: SetHost(val), a phi edge carrying val, or a return of val
			type app struct {
				at    token.Pos
				block *ssa.BasicBlock
				edge  []Guard
			}
			var apps []app
			for _, r := range refs(val) {
				switch x := r.(type) {
				case *ssa.Call:
					if methodName(x.Common()) == "SetHost" {
						apps = append(apps, app{x.Pos(), x.Block(), nil})
					}
				case *ssa.Phi:
					for i, e := range x.Edges {
						if e != val {
							continue
						}
						pred := x.Block().Preds[i]
						var eg []Guard
						if ifi, ok := pred.Instrs[len(pred.Instrs)-1].(*ssa.If); ok && pred.Succs[0] != pred.Succs[1] {
							eg = normGuard(Guard{Cond: ifi.Cond, True: pred.Succs[0] == x.Block(), If: ifi})
						}
						apps = append(apps, app{x.Pos(), pred, eg})
					}
				case *ssa.Return:
					apps = append(apps, app{nearestPos(x), x.Block(), nil})
				}
			}
			if len(apps) == 0 {
				return
			}
			for _, a := range apps {
				n++
				extra := ""
				gs := append(guardsAt(a.block), a.edge...)
				for _, g := range gs {
					// only conditions evaluated after the variable was read
					if !instrDominates(call, g.If) {
						continue
					}
					bo, isBO := g.Cond.(*ssa.BinOp)
					okCond := false
					if isBO {
						switch {
						case (bo.X == errv && isNilConst(bo.Y)) || (bo.Y == errv && isNilConst(bo.X)):
							okCond = true
						case bo.X == val || bo.Y == val:
							other := bo.Y
							if bo.Y == val {
								other = bo.X
							}
							if s, isK := constStringVal(other); isK && s == "" {
								okCond = true
							}
						}
					}
					if !okCond {
						extra = "the condition at " + shortPos(c, nearestPos(g.If))
					}
				}
				c.Check("C17.R14", fmt.Sprintf("%s:host-rewrite-applied-unconditionally#%d", funcKey(f), n), a.at, extra == "", "applied whenever the authority variable is set", "the rewritten host (authority variable) reaches the Host of the HTTP/1.1 upstream request only under a further condition ("+extra+"): header map and variables are reused for every try, so what the condition looks at was left behind by the previous attempt - retried requests go out with the downstream's Host instead of the configured host_rewrite")
			}
		})
	}
	if n < 1 {
		c.Unresolved("C17.R14", "the place where the authority variable becomes the Host of the HTTP/1 upstream request")
	}
}
