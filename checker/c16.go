package main

import (
	"fmt"
	"go/constant"
	"go/token"
	"go/types"
	"sort"
	"strings"

	"golang.org/x/tools/go/ssa"
)

// C16 — host health state is never lost, thresholds are exact.

func init() {
	register(&PropSpec{
		ID:       "C16",
		Patterns: []string{"./pkg/upstream/cluster", "./pkg/upstream/healthcheck"},
		Explanation: "(R1) atomic read-modify-write detector: a value obtained by atomic.Load*(p) that flows through arithmetic into atomic.Store*(p) on the same address is a lost-update hazard under any interleaving of two writers; accepted forms are a CompareAndSwap retry loop, atomic.Or/And, or both under one mutex. Applied to every function of the health packages (quick) and the whole module (thorough). " +
			"(R2) shape of the flag algebra: Set writes old|mask, Clear writes old&^mask through the pointer parameter, the CAS's expected value is the very load it derived the new word from and failure loops back; Health() compares the whole word with 0; ContainHealthFlag masks. " +
			"(R3) threshold automaton of the active checker: the opposite counter is reset on every result, the own counter is incremented only in the opposite state, compared (== or >=) with the configured threshold after the increment, and the flag flip and changed=true share one block; `changed` reaches both callbacks; per received result exactly one of HandleSuccess/HandleFailure runs and stale ids are ignored. (R4) GetHealthFlagPointer returns on every path the value Load/LoadOrStore returned; the registry is append-only; every store to simpleHost.healthFlags stores GetHealthFlagPointer(a) with a the value stored to addressString of the same object. (R3, round 6) every value stored into the checker's thresholds is a positive constant or non-zero on the edge it arrives by; SetHealthFlag/ClearHealthFlag with the constant FAILED_ACTIVE_HC is called only in sessionChecker.HandleFailure/HandleSuccess. (R3 every-check-timed) no path in OnCheck reaches CheckHealth without storing utils.NewTimer(..) into checkTimeout; no utils.Timer.Reset call in the package.",
		Run:      runC16,
		Thorough: c16Thorough,
	})
}

func isAtomicCall(cc *ssa.CallCommon, prefix string) bool {
	f := cc.StaticCallee()
	if f == nil || f.Pkg == nil || f.Pkg.Pkg.Path() != "sync/atomic" {
		return false
	}
	return strings.HasPrefix(f.Name(), prefix)
}

func sameAddr(a, b ssa.Value) bool {
	if a == b {
		return true
	}
	fa, ok1 := a.(*ssa.FieldAddr)
	fb, ok2 := b.(*ssa.FieldAddr)
	if ok1 && ok2 && fa.Field == fb.Field {
		return sameAddr(fa.X, fb.X) || sameLoad(fa.X, fb.X)
	}
	return sameLoad(a, b)
}

// sameLoad: two loads of the same field address (e.g. sh.healthFlags read twice).
func sameLoad(a, b ssa.Value) bool {
	ua, ok1 := a.(*ssa.UnOp)
	ub, ok2 := b.(*ssa.UnOp)
	if ok1 && ok2 && ua.Op == token.MUL && ub.Op == token.MUL {
		return sameAddr(ua.X, ub.X)
	}
	return false
}

// arithSources: atomic loads reachable backwards from v through arithmetic.
func arithSources(v ssa.Value, seen map[ssa.Value]bool, out *[]*ssa.Call) {
	if seen[v] {
		return
	}
	seen[v] = true
	switch x := v.(type) {
	case *ssa.BinOp:
		arithSources(x.X, seen, out)
		arithSources(x.Y, seen, out)
	case *ssa.UnOp:
		if x.Op != token.MUL && x.Op != token.ARROW {
			arithSources(x.X, seen, out)
		}
	case *ssa.Convert:
		arithSources(x.X, seen, out)
	case *ssa.ChangeType:
		arithSources(x.X, seen, out)
	case *ssa.Phi:
		for _, e := range x.Edges {
			arithSources(e, seen, out)
		}
	case *ssa.Call:
		if isAtomicCall(x.Common(), "Load") {
			*out = append(*out, x)
		}
	}
}

// rmwScan runs the R1 detector on one function.
func rmwScan(c *Ctx, fn *ssa.Function, ord ordCounter, report bool) (stores int) {
	forEachInstr(fn, false, func(f *ssa.Function, in ssa.Instruction) {
		call, ok := in.(*ssa.Call)
		if !ok || !isAtomicCall(call.Common(), "Store") || len(call.Common().Args) != 2 {
			return
		}
		stores++
		p, v := call.Common().Args[0], call.Common().Args[1]
		var loads []*ssa.Call
		arithSources(v, map[ssa.Value]bool{}, &loads)
		hazard := false
		for _, l := range loads {
			if sameAddr(l.Common().Args[0], p) {
				hazard = true
			}
		}
		key := ord.next(f, "atomic-store")
		if hazard && !underMutex(call) {
			c.Fail("C16.R1", key, call.Pos(), "non-atomic read-modify-write: the stored value is computed from atomic.Load of the same address ("+p.String()+"); two concurrent writers of different bits can lose one update — use a CompareAndSwap loop or atomic.Or/And")
		} else if report {
			c.Pass("C16.R1", key, call.Pos(), "stored value does not depend on a load of the same address (or a mutex is held)")
		}
	})
	return
}

// underMutex: a Lock() call dominates the instruction and the function defers Unlock or unlocks afterwards.
func underMutex(in ssa.Instruction) bool {
	fn := in.Parent()
	for _, b := range fn.Blocks {
		for _, x := range b.Instrs {
			if ci, ok := x.(*ssa.Call); ok && (calleeName(ci.Common()) == "(*sync.Mutex).Lock" || calleeName(ci.Common()) == "(*sync.RWMutex).Lock") {
				if instrDominates(ci, in) {
					return true
				}
			}
		}
	}
	return false
}

func runC16(c *Ctx) {
	c.Rule("C16.R1", "no Load;op;Store read-modify-write on an atomically shared word", 2)
	c.Rule("C16.R2", "flag algebra: set=old|mask, clear=old&^mask, CAS on the loaded value with retry; Health()==0", 6)
	c.Rule("C16.R3", "threshold automaton shape of the active health checker", 14)
	c.Rule("C16.R4", "the health word of an address is the registry entry (get-or-create returns the stored value)", 1)
	defer c16SharedWord(c)
	defer c16WordOfOwnAddress(c)
	defer healthRegistryAppendOnly(c, "C16.R4")
	c.NotDecided = append(c.NotDecided, "timing of checker goroutines and timers", "behaviour of concrete interleavings (only the structural impossibility of a lost update)")
	c.Assumptions = append(c.Assumptions, "sync/atomic semantics; sessionChecker counters are confined to the checker's own goroutine (Start loop)")

	ord := ordCounter{}
	for _, pkg := range []string{"pkg/upstream/cluster", "pkg/upstream/healthcheck"} {
		for _, fn := range c.PkgFuncs(pkg) {
			rmwScan(c, fn, ord, true)
		}
	}
	c16Flags(c)
	c16Automaton(c)
	c16ThresholdsPositive(c)
	c16ActiveFlagOwner(c)
	c16SessionLifetime(c)
	c16ChangedReachesCallbacks(c)
	c16EveryCheckTimed(c)
}

func c16Thorough(c *Ctx) {
	ord := ordCounter{}
	n := 0
	for fn := range c.all {
		if fn.Pkg == nil || !strings.HasPrefix(fn.Pkg.Pkg.Path(), modPath) || len(fn.Blocks) == 0 {
			continue
		}
		p := fn.Pkg.Pkg.Path()
		if strings.HasSuffix(p, "pkg/upstream/cluster") || strings.HasSuffix(p, "pkg/upstream/healthcheck") {
			continue
		}
		n += rmwScan(c, fn, ord, false)
	}
	c.Extra["module_wide_atomic_stores_scanned"] = n
}

// flagWrite describes the single write SetHealthFlag/ClearHealthFlag perform.
func c16Flags(c *Ctx) {
	pkg := "pkg/upstream/cluster"
	for _, spec := range []struct {
		name string
		set  bool
	}{{"SetHealthFlag", true}, {"ClearHealthFlag", false}} {
		fn := c.F(pkg, spec.name)
		if fn == nil {
			c.Unresolved("C16.R2", "cluster."+spec.name)
			continue
		}
		fk := funcKey(fn)
		if len(fn.Params) != 2 {
			c.Fail("C16.R2", fk+":signature", fn.Pos(), "expected (p *uint64, flag api.HealthFlag)")
			continue
		}
		p, flag := fn.Params[0], fn.Params[1]
		writes := 0
		forEachInstr(fn, false, func(_ *ssa.Function, in ssa.Instruction) {
			call, ok := in.(*ssa.Call)
			if !ok {
				return
			}
			cc := call.Common()
			var newV, oldV ssa.Value
			kind := ""
			switch {
			case isAtomicCall(cc, "Store"):
				kind, newV = "store", cc.Args[1]
			case isAtomicCall(cc, "CompareAndSwap"):
				kind, oldV, newV = "cas", cc.Args[1], cc.Args[2]
			case isAtomicCall(cc, "Or") && spec.set:
				kind = "or"
			case isAtomicCall(cc, "And") && !spec.set:
				kind = "and"
			case isAtomicCall(cc, "Or"), isAtomicCall(cc, "And"), isAtomicCall(cc, "Add"), isAtomicCall(cc, "Swap"):
				kind = "other"
			default:
				return
			}
			writes++
			key := fmt.Sprintf("%s:write#%d", fk, writes)
			if cc.Args[0] != ssa.Value(p) {
				c.Fail("C16.R2", key, call.Pos(), "writes through something other than the pointer parameter")
				return
			}
			switch kind {
			case "or":
				c.Check("C16.R2", key, call.Pos(), isMaskOf(cc.Args[1], flag, false), "atomic.Or(p, mask)", "atomic.Or operand is not the flag mask")
			case "and":
				c.Check("C16.R2", key, call.Pos(), isMaskOf(cc.Args[1], flag, true), "atomic.And(p, ^mask)", "atomic.And operand is not the complement of the flag mask")
			case "other":
				c.Fail("C16.R2", key, call.Pos(), "unexpected atomic operation for a flag "+map[bool]string{true: "set", false: "clear"}[spec.set])
			case "store", "cas":
				// newV = old OP mask
				bo, ok := newV.(*ssa.BinOp)
				shape := false
				var base ssa.Value
				if ok {
					if spec.set && bo.Op == token.OR {
						if isMaskOf(bo.Y, flag, false) {
							shape, base = true, bo.X
						} else if isMaskOf(bo.X, flag, false) {
							shape, base = true, bo.Y
						}
					}
					if !spec.set && bo.Op == token.AND_NOT && isMaskOf(bo.Y, flag, false) {
						shape, base = true, bo.X
					}
					if !spec.set && bo.Op == token.AND {
						if isMaskOf(bo.Y, flag, true) {
							shape, base = true, bo.X
						} else if isMaskOf(bo.X, flag, true) {
							shape, base = true, bo.Y
						}
					}
				}
				if !shape {
					want := "old | uint64(flag)"
					if !spec.set {
						want = "old &^ uint64(flag)"
					}
					c.Fail("C16.R2", key, call.Pos(), "the written word is not "+want+": other conditions' bits are lost or invented")
					return
				}
				ld, isLoad := base.(*ssa.Call)
				if !isLoad || !isAtomicCall(ld.Common(), "Load") || ld.Common().Args[0] != ssa.Value(p) {
					c.Fail("C16.R2", key, call.Pos(), "the old word is not an atomic load of the same pointer")
					return
				}
				if kind == "cas" {
					if oldV != ssa.Value(ld) {
						c.Fail("C16.R2", key, call.Pos(), "CompareAndSwap's expected value is not the load the new word was derived from")
						return
					}
					// failure must retry: from the false edge of the CAS result the load is reachable again
					retry := false
					for _, r := range refs(call) {
						if ifi, ok := r.(*ssa.If); ok {
							if reachableFrom(ifi.Block().Succs[1])[ld.Block()] {
								retry = true
							}
						}
						if u, ok := r.(*ssa.UnOp); ok && u.Op == token.NOT {
							for _, r2 := range refs(u) {
								if ifi, ok := r2.(*ssa.If); ok && reachableFrom(ifi.Block().Succs[0])[ld.Block()] {
									retry = true
								}
							}
						}
					}
					c.Check("C16.R2", key, call.Pos(), retry, "CAS(p, old, old OP mask) with retry on failure", "a failed CompareAndSwap does not loop back to re-read the word: the update is silently dropped")
				} else {
					c.Pass("C16.R2", key, call.Pos(), "Store(p, Load(p) OP mask) — shape right; atomicity is judged by C16.R1")
				}
			}
		})
		if writes != 1 {
			c.Fail("C16.R2", fk+":writes", fn.Pos(), fmt.Sprintf("expected exactly one atomic write of the health word, found %d", writes))
		}
	}
	// simpleHost methods
	host := func(m string) *ssa.Function { return c.M(pkg, "simpleHost", m) }
	if fn := host("Health"); fn == nil {
		c.Unresolved("C16.R2", "simpleHost.Health")
	} else {
		ok := false
		for _, in := range instrsWhere(fn, isReturn) {
			ret := in.(*ssa.Return)
			if bo, isB := unspill(ret, 0).(*ssa.BinOp); isB && bo.Op == token.EQL && isZero(bo.Y) {
				if ld, isL := bo.X.(*ssa.Call); isL && isAtomicCall(ld.Common(), "Load") && isHealthFlagsField(ld.Common().Args[0]) {
					ok = true
				}
			}
		}
		c.Check("C16.R2", funcKey(fn)+":whole-word-zero", fn.Pos(), ok, "Health() == (atomic load of healthFlags == 0)", "Health() is not `atomic.Load(healthFlags) == 0`: a host with some condition set could be reported healthy (or vice versa)")
	}
	if fn := host("ContainHealthFlag"); fn == nil {
		c.Unresolved("C16.R2", "simpleHost.ContainHealthFlag")
	} else {
		ok := false
		for _, in := range instrsWhere(fn, isReturn) {
			ret := in.(*ssa.Return)
			if bo, isB := unspill(ret, 0).(*ssa.BinOp); isB && isZero(bo.Y) && (bo.Op == token.GTR || bo.Op == token.NEQ) {
				if and, isA := bo.X.(*ssa.BinOp); isA && and.Op == token.AND {
					for _, pr := range [][2]ssa.Value{{and.X, and.Y}, {and.Y, and.X}} {
						if ld, isL := pr[0].(*ssa.Call); isL && isAtomicCall(ld.Common(), "Load") && isHealthFlagsField(ld.Common().Args[0]) && isMaskOf(pr[1], fn.Params[1], false) {
							ok = true
						}
					}
				}
			}
		}
		c.Check("C16.R2", funcKey(fn)+":mask-test", fn.Pos(), ok, "(load & mask) != 0", "ContainHealthFlag is not `atomic.Load(healthFlags) & uint64(flag) != 0`")
	}
	for _, m := range []string{"SetHealthFlag", "ClearHealthFlag"} {
		fn := host(m)
		if fn == nil {
			c.Unresolved("C16.R2", "simpleHost."+m)
			continue
		}
		cs := callsIn(fn, false, func(cc *ssa.CallCommon) bool {
			f := cc.StaticCallee()
			return f != nil && f.Name() == m && f.Signature.Recv() == nil
		})
		ok := len(cs) == 1
		if ok {
			a := cs[0].Instr.Common().Args
			ok = isHealthFlagsValue(a[0]) && sameParam(a[1], fn.Params[1]) && cs[0].Instr.Block() == fn.Blocks[0]
		}
		c.Check("C16.R2", funcKey(fn)+":delegates", fn.Pos(), ok, "unconditionally calls cluster."+m+"(sh.healthFlags, flag)", "simpleHost."+m+" does not unconditionally apply its own flag to its shared health word")
	}
}

func isHealthFlagsField(addr ssa.Value) bool {
	// address is the loaded pointer sh.healthFlags
	return isHealthFlagsValue(addr)
}
func isHealthFlagsValue(v ssa.Value) bool {
	_, f, _, ok := loadedField(v)
	return ok && f == "healthFlags"
}

// isMaskOf: v == uint64(flag) (compl=false) or ^uint64(flag) (compl=true)
func isMaskOf(v ssa.Value, flag ssa.Value, compl bool) bool {
	if compl {
		if u, ok := v.(*ssa.UnOp); ok && u.Op == token.XOR {
			return isMaskOf(u.X, flag, false)
		}
		if b, ok := v.(*ssa.BinOp); ok && b.Op == token.XOR {
			if n, ok := constInt(b.Y); ok && n == -1 {
				return isMaskOf(b.X, flag, false)
			}
			if k, ok := b.Y.(*ssa.Const); ok && k.Value != nil && k.Value.ExactString() == "18446744073709551615" {
				return isMaskOf(b.X, flag, false)
			}
		}
		return false
	}
	return stripConvNum(v) == flag
}

// ---------------------------------------------------------------------------------------------

func c16Automaton(c *Ctx) {
	pkg := "pkg/upstream/healthcheck"
	type side struct {
		fn, resetCnt, ownCnt, threshold, flip string
		containTrue                           bool // increment only when ContainHealthFlag is true
		callbacks                             []string
	}
	sides := []side{
		{"HandleSuccess", "unHealthCount", "healthCount", "healthyThreshold", "ClearHealthFlag", true, []string{"incHealthy", "log"}},
		{"HandleFailure", "healthCount", "unHealthCount", "unhealthyThreshold", "SetHealthFlag", false, []string{"decHealthy", "log"}},
	}
	for _, s := range sides {
		fn := c.M(pkg, "sessionChecker", s.fn)
		if fn == nil {
			c.Unresolved("C16.R3", "sessionChecker."+s.fn)
			continue
		}
		fk := funcKey(fn)
		// (a) opposite counter reset to 0 in the entry block
		resetOK := false
		for _, st := range storesToField(fn, "", s.resetCnt, false) /* whatever struct of the checker holds the counter */ {
			if isZero(st.Val) && st.Block() == fn.Blocks[0] {
				resetOK = true
			}
		}
		c.Check("C16.R3", fk+":reset-opposite", fn.Pos(), resetOK, s.resetCnt+" = 0 on entry", "the opposite counter "+s.resetCnt+" is not reset unconditionally: results would not have to be consecutive")
		// (b) own counter increment guarded by ContainHealthFlag(FAILED_ACTIVE_HC) polarity
		var inc *ssa.Store
		nInc := 0
		for _, st := range storesToField(fn, "", s.ownCnt, false) {
			if bo, ok := st.Val.(*ssa.BinOp); ok && bo.Op == token.ADD {
				if n, ok := constInt(bo.Y); ok && n == 1 {
					if _, f, _, ok := loadedField(bo.X); ok && f == s.ownCnt {
						inc = st
						nInc++
					}
				}
			} else {
				nInc += 10 // some other write
			}
		}
		if inc == nil || nInc != 1 {
			c.Fail("C16.R3", fk+":increment", fn.Pos(), "expected exactly one `"+s.ownCnt+"++` and no other write")
			continue
		}
		guardOK := false
		for _, g := range guardsAt(inc.Block()) {
			if call, ok := g.Cond.(*ssa.Call); ok && methodName(call.Common()) == "ContainHealthFlag" {
				if n, ok := constInt(argsOf(call.Common())[0]); ok && n == 1 && g.True == s.containTrue {
					guardOK = true
				}
			}
		}
		c.Check("C16.R3", fk+":increment-guard", inc.Pos(), guardOK, "incremented only while the host is in the opposite state", "the counter is incremented regardless of (or in the wrong) FAILED_ACTIVE_HC state")
		// (c) threshold comparison after the increment, == or >=
		var cmpIf *ssa.If
		for _, b := range fn.Blocks {
			if len(b.Instrs) == 0 {
				continue
			}
			ifi, ok := b.Instrs[len(b.Instrs)-1].(*ssa.If)
			if !ok {
				continue
			}
			bo, ok := ifi.Cond.(*ssa.BinOp)
			if !ok {
				continue
			}
			_, fx, _, okx := loadedField(bo.X)
			_, fy, _, oky := loadedField(bo.Y)
			if okx && oky && fx == s.ownCnt && fy == s.threshold && (bo.Op == token.EQL || bo.Op == token.GEQ) {
				// the compared load happens after the increment store
				if ld, isLd := bo.X.(*ssa.UnOp); isLd && instrDominates(inc, ld) {
					cmpIf = ifi
				}
			}
			if okx && oky && fy == s.ownCnt && fx == s.threshold && (bo.Op == token.EQL || bo.Op == token.LEQ) {
				if ld, isLd := bo.Y.(*ssa.UnOp); isLd && instrDominates(inc, ld) {
					cmpIf = ifi
				}
			}
		}
		if cmpIf == nil {
			c.Fail("C16.R3", fk+":threshold-compare", inc.Pos(), "no comparison `"+s.ownCnt+" == (or >=) "+s.threshold+"` on the incremented counter found: the flip would not happen exactly at the configured threshold")
			continue
		}
		c.Pass("C16.R3", fk+":threshold-compare", cmpIf.Pos(), "incremented "+s.ownCnt+" compared with HealthChecker."+s.threshold)
		// (d) flip call in the true successor, with FAILED_ACTIVE_HC, and changed phi true only from that block
		flipB := cmpIf.Block().Succs[0]
		flipOK := false
		var flipCall ssa.CallInstruction
		for _, cs := range callsIn(fn, false, func(cc *ssa.CallCommon) bool { return methodName(cc) == s.flip }) {
			if n, ok := constInt(argsOf(cs.Instr.Common())[0]); ok && n == 1 && cs.Instr.Block() == flipB {
				flipOK = true
				flipCall = cs.Instr
			}
		}
		other := "SetHealthFlag"
		if s.flip == "SetHealthFlag" {
			other = "ClearHealthFlag"
		}
		wrong := callsIn(fn, false, func(cc *ssa.CallCommon) bool { return methodName(cc) == other })
		c.Check("C16.R3", fk+":flip", cmpIf.Pos(), flipOK && len(wrong) == 0, s.flip+"(FAILED_ACTIVE_HC) exactly on the threshold edge", "the threshold edge does not call "+s.flip+"(FAILED_ACTIVE_HC) (or the opposite operation is called)")
		// (e) changed
		for _, cbName := range s.callbacks {
			cs := callsIn(fn, false, func(cc *ssa.CallCommon) bool { return methodName(cc) == cbName && !cc.IsInvoke() })
			key := fk + ":changed->" + cbName
			if len(cs) != 1 {
				c.Fail("C16.R3", key, fn.Pos(), fmt.Sprintf("expected one call to %s, found %d", cbName, len(cs)))
				continue
			}
			args := cs[0].Instr.Common().Args
			ch := args[len(args)-1]
			ok := false
			if phi, isPhi := ch.(*ssa.Phi); isPhi && flipCall != nil {
				ok = true
				sawTrue := false
				for i, e := range phi.Edges {
					bv, isC := constBool(e)
					if !isC {
						ok = false
						break
					}
					pred := phi.Block().Preds[i]
					if bv {
						sawTrue = true
						if pred != flipCall.Block() {
							ok = false
						}
					} else if pred == flipCall.Block() {
						ok = false
					}
				}
				ok = ok && sawTrue
			}
			// every exit passes the callback
			postdom := existsPath(fn, nil, isReturn, func(in ssa.Instruction) bool { return in == cs[0].Instr }) == nil
			c.Check("C16.R3", key, cs[0].Instr.Pos(), ok && postdom, "changed is true exactly on the flip edge and reaches "+cbName+" on every path", "`changed` passed to "+cbName+" is not true exactly when the flag was flipped (or the callback is skipped on some path)")
		}
	}
	// Start: per result exactly one handler; stale ids ignored
	fn := c.M(pkg, "sessionChecker", "Start")
	if fn == nil {
		c.Unresolved("C16.R3", "sessionChecker.Start")
		return
	}
	fk := funcKey(fn)
	succ := callsIn(fn, false, func(cc *ssa.CallCommon) bool { return methodName(cc) == "HandleSuccess" })
	fail := callsIn(fn, false, func(cc *ssa.CallCommon) bool { return methodName(cc) == "HandleFailure" })
	if len(succ) != 1 || len(fail) != 2 {
		c.Fail("C16.R3", fk+":handlers", fn.Pos(), fmt.Sprintf("expected 1 HandleSuccess and 2 HandleFailure (response, timeout) calls, found %d and %d", len(succ), len(fail)))
		return
	}
	idGuard := func(in ssa.Instruction) bool {
		for _, g := range guardsAt(in.Block()) {
			if bo, ok := g.Cond.(*ssa.BinOp); ok && bo.Op == token.EQL && g.True {
				_, fx, _, okx := loadedField(bo.X)
				if !okx {
					if f, isF := bo.X.(*ssa.Field); isF {
						_, fx, _, okx = fieldAddrInfo(f)
					}
				}
				if okx && fx == "ID" {
					// the id of the check in progress: the result of the atomic step, directly or kept in a loop variable
					seenCur := map[ssa.Value]bool{}
					var isCur func(v ssa.Value, d int) bool
					isCur = func(v ssa.Value, d int) bool {
						if d > 8 {
							return false
						}
						if seenCur[v] {
							return true // a cycle of loop phis: decided by the other edges
						}
						seenCur[v] = true
						if call, isCall := v.(*ssa.Call); isCall && isAtomicCall(call.Common(), "Add") {
							return true
						}
						if phi, isPhi := v.(*ssa.Phi); isPhi {
							any := false
							for _, e := range phi.Edges {
								if e == ssa.Value(phi) {
									continue
								}
								if _, isK := e.(*ssa.Const); isK {
									continue
								}
								if !isCur(e, d+1) {
									return false
								}
								any = true
							}
							return any || d > 0
						}
						return false
					}
					if isCur(bo.Y, 0) {
						return true
					}
				}
			}
		}
		return false
	}
	healthyGuard := func(in ssa.Instruction, want bool) bool {
		for _, g := range guardsAt(in.Block()) {
			_, f, _, ok := loadedField(g.Cond)
			if !ok {
				if fv, isF := g.Cond.(*ssa.Field); isF {
					_, f, _, ok = fieldAddrInfo(fv)
				}
			}
			if ok && f == "Healthy" && g.True == want {
				return true
			}
		}
		return false
	}
	c.Check("C16.R3", fk+":success-arm", succ[0].Instr.Pos(), idGuard(succ[0].Instr) && healthyGuard(succ[0].Instr, true), "HandleSuccess only for the current id with Healthy", "HandleSuccess is not guarded by resp.ID == currentID && resp.Healthy")
	var respFail, toFail ssa.CallInstruction
	for _, f := range fail {
		if healthyGuard(f.Instr, false) {
			respFail = f.Instr
		} else {
			toFail = f.Instr
		}
	}
	c.Check("C16.R3", fk+":failure-arm", fn.Pos(), respFail != nil && idGuard(respFail), "HandleFailure(FailureActive) only for the current id with !Healthy", "HandleFailure for a response is not guarded by resp.ID == currentID && !resp.Healthy (stale results must be ignored)")
	c.Check("C16.R3", fk+":timeout-arm", fn.Pos(), toFail != nil && !idGuard(toFail), "timeout arm calls HandleFailure once", "timeout arm does not call HandleFailure exactly once")
}

// c16SharedWord (R4): all host objects of one address share one health word.
// GetHealthFlagPointer is a get-or-create on a concurrent registry. Every pointer it returns must be the registry's
// entry - the value returned by Load / LoadOrStore - never a word it allocated itself: when two hosts of a new address are
// built at the same time, the loser of LoadOrStore would otherwise keep a private word, and a condition set through one
// host object (active health check, outlier ejection) is invisible through the other.
func c16SharedWord(c *Ctx) {
	fn := c.F("pkg/upstream/cluster", "GetHealthFlagPointer")
	if fn == nil {
		c.Unresolved("C16.R4", "cluster.GetHealthFlagPointer")
		return
	}
	n := 0
	for _, rs := range returnSites(fn, 0) {
		n++
		v := rs.val
		ok, why := false, "not obtained from the registry"
		for d := 0; d < 6 && v != nil; d++ {
			switch x := v.(type) {
			case *ssa.Extract:
				v = x.Tuple
				continue
			case *ssa.TypeAssert:
				v = x.X
				continue
			case *ssa.Phi:
				// every edge must come from the registry
				all := len(x.Edges) > 0
				for _, e := range x.Edges {
					if !fromRegistry(e, 0) {
						all = false
					}
				}
				ok = all
				v = nil
				continue
			case *ssa.Call:
				if f := x.Common().StaticCallee(); f != nil && (strings.HasSuffix(f.String(), "(*sync.Map).LoadOrStore") || strings.HasSuffix(f.String(), "(*sync.Map).Load")) {
					ok, why = true, "result of "+f.Name()
				}
			case *ssa.Alloc:
				why = "a word allocated by this call is returned directly"
			}
			break
		}
		c.Check("C16.R4", fmt.Sprintf("%s:returns-registry-entry#%d", funcKey(fn), n), nearestPos(rs.at), ok, why, "GetHealthFlagPointer can return a health word that is not the registry's entry for the address ("+why+"): two host objects of one address created concurrently stop sharing their conditions, so a condition set through one is lost for the other")
	}
	if n < 1 {
		c.Unresolved("C16.R4", "returns of GetHealthFlagPointer")
	}
}

func fromRegistry(v ssa.Value, d int) bool {
	if d > 6 {
		return false
	}
	switch x := v.(type) {
	case *ssa.Extract:
		return fromRegistry(x.Tuple, d+1)
	case *ssa.TypeAssert:
		return fromRegistry(x.X, d+1)
	case *ssa.Call:
		f := x.Common().StaticCallee()
		return f != nil && (strings.HasSuffix(f.String(), "(*sync.Map).LoadOrStore") || strings.HasSuffix(f.String(), "(*sync.Map).Load"))
	}
	return false
}

// healthRegistryAppendOnly (C16.R4 / C05.R7): an address keeps its health word for the life of the process.
// The per-address registry (healthStore) is what makes the host objects of one address - in several clusters, and across
// host-set rebuilds of one cluster - share their conditions: the health checker keeps the host object it started with while
// every host update hands the load balancer fresh objects. If an entry is deleted or replaced, later objects get a new
// word: the checker marks its object unhealthy and the balancer keeps returning the address because the object it
// consults still reads healthy. Clause: healthStore is only ever accessed through Load and LoadOrStore.
func healthRegistryAppendOnly(c *Ctx, rule string) {
	pkg := "pkg/upstream/cluster"
	n := 0
	var bad ssa.Instruction
	badName := ""
	for _, fn := range c.PkgFuncs(pkg) {
		forEachInstr(fn, true, func(_ *ssa.Function, in ssa.Instruction) {
			ci, ok := in.(ssa.CallInstruction)
			if !ok || len(ci.Common().Args) == 0 {
				return
			}
			g, ok := ci.Common().Args[0].(*ssa.Global)
			if !ok || g.Name() != "healthStore" {
				return
			}
			n++
			switch methodName(ci.Common()) {
			case "Load", "LoadOrStore":
			default:
				bad, badName = in, methodName(ci.Common())
			}
		})
		// the global must not be reassigned either
		forEachInstr(fn, true, func(f *ssa.Function, in ssa.Instruction) {
			if st, ok := in.(*ssa.Store); ok {
				if g, isG := st.Addr.(*ssa.Global); isG && g.Name() == "healthStore" && f.Name() != "init" {
					bad, badName = in, "reassignment"
				}
			}
		})
	}
	pos := token.NoPos
	if bad != nil {
		pos = bad.Pos()
	}
	c.Check(rule, "pkg/upstream/cluster.healthStore:append-only", pos, bad == nil && n >= 1, fmt.Sprintf("%d accesses, all Load/LoadOrStore", n), "the per-address health registry is modified by "+badName+": an address can get a second health word, so the object the health checker marks and the object the load balancer consults stop sharing their conditions - an unhealthy host keeps being returned (and conditions set through one host object are lost for the others)")
}

// c16WordOfOwnAddress (R4): a host object's health word is the registry entry of the host's own address.
// The word is shared per address; a host built with the word of a different string (the configured host name instead of
// the resolved address, the cluster name, a word allocated on the spot) reports health that belongs to somebody else, or
// to nobody. Clause: every store to simpleHost.healthFlags stores GetHealthFlagPointer(a) where a is the very value
// stored to addressString of the same object; nothing else ever writes the field.
func c16WordOfOwnAddress(c *Ctx) {
	pkg := "pkg/upstream/cluster"
	n := 0
	ord := ordCounter{}
	for _, fn := range c.PkgFuncs(pkg) {
		forEachInstr(fn, false, func(f *ssa.Function, in ssa.Instruction) {
			st, ok := in.(*ssa.Store)
			if !ok {
				return
			}
			tn, fld, base, okf := fieldAddrInfo(st.Addr)
			if !okf || fld != "healthFlags" || !strings.HasSuffix(tn, "pkg/upstream/cluster.simpleHost") {
				return
			}
			n++
			key := ord.next(f, "word-of-own-address")
			good, why := false, "the stored value is not GetHealthFlagPointer(...)"
			if call, isC := st.Val.(*ssa.Call); isC {
				if cal := call.Common().StaticCallee(); cal != nil && cal.Name() == "GetHealthFlagPointer" && len(call.Common().Args) == 1 {
					arg := call.Common().Args[0]
					why = "its argument is not the value stored to addressString of the same object"
					for _, r := range refs(base) {
						fa, isFA := r.(*ssa.FieldAddr)
						if !isFA {
							continue
						}
						if _, g, _, okg := fieldAddrInfo(fa); !okg || g != "addressString" {
							continue
						}
						for _, rr := range refs(fa) {
							if s2, isS := rr.(*ssa.Store); isS && s2.Addr == ssa.Value(fa) && sameValue(s2.Val, arg) {
								good, why = true, "GetHealthFlagPointer(addressString)"
							}
						}
					}
				}
			}
			c.Check("C16.R4", key, st.Pos(), good, why, "a host object's health word is not the registry entry of its own address ("+why+"): its health is shared with the wrong hosts or with none, so marking the address unhealthy does not take this host out of rotation")
		})
	}
	if n < 2 {
		c.Unresolved("C16.R4", "stores to simpleHost.healthFlags (expected the two constructors)")
	}
}

// sameValue: the same SSA value, or two reads of the same field of the same (spilled) variable. Interleaved writes are
// not considered: the callers use it on constructor arguments that are never reassigned.
func sameValue(a, b ssa.Value) bool {
	if a == b || sameLoad(a, b) {
		return true
	}
	fa, ok1 := a.(*ssa.Field)
	fb, ok2 := b.(*ssa.Field)
	return ok1 && ok2 && fa.Field == fb.Field && sameValue(fa.X, fb.X)
}

// c16ThresholdsPositive (R3): the thresholds the automaton compares with are at least 1.
// The counters are incremented before they are compared (`count++; if count == threshold`), so a threshold of 0 - what
// a configuration that omits the field parses to - is never reached with `==`: the host would never change state.
// Clause: every value stored into healthChecker.healthyThreshold / unhealthyThreshold is a positive constant, or a value
// known to be non-zero on the edge it arrives by (phi alternatives judged at their predecessors).
func c16ThresholdsPositive(c *Ctx) {
	pkg := "pkg/upstream/healthcheck"
	n := 0
	var positive func(v ssa.Value, at *ssa.BasicBlock, d int) bool
	positive = func(v ssa.Value, at *ssa.BasicBlock, d int) bool {
		if d > 5 {
			return false
		}
		if k, ok := constInt(v); ok {
			return k >= 1
		}
		for _, g := range guardsAt(at) {
			bo, ok := g.Cond.(*ssa.BinOp)
			if !ok {
				continue
			}
			var other ssa.Value
			if sameValue(bo.X, v) {
				other = bo.Y
			} else if sameValue(bo.Y, v) {
				other = bo.X
			} else {
				continue
			}
			if k, isK := constInt(other); isK && k == 0 {
				if (bo.Op == token.NEQ && g.True) || (bo.Op == token.EQL && !g.True) || (bo.Op == token.GTR && sameValue(bo.X, v) && g.True) {
					return true
				}
			}
		}
		if ex, ok := v.(*ssa.Extract); ok {
			// a helper of the package that returns the thresholds: every value it returns at that position is positive
			if call, isC := ex.Tuple.(*ssa.Call); isC {
				if cal := call.Common().StaticCallee(); cal != nil && len(cal.Blocks) > 0 {
					okAll, n := true, 0
					for _, in := range instrsWhere(cal, isReturn) {
						n++
						if !positive(unspill(in.(*ssa.Return), ex.Index), in.Block(), d+1) {
							okAll = false
						}
					}
					return okAll && n > 0
				}
			}
		}
		if phi, ok := v.(*ssa.Phi); ok {
			for i, e := range phi.Edges {
				if !positive(e, phi.Block().Preds[i], d+1) {
					// the edge itself may carry the guard: pred ends in the If that tested e
					okEdge := false
					pred := phi.Block().Preds[i]
					if ifi, isIf := pred.Instrs[len(pred.Instrs)-1].(*ssa.If); isIf {
						if bo, isB := ifi.Cond.(*ssa.BinOp); isB && (sameValue(bo.X, e) || sameValue(bo.Y, e)) {
							other := bo.Y
							if sameValue(bo.Y, e) {
								other = bo.X
							}
							if k, isK := constInt(other); isK && k == 0 {
								takenTrue := pred.Succs[0] == phi.Block()
								if (bo.Op == token.EQL && !takenTrue) || (bo.Op == token.NEQ && takenTrue) {
									okEdge = true
								}
							}
						}
					}
					if !okEdge {
						return false
					}
				}
			}
			return true
		}
		return false
	}
	for _, fn := range c.PkgFuncs(pkg) {
		forEachInstr(fn, false, func(f *ssa.Function, in ssa.Instruction) {
			st, ok := in.(*ssa.Store)
			if !ok {
				return
			}
			tn, fld, _, okf := fieldAddrInfo(st.Addr)
			if !okf || !strings.HasSuffix(tn, "healthcheck.healthChecker") || (fld != "healthyThreshold" && fld != "unhealthyThreshold") {
				return
			}
			n++
			// the configured value it derives from is the one of the same name (HealthyThreshold -> healthyThreshold)
			srcs := map[string]bool{}
			var collect func(v ssa.Value, d int)
			collect = func(v ssa.Value, d int) {
				if v == nil || d > 8 {
					return
				}
				switch x := v.(type) {
				case *ssa.Phi:
					for _, e := range x.Edges {
						collect(e, d+1)
					}
				case *ssa.Extract:
					if call, isC := x.Tuple.(*ssa.Call); isC {
						if cal := call.Common().StaticCallee(); cal != nil && len(cal.Blocks) > 0 {
							for _, r := range instrsWhere(cal, isReturn) {
								collect(unspill(r.(*ssa.Return), x.Index), d+1)
							}
						}
					}
				case *ssa.Call:
					if cal := x.Common().StaticCallee(); cal != nil && len(cal.Blocks) > 0 && cal.Signature.Results().Len() == 1 {
						for _, r := range instrsWhere(cal, isReturn) {
							collect(unspill(r.(*ssa.Return), 0), d+1)
						}
					}
				case *ssa.Field:
					if stt := derefStruct(x.X.Type()); stt != nil {
						srcs[stt.Field(x.Field).Name()] = true
					}
				case *ssa.UnOp:
					if _, fl, _, okf := fieldAddrInfo(x.X); okf {
						srcs[fl] = true
					} else if al, isAl := x.X.(*ssa.Alloc); isAl {
						for _, r := range refs(al) {
							if s2, isS := r.(*ssa.Store); isS && s2.Addr == ssa.Value(al) {
								collect(s2.Val, d+1)
							}
						}
					}
				case *ssa.Convert:
					collect(x.X, d+1)
				}
			}
			collect(st.Val, 0)
			want := strings.ToUpper(fld[:1]) + fld[1:]
			var got []string
			for sname := range srcs {
				got = append(got, sname)
			}
			sort.Strings(got)
			c.Check("C16.R3", funcKey(f)+":"+fld+"-source", st.Pos(), len(srcs) == 1 && srcs[want], "derived from the configured "+want, fmt.Sprintf("healthChecker.%s is derived from the configuration field(s) %v instead of %s: the two thresholds are mixed up, so with healthy_threshold != unhealthy_threshold a host is ejected and readmitted after the wrong number of consecutive results", fld, got, want))
			c.Check("C16.R3", funcKey(f)+":"+fld+"-positive", st.Pos(), positive(st.Val, in.Block(), 0), "a positive constant, or non-zero on the edge it arrives by", "the "+fld+" of the health checker can be 0 (a configuration that omits it): the counter is incremented before it is compared with ==, so it never equals 0 and the host never changes state - it is marked neither unhealthy after failures nor healthy again after successes")
		})
	}
	if n < 2 {
		c.Unresolved("C16.R3", "stores to healthChecker.healthyThreshold / unhealthyThreshold")
	}
}

// c16ActiveFlagOwner (R3): the active-health-check condition changes only at the thresholds.
// FAILED_ACTIVE_HC is the automaton's state. "Unhealthy exactly after unhealthy_threshold consecutive failures, healthy
// again exactly after healthy_threshold consecutive successes" can hold only if nobody else writes that condition: a
// second writer (session removal, host update, an admin path) makes an address healthy with no successful check - and,
// since the word is shared per address, under the feet of every other checker of that address, whose failure counter
// has already passed the threshold and never fires again. Clause (who-may-call): a call of SetHealthFlag /
// ClearHealthFlag with the constant FAILED_ACTIVE_HC occurs only in sessionChecker.HandleFailure / HandleSuccess.
func c16ActiveFlagOwner(c *Ctx) {
	var flagVal int64 = -1
	if ap := c.Prog.ImportedPackage("mosn.io/api"); ap != nil {
		if k, ok := ap.Pkg.Scope().Lookup("FAILED_ACTIVE_HC").(*types.Const); ok {
			flagVal, _ = constant.Int64Val(k.Val())
		}
	}
	if flagVal < 0 {
		c.Unresolved("C16.R3", "mosn.io/api.FAILED_ACTIVE_HC")
		return
	}
	owner := map[string]string{"SetHealthFlag": "HandleFailure", "ClearHealthFlag": "HandleSuccess"}
	n := 0
	ord := ordCounter{}
	var fns []*ssa.Function
	for fn := range c.all {
		if fn.Pkg != nil && strings.HasPrefix(fn.Pkg.Pkg.Path(), "mosn.io/mosn/") && len(fn.Blocks) > 0 {
			fns = append(fns, fn)
		}
	}
	sort.Slice(fns, func(i, j int) bool { return fns[i].String() < fns[j].String() })
	for _, fn := range fns {
		forEachInstr(fn, false, func(f *ssa.Function, in ssa.Instruction) {
			ci, ok := in.(ssa.CallInstruction)
			if !ok {
				return
			}
			name := methodName(ci.Common())
			want, isMut := owner[name]
			if !isMut {
				return
			}
			args := argsOf(ci.Common())
			if len(args) == 0 {
				return
			}
			k, isK := constInt(args[len(args)-1])
			if !isK || k != flagVal {
				return
			}
			n++
			top := f
			for top.Parent() != nil {
				top = top.Parent()
			}
			inOwner := top.Name() == want && top.Signature.Recv() != nil && strings.HasSuffix(typeName(top.Signature.Recv().Type()), "healthcheck.sessionChecker")
			c.Check("C16.R3", ord.next(f, "active-flag-owner:"+name), in.Pos(), inOwner, "written by the threshold automaton ("+want+")", name+"(FAILED_ACTIVE_HC) is called in "+top.Name()+", outside the threshold automaton (sessionChecker."+want+"): the active-check condition of an address changes without the configured number of consecutive results - e.g. a failing host becomes healthy with no successful check, and other checkers of the same address never mark it unhealthy again")
		})
	}
	if n < 2 {
		c.Unresolved("C16.R3", "SetHealthFlag/ClearHealthFlag(FAILED_ACTIVE_HC) call sites (expected HandleFailure and HandleSuccess)")
	}
}

// c16EveryCheckTimed (R3): every health check runs under a freshly armed timeout.
// A check that hangs is a failed check only because its timeout fires: OnTimeout feeds the failure into the automaton.
// mosn.io/pkg/utils.Timer is one-shot in a strong sense - after Stop() its Reset() does nothing (read from its source) -
// and the Start loop stops the timeout timer whenever a check answers in time. Clauses: (a) in sessionChecker.OnCheck no
// path reaches the session's CheckHealth call without storing the result of utils.NewTimer(..) into checkTimeout first;
// (b) nothing in the health-check package re-arms a utils.Timer with Reset (timers are replaced, never reset).
func c16EveryCheckTimed(c *Ctx) {
	pkg := "pkg/upstream/healthcheck"
	fn := c.M(pkg, "sessionChecker", "OnCheck")
	if fn == nil {
		c.Unresolved("C16.R3", "sessionChecker.OnCheck")
		return
	}
	checks := callsIn(fn, false, func(cc *ssa.CallCommon) bool { return cc.IsInvoke() && cc.Method.Name() == "CheckHealth" })
	if len(checks) != 1 {
		c.Fail("C16.R3", funcKey(fn)+":check-under-fresh-timeout", fn.Pos(), fmt.Sprintf("expected one CheckHealth call in OnCheck, found %d", len(checks)))
	} else {
		arm := func(in ssa.Instruction) bool {
			st, ok := in.(*ssa.Store)
			if !ok {
				return false
			}
			if _, f, _, okf := fieldAddrInfo(st.Addr); !okf || f != "checkTimeout" {
				return false
			}
			call, isC := st.Val.(*ssa.Call)
			return isC && strings.HasSuffix(calleeName(call.Common()), "utils.NewTimer")
		}
		bad := existsPath(fn, nil, func(in ssa.Instruction) bool { return in == checks[0].Instr }, arm)
		c.Check("C16.R3", funcKey(fn)+":check-under-fresh-timeout", checks[0].Instr.Pos(), bad == nil, "a new timeout timer is armed before every check", "OnCheck can start a health check without arming a new timeout timer (utils.NewTimer stored into checkTimeout): a utils.Timer that was stopped - as the timeout timer is whenever a check answers in time - cannot be re-armed, so a check that hangs afterwards never times out, is never counted as a failure and the host is never marked unhealthy")
	}
	n := 0
	for _, f := range c.PkgFuncs(pkg) {
		for _, cs := range callsIn(f, false, func(cc *ssa.CallCommon) bool {
			cal := cc.StaticCallee()
			return cal != nil && strings.HasSuffix(cal.String(), "utils.Timer).Reset")
		}) {
			n++
			c.Fail("C16.R3", fmt.Sprintf("%s:timer-reset#%d", funcKey(f), n), cs.Instr.Pos(), "a utils.Timer is re-armed with Reset() in "+f.Name()+": Reset does nothing on a timer that has been stopped, so the timer silently never fires again")
		}
	}
	c.Pass("C16.R3", "pkg/upstream/healthcheck:timers-replaced-not-reset", fn.Pos(), "no utils.Timer.Reset call in the package")
}

// c16SessionLifetime (R3): a health-check session lives exactly as long as its address is in the host set.
// The consecutive-success / consecutive-failure counters of the threshold automaton live in the session (sessionChecker).
// "unhealthy_threshold consecutive failures flip the host" therefore holds only if a host-set update does not restart the
// sessions of the addresses that stay. Clause, who-may-call with argument origin: healthChecker.stopCheck is called only
// (a) from the whole-set teardown (stop), or (b) in SetHealthCheckerHostSet on an element of the *deleted* hosts computed
// by findNewAndDeleteHost (first result); startCheck only from the whole-set start or on an element of the *new* hosts
// (second result). A pass that re-creates the session of a continuing address zeroes its streak: with a push between the
// checks the threshold is never reached.
func c16SessionLifetime(c *Ctx) {
	pkg := "pkg/upstream/healthcheck"
	diff := c.F(pkg, "findNewAndDeleteHost")
	if diff == nil {
		c.Unresolved("C16.R3", "findNewAndDeleteHost")
		return
	}
	// element of result #idx of findNewAndDeleteHost
	elementOf := func(v ssa.Value, idx int) bool {
		for i := 0; i < 6; i++ {
			switch x := v.(type) {
			case *ssa.UnOp:
				v = x.X
				continue
			case *ssa.IndexAddr:
				v = x.X
				continue
			case *ssa.Extract:
				if call, ok := x.Tuple.(*ssa.Call); ok && call.Common().StaticCallee() == diff {
					return x.Index == idx
				}
				// value of a `range` over the slice: Next tuple
				if nx, ok := x.Tuple.(*ssa.Next); ok {
					if rg, ok := nx.Iter.(*ssa.Range); ok {
						v = rg.X
						continue
					}
				}
				return false
			case *ssa.Phi:
				for _, e := range x.Edges {
					if _, isC := e.(*ssa.Const); isC {
						continue
					}
					v = e
				}
				continue
			}
			return false
		}
		return false
	}
	n := 0
	ord := ordCounter{}
	for _, fn := range c.PkgFuncs(pkg) {
		forEachInstr(fn, false, func(f *ssa.Function, in ssa.Instruction) {
			ci, ok := in.(ssa.CallInstruction)
			if !ok {
				return
			}
			name := methodName(ci.Common())
			if name != "stopCheck" && name != "startCheck" {
				return
			}
			callee := ci.Common().StaticCallee()
			if callee == nil || callee.Signature.Recv() == nil || !strings.HasSuffix(typeName(callee.Signature.Recv().Type()), "healthcheck.healthChecker") {
				return
			}
			n++
			top := f
			for top.Parent() != nil {
				top = top.Parent()
			}
			args := argsOf(ci.Common())
			okSite := false
			switch {
			case name == "stopCheck" && top.Name() == "stop", name == "startCheck" && top.Name() == "start":
				okSite = true
			case top.Name() == "SetHealthCheckerHostSet" && f == top && len(args) > 0:
				if name == "stopCheck" {
					okSite = elementOf(args[len(args)-1], 0)
				} else {
					okSite = elementOf(args[len(args)-1], 1)
				}
			}
			what := "deleted"
			if name == "startCheck" {
				what = "new"
			}
			c.Check("C16.R3", ord.next(f, "session-lifetime:"+name), in.Pos(), okSite, "called for the whole set, or on an element of the "+what+" hosts of findNewAndDeleteHost", name+" is called in "+top.Name()+" for a host that is not one of the "+what+" hosts of the update: the session of an address that stays in the set is re-created, its consecutive-result counters restart at zero, and with a host-set push between the checks the configured threshold is never reached (or a flipped flag is not flipped back)")
		})
	}
	if n < 4 {
		c.Unresolved("C16.R3", fmt.Sprintf("stopCheck/startCheck call sites (found %d)", n))
	}
}

// c16ChangedReachesCallbacks (R3): the transition the threshold automaton computed is what the callbacks are told.
// HandleSuccess/HandleFailure compute `changed` together with the flag flip (R3 automaton). From there the value travels
// sessionChecker -> healthChecker.incHealthy/decHealthy -> runCallbacks -> every registered callback, and the healthy gauge
// moves under the same condition. Clause: in incHealthy, decHealthy and runCallbacks the `changed` parameter is handed on
// as it is - the argument of runCallbacks / of the callback is the parameter itself, and the gauge update is guarded by the
// parameter itself. A `changed` masked by another condition of the host (outlier ejection, a config switch) hides a
// threshold transition from the cluster: nobody re-announces it later.
func c16ChangedReachesCallbacks(c *Ctx) {
	pkg := "pkg/upstream/healthcheck"
	n := 0
	for _, spec := range []struct {
		fn, next string
	}{{"incHealthy", "runCallbacks"}, {"decHealthy", "runCallbacks"}, {"runCallbacks", ""}} {
		fn := c.M(pkg, "healthChecker", spec.fn)
		if fn == nil {
			c.Unresolved("C16.R3", "healthChecker."+spec.fn)
			continue
		}
		var ch *ssa.Parameter
		for _, p := range fn.Params {
			if p.Name() == "changed" {
				ch = p
			}
		}
		if ch == nil {
			c.Unresolved("C16.R3", "the changed parameter of healthChecker."+spec.fn)
			continue
		}
		fk := funcKey(fn)
		// every call that receives a bool "changed" downstream: the static callee named next, or a dynamic callback call
		ok, calls := true, 0
		forEachInstr(fn, true, func(_ *ssa.Function, in ssa.Instruction) {
			call, isCall := in.(*ssa.Call)
			if !isCall {
				return
			}
			isNext := spec.next != "" && methodName(call.Common()) == spec.next
			isCb := spec.next == "" && call.Common().StaticCallee() == nil && !call.Common().IsInvoke() && len(call.Common().Args) == 3
			if !isNext && !isCb {
				return
			}
			calls++
			// the bool argument in the "changed" position (second of host, changed, isHealthy)
			args := argsOf(call.Common())
			if len(args) < 3 || args[len(args)-2] != ssa.Value(ch) {
				ok = false
			}
		})
		n++
		c.Check("C16.R3", fk+":changed-handed-on-as-it-is", fn.Pos(), ok && calls > 0, "the changed parameter itself is passed on", "healthChecker."+spec.fn+" does not hand the `changed` value of the threshold automaton on as it is: a transition of the active-check condition is hidden from (or invented for) the callbacks - the cluster's view of the host and the healthy gauge no longer follow the configured thresholds")
		if spec.next != "" {
			// the gauge moves exactly when changed
			guarded := true
			found := 0
			forEachInstr(fn, false, func(_ *ssa.Function, in ssa.Instruction) {
				call, isCall := in.(*ssa.Call)
				if !isCall || !strings.HasSuffix(calleeName(call.Common()), "atomic.AddInt64") {
					return
				}
				found++
				g := false
				for _, gd := range guardsAt(call.Block()) {
					if gd.Cond == ssa.Value(ch) && gd.True {
						g = true
					}
				}
				if !g {
					guarded = false
				}
			})
			n++
			c.Check("C16.R3", fk+":gauge-moves-with-changed", fn.Pos(), guarded && found == 1, "the healthy gauge is updated exactly under `changed`", "the healthy-host gauge of healthChecker."+spec.fn+" is not updated under the `changed` value of the automaton itself")
		}
	}
	if n < 5 {
		c.Unresolved("C16.R3", fmt.Sprintf("the changed hand-over chain (found %d obligations)", n))
	}
}
