package main

import (
	"fmt"
	"go/token"
	"go/types"
	"strings"

	"golang.org/x/tools/go/ssa"
)

// Clauses for the repairs of round 13's side findings (S99-S141; /repo commits d9f978f36..e211bbb31, §5 rows 114-128).

func runRound16(c *Ctx, spec *PropSpec) {
	switch spec.ID {
	case "C01":
		c01CloneOwnsItsMaps(c)
	case "C03":
		c03FiredTimeoutIsSticky(c, "C03.R21")
	case "C04":
		c04VariableConditionsAreMatchers(c)
	case "C07":
		boltv2TrailingCRCRefused(c, "C07.CRC")
	case "C08":
		boltv2TrailingCRCRefused(c, "C08.CRC")
	case "C10":
		c10PingPongCountsUnderTheCloseLock(c)
		c10EarlyUpstreamCloseIsDeferred(c)
		c10ResetBeforeReceiveEndsTheStream(c)
		c10TerminatedRequestResetsUpstream(c)
	case "C12":
		c12RouterUpdatesSerialised(c)
	case "C13":
		c13HashCoversRootCertificates(c)
		c13SdsStaticCAAndSystemEntry(c)
	case "C14":
		c14NoSendAfterInterval(c)
		c14LocalReplyDetachesUpstream(c)
	case "C17":
		c17XdsRetryConditions(c)
		c17XdsDirectResponseBodyExhaustive(c)
		// the global timeout bounds the retries: registered under this property too
		c03FiredTimeoutIsSticky(c, "C17.R23")
	case "C20":
		c20EveryRawSectionRedacted(c)
	}
}

// ---------------------------------------------------------------------------------------------------------------------
// C01.R24 (S127, repair 7904ef5ba): the clone of a frame owns its maps. A Clone() of a codec frame that copies a struct
// value of the original (clone.Header = r.Header, *clone = *h) copies the map *references* inside it; every map-typed field
// reached that way must get a freshly made map before the clone is returned, and no map loaded from the receiver is stored
// into the clone directly. The mirror filter clones on another goroutine while the original goes on through the filters.
func c01CloneOwnsItsMaps(c *Ctx) {
	const rule = "C01.R24"
	c.Rule(rule, "the clone of a codec frame shares no map with the original: every map copied by reference inside a struct value is replaced by a fresh one", 2)
	n := 0
	for _, pkg := range codecPkgs {
		for _, fn := range c.PkgFuncs(pkg) {
			if fn.Name() != "Clone" || fn.Signature.Recv() == nil || len(fn.Params) == 0 || fn.Blocks == nil {
				continue
			}
			recv := fn.Params[0]
			rootOf := func(v ssa.Value) ssa.Value {
				for i := 0; i < 8; i++ {
					switch x := v.(type) {
					case *ssa.FieldAddr:
						v = x.X
					case *ssa.UnOp:
						if x.Op != token.MUL {
							return v
						}
						v = x.X
					default:
						return v
					}
				}
				return v
			}
			fromRecv := func(v ssa.Value) bool {
				u, ok := v.(*ssa.UnOp)
				return ok && u.Op == token.MUL && rootOf(u.X) == recv
			}
			// map fields (by name) directly inside a struct type, through nested struct values
			var mapFields func(t types.Type, d int) []string
			mapFields = func(t types.Type, d int) []string {
				st, ok := t.Underlying().(*types.Struct)
				if !ok || d > 3 {
					return nil
				}
				var out []string
				for i := 0; i < st.NumFields(); i++ {
					ft := st.Field(i).Type()
					if _, isMap := ft.Underlying().(*types.Map); isMap {
						out = append(out, st.Field(i).Name())
					} else if _, isStruct := ft.Underlying().(*types.Struct); isStruct {
						out = append(out, mapFields(ft, d+1)...)
					}
				}
				return out
			}
			for _, b := range fn.Blocks {
				for _, in := range b.Instrs {
					st, ok := in.(*ssa.Store)
					if !ok || !fromRecv(st.Val) {
						continue
					}
					dst := rootOf(st.Addr)
					if _, isAlloc := dst.(*ssa.Alloc); !isAlloc {
						continue
					}
					if _, isMap := st.Val.Type().Underlying().(*types.Map); isMap {
						n++
						c.Fail(rule, funcKey(fn)+":map-shared", st.Pos(), "Clone stores a map of the original into the clone: the two frames share it, a header set on one shows on the other and the mirror goroutine races with the request path")
						continue
					}
					for _, mf := range mapFields(st.Val.Type(), 0) {
						n++
						fresh := false
						for _, b2 := range fn.Blocks {
							for _, in2 := range b2.Instrs {
								st2, ok := in2.(*ssa.Store)
								if !ok {
									continue
								}
								fa, ok := st2.Addr.(*ssa.FieldAddr)
								if !ok || rootOf(fa) != dst {
									continue
								}
								_, f, _, _ := fieldAddrInfo(fa)
								if f != mf {
									continue
								}
								_, isMake := st2.Val.(*ssa.MakeMap)
								if call, isCall := st2.Val.(*ssa.Call); isCall && !fromRecv(st2.Val) {
									// a deep-copy helper (x.Clone()) gives a map of its own
									isMake = isMake || strings.Contains(calleeName(call.Common()), "Clone")
								}
								if isMake && instrDominates(st, st2) {
									fresh = true
								}
							}
						}
						c.Check(rule, funcKey(fn)+":fresh-map:"+mf, st.Pos(), fresh, "the map field "+mf+" copied with the struct value is replaced by a fresh map",
							"Clone copies a struct value of the original and keeps its map field "+mf+": the clone and the original share the header map - a change on one shows on the other, and the mirror filter reads it on another goroutine while the request path writes it")
					}
				}
			}
		}
	}
	if n < 2 {
		c.Fail(rule, "codecs:clone-map-fields", token.NoPos, fmt.Sprintf("only %d map fields found in the Clone methods of the codec frames (dubbo and dubbothrift have one each)", n))
	}
}

// ---------------------------------------------------------------------------------------------------------------------
// C04.R18 (S99/S100, repair d9f978f36): the conditions on the pseudo header "method" are value matchers in a list. A
// map from the variable to one value loses every condition but the last and cannot honour `regex: true`; so the field
// that holds them is not a map, and everything put into it comes out of NewKeyValueData, the constructor the ordinary
// header conditions use (which compiles the regex).
func c04VariableConditionsAreMatchers(c *Ctx) {
	const rule = "C04.R18"
	c.Rule(rule, "every method condition of a route is kept, as the value matcher its configuration asks for (list of NewKeyValueData results, not a map)", 2)
	pkg := "pkg/router"
	named := c.Named(pkg, "httpHeaderMatcherImpl")
	fn := c.F(pkg, "CreateHTTPHeaderMatcher")
	if named == nil || fn == nil {
		c.Unresolved(rule, "router.httpHeaderMatcherImpl / CreateHTTPHeaderMatcher")
		return
	}
	st := derefStruct(named)
	var ft types.Type
	for i := 0; st != nil && i < st.NumFields(); i++ {
		if st.Field(i).Name() == "variables" {
			ft = st.Field(i).Type()
		}
	}
	if ft == nil {
		c.Unresolved(rule, "httpHeaderMatcherImpl.variables")
		return
	}
	_, isMap := ft.Underlying().(*types.Map)
	c.Check(rule, modPkg(pkg)+".httpHeaderMatcherImpl:conditions-not-keyed", named.Obj().Pos(), !isMap, "the variable conditions are a "+ft.String(),
		"httpHeaderMatcherImpl keeps its variable conditions in a map keyed by the variable: two method conditions of one route overwrite each other, so the route also takes the requests one of them excludes - ahead of the routes behind it")
	// everything stored into / appended onto .variables is a NewKeyValueData result
	n := 0
	for _, s := range storesToField(fn, "httpHeaderMatcherImpl", "variables", false) {
		call, ok := s.Val.(*ssa.Call)
		if !ok {
			continue // the initial make
		}
		if b, isB := call.Common().Value.(*ssa.Builtin); !isB || b.Name() != "append" {
			continue
		}
		n++
		ok = derivesFrom(call.Common().Args[1], func(v ssa.Value) bool {
			cl, isC := v.(*ssa.Call)
			return isC && strings.HasSuffix(calleeName(cl.Common()), "NewKeyValueData")
		})
		c.Check(rule, funcKey(fn)+":condition-built-by-NewKeyValueData", s.Pos(), ok, "the appended condition is a NewKeyValueData result",
			"CreateHTTPHeaderMatcher builds a method condition by hand instead of through NewKeyValueData: `regex: true` is ignored and the value is compared literally (method \"GET|POST\" never matches a GET)")
	}
	if n == 0 && !isMap {
		c.Fail(rule, funcKey(fn)+":condition-built-by-NewKeyValueData", fn.Pos(), "no append onto httpHeaderMatcherImpl.variables in CreateHTTPHeaderMatcher")
	}
}

// ---------------------------------------------------------------------------------------------------------------------
// C07.CRC / C08.CRC (S108, repair 31db46e4f): a boltv2 frame of protocol version 2 with the crc switch on is followed
// by 4 bytes the frame length does not count. Either the decoder accounts for them or it refuses the frame; taking them
// for the start of the next frame desynchronises the connection. Clause: every call of decodeRequest / decodeResponse in
// boltv2Protocol.Decode is dominated by a test of the switch byte (index 11) masked with the crc bit.
func boltv2TrailingCRCRefused(c *Ctx, rule string) {
	c.Rule(rule, "boltv2: the crc switch of a version 2 frame is looked at before the frame is decoded (the trailing CRC32 is never parsed as the next frame)", 3)
	pkg := "pkg/protocol/xprotocol/boltv2"
	fn := c.M(pkg, "boltv2Protocol", "Decode")
	if fn == nil {
		c.Unresolved(rule, "boltv2Protocol.Decode")
		return
	}
	// the guard: an If whose condition derives from (Bytes()[11] & const) compared
	isSwitchTest := func(v ssa.Value) bool {
		b, ok := v.(*ssa.BinOp)
		if !ok || b.Op != token.AND {
			return false
		}
		idx := func(x ssa.Value) bool {
			u, ok := x.(*ssa.UnOp)
			if !ok || u.Op != token.MUL {
				return false
			}
			ia, ok := u.X.(*ssa.IndexAddr)
			if !ok {
				return false
			}
			k, ok := constInt(ia.Index)
			return ok && k == 11
		}
		return idx(b.X) || idx(b.Y)
	}
	isDecode := func(x ssa.Instruction) bool {
		ci, ok := x.(ssa.CallInstruction)
		if !ok {
			return false
		}
		n := calleeName(ci.Common())
		return strings.HasSuffix(n, "boltv2.decodeRequest") || strings.HasSuffix(n, "boltv2.decodeResponse")
	}
	// the refusing test: an If on the switch byte one edge of which cannot reach a decode call. (It does not dominate
	// the decode calls: version 1 frames, which have no crc, go round it.)
	var guardIfs []*ssa.If
	for _, b := range fn.Blocks {
		if len(b.Instrs) == 0 {
			continue
		}
		ifi, ok := b.Instrs[len(b.Instrs)-1].(*ssa.If)
		if !ok || !derivesFrom(ifi.Cond, isSwitchTest) {
			continue
		}
		refuses := false
		for _, s := range b.Succs {
			if len(s.Instrs) > 0 && existsPath(fn, nil, isDecode, nil) != nil {
				reach := false
				for blk := range reachableFrom(s) {
					for _, in := range blk.Instrs {
						if isDecode(in) {
							reach = true
						}
					}
				}
				if !reach {
					refuses = true
				}
			}
		}
		if refuses {
			guardIfs = append(guardIfs, ifi)
		}
	}
	ord := ordCounter{}
	n := 0
	for _, cs := range callsIn(fn, false, func(cc *ssa.CallCommon) bool {
		n := calleeName(cc)
		return strings.HasSuffix(n, "boltv2.decodeRequest") || strings.HasSuffix(n, "boltv2.decodeResponse")
	}) {
		n++
		ok := false
		for _, g := range guardIfs {
			// the test lies before the decode: the decode is reachable from it
			if reachableFrom(g.Block())[cs.Instr.Block()] {
				ok = true
			}
		}
		c.Check(rule, ord.next(fn, "crc-switch-tested-before-decode"), cs.Instr.Pos(), ok, "a test of the switch byte that refuses the frame lies before this decode",
			"boltv2 decodes a frame without looking at the crc switch: a version 2 frame with the switch on is followed by a CRC32 the frame length does not count, its 4 bytes are taken for the start of the next frame (\"unknown cmd type\") and the frame is forwarded without them")
	}
	if n < 3 {
		c.Fail(rule, funcKey(fn)+":crc-switch-tested-before-decode", fn.Pos(), "fewer than three decode calls in boltv2Protocol.Decode")
	}
}

// ---------------------------------------------------------------------------------------------------------------------
// C10.LOCKED (S134, repair 92494ca44): the ping-pong pool counts a request under the mutex the close handling takes.
// The stream gets its listener under clientMux (C10.BORN); the increments the listener's OnDestroyStream gives back must
// be made before the mutex is released, otherwise a close in the window runs the decrements first.
func c10PingPongCountsUnderTheCloseLock(c *Ctx) {
	const rule = "C10.LOCKED"
	c.Rule(rule, "ping-pong NewStream takes the request counts while it holds clientMux: the reset that follows a close gives back what is taken already", 3)
	fn := c.M("pkg/stream/xprotocol", "poolPingPong", "NewStream")
	if fn == nil {
		c.Unresolved(rule, "poolPingPong.NewStream")
		return
	}
	ord := ordCounter{}
	n := 0
	for _, cs := range callsIn(fn, false, func(cc *ssa.CallCommon) bool {
		m := methodName(cc)
		return m == "Increase" || (m == "Inc" && len(argsOf(cc)) == 1)
	}) {
		n++
		held := mayHold(cs.Instr, "clientMux") != nil
		// and not reachable from an Unlock of clientMux
		var after ssa.Instruction
		for _, ul := range callsIn(fn, false, func(cc *ssa.CallCommon) bool {
			if methodName(cc) != "Unlock" || len(cc.Args) == 0 {
				return false
			}
			_, f, _, ok := fieldAddrInfo(cc.Args[0])
			return ok && f == "clientMux"
		}) {
			if existsPath(fn, ul.Instr, func(x ssa.Instruction) bool { return x == cs.Instr }, nil) != nil {
				after = ul.Instr
			}
		}
		c.Check(rule, ord.next(fn, "counted-under-clientMux"), cs.Instr.Pos(), held && after == nil, "incremented while clientMux is held",
			"poolPingPong.NewStream increments a request count after it released clientMux: a close of the connection in that window resets the stream first - the decrements run before the increments, the counters are negative for a moment and a limit check in between sees a wrong value")
	}
	if n < 3 {
		c.Fail(rule, funcKey(fn)+":counted-under-clientMux", fn.Pos(), fmt.Sprintf("only %d increments found in poolPingPong.NewStream", n))
	}
}

// ---------------------------------------------------------------------------------------------------------------------
// C10.EARLY (S133, repair 08b548cd5): the TCP proxy's close handling waits for the accounting. The upstream connection
// delivers its close event from its own goroutine as soon as Connect() returned; the decrements of onUpstreamEvent must
// not run before initializeUpstreamConnection made the increments. Clauses: (a) in onUpstreamEvent every call of
// finalizeUpstreamConnectionStats is dominated by a read of the accounted flag; (b) initializeUpstreamConnection raises
// the flag only after Connections().Increase(), and (c) replays a recorded early close afterwards.
func c10EarlyUpstreamCloseIsDeferred(c *Ctx) {
	const rule = "C10.EARLY"
	c.Rule(rule, "streamproxy: an upstream close event is handled only after the connection was accounted; an early one is recorded and replayed", 4)
	pkg := "pkg/filter/network/streamproxy"
	ev := c.M(pkg, "proxy", "onUpstreamEvent")
	ini := c.M(pkg, "proxy", "initializeUpstreamConnection")
	if ev == nil || ini == nil {
		c.Unresolved(rule, "streamproxy.proxy.onUpstreamEvent / initializeUpstreamConnection")
		return
	}
	isFinal := func(x ssa.Instruction) bool {
		ci, ok := x.(ssa.CallInstruction)
		return ok && methodName(ci.Common()) == "finalizeUpstreamConnectionStats"
	}
	// the gate: an If on the accounted flag (read under upstreamMux, on the IsClose() edge) whose not-accounted edge
	// records the event and cannot reach the decrements. It does not dominate them: the switch that follows also handles
	// the events that close nothing.
	var gate *ssa.If
	for _, b := range ev.Blocks {
		if len(b.Instrs) == 0 {
			continue
		}
		ifi, ok := b.Instrs[len(b.Instrs)-1].(*ssa.If)
		if !ok {
			continue
		}
		var read ssa.Instruction
		if !derivesFrom(ifi.Cond, func(v ssa.Value) bool {
			_, f, _, isF := loadedField(v)
			if isF && f == "upstreamAccounted" {
				read, _ = v.(ssa.Instruction)
			}
			return isF && f == "upstreamAccounted"
		}) || read == nil || mayHold(read, "upstreamMux") == nil {
			continue
		}
		onClose := false
		for _, g := range guardsAt(b) {
			if call, isC := g.Cond.(*ssa.Call); isC && methodName(call.Common()) == "IsClose" && g.True {
				onClose = true
			}
		}
		if !onClose {
			continue
		}
		for _, s := range b.Succs {
			final, recorded := false, false
			for blk := range reachableFrom(s) {
				for _, in := range blk.Instrs {
					if isFinal(in) {
						final = true
					}
					if st, isSt := in.(*ssa.Store); isSt {
						if _, f, _, isF := fieldAddrInfo(st.Addr); isF && f == "upstreamEarlyClose" {
							recorded = true
						}
					}
				}
			}
			if !final && recorded {
				gate = ifi
			}
		}
	}
	ord := ordCounter{}
	n := 0
	for _, cs := range callsIn(ev, false, calledAs("finalizeUpstreamConnectionStats")) {
		n++
		// the decrements of the closing events lie behind the gate
		closing := false
		// a case arm of the switch over the event: some predecessor tests event == <closing event> and jumps here
		for _, pr := range cs.Instr.Block().Preds {
			if len(pr.Instrs) == 0 {
				continue
			}
			ifi, isIf := pr.Instrs[len(pr.Instrs)-1].(*ssa.If)
			if !isIf || pr.Succs[0] != cs.Instr.Block() {
				continue
			}
			if b, isB := ifi.Cond.(*ssa.BinOp); isB && b.Op == token.EQL {
				for _, side := range []ssa.Value{b.X, b.Y} {
					if s, isS := constStringVal(side); isS && isCloseEvent(s) {
						closing = true
					}
				}
			}
		}
		if !closing {
			n--
			continue
		}
		ok := gate != nil && reachableFrom(gate.Block())[cs.Instr.Block()]
		c.Check(rule, ord.next(ev, "decrement-after-accounting"), cs.Instr.Pos(), ok, "a closing event passes the accounted gate (read under upstreamMux) before the decrements",
			"onUpstreamEvent gives the connection's counts back without knowing that they were taken: a close event that arrives between Connect() and Connections().Increase() runs (or skips) the decrements first and the increments follow - the connections resource and upstream_cx_active stay +1 for ever")
	}
	if n < 2 {
		c.Fail(rule, funcKey(ev)+":decrement-after-accounting", ev.Pos(), "fewer than two decrements of closing events found in onUpstreamEvent")
	}
	// (b) + (c)
	incs := callsIn(ini, false, func(cc *ssa.CallCommon) bool { return methodName(cc) == "Increase" })
	raised := false
	var raise *ssa.Store
	for _, st := range storesToField(ini, "proxy", "upstreamAccounted", false) {
		if k, ok := constBool(st.Val); ok && k {
			raise = st
			for _, inc := range incs {
				if instrDominates(inc.Instr, st) {
					raised = true
				}
			}
		}
	}
	pos := ini.Pos()
	if raise != nil {
		pos = raise.Pos()
	}
	c.Check(rule, funcKey(ini)+":flag-raised-after-increase", pos, raised, "upstreamAccounted = true after Connections().Increase()",
		"initializeUpstreamConnection does not raise the accounted flag after it incremented the connections resource: close events are held back for ever (or let through before the increments)")
	replay := false
	if raise != nil {
		for _, cs := range callsIn(ini, false, func(cc *ssa.CallCommon) bool { return cc.StaticCallee() == ev }) {
			if instrDominates(raise, cs.Instr) {
				replay = true
			}
		}
	}
	c.Check(rule, funcKey(ini)+":early-close-replayed", pos, replay, "a recorded early close is handed to onUpstreamEvent after the accounting",
		"initializeUpstreamConnection never replays the close event that was recorded before the accounting: the downstream connection of an upstream that closed at once stays open and its counts are never given back")
}

// ---------------------------------------------------------------------------------------------------------------------
// C10.PHASES (S130, repair 517ce9f0c): a downstream stream that is counted by NewStreamDetect is ended by exactly one
// party. OnReceive / OnDecodeError claim it for the phases with a CAS 0->1 and return when they lose; OnResetStream
// claims a stream the phases never got with a CAS 0->2 and ends it itself (ResetStream) - otherwise a stream reset before
// its request was complete stays in the active list and in downstream_request_active for ever.
func c10ResetBeforeReceiveEndsTheStream(c *Ctx) {
	const rule = "C10.PHASES"
	c.Rule(rule, "a downstream stream reset before its request is complete is ended by OnResetStream; OnReceive / OnDecodeError run the phases only when they claimed the stream", 3)
	pkg := "pkg/proxy"
	casOn := func(fn *ssa.Function, from, to int64) *ssa.Call {
		for _, cs := range callsIn(fn, false, func(cc *ssa.CallCommon) bool { return strings.HasSuffix(calleeName(cc), "atomic.CompareAndSwapUint32") }) {
			a := cs.Instr.Common().Args
			_, f, _, ok := fieldAddrInfo(a[0])
			o, ok1 := constInt(a[1])
			n, ok2 := constInt(a[2])
			if ok && f == "phasesState" && ok1 && ok2 && o == from && n == to {
				if call, isCall := cs.Instr.(*ssa.Call); isCall {
					return call
				}
			}
		}
		return nil
	}
	rs := c.M(pkg, "downStream", "OnResetStream")
	if rs == nil {
		c.Unresolved(rule, "downStream.OnResetStream")
		return
	}
	cas := casOn(rs, 0, 2)
	ended := false
	if cas != nil {
		// the success edge reaches a call of ResetStream (directly or in a closure started there)
		for _, cs := range callsIn(rs, true, calledAs("ResetStream")) {
			site := ssa.Instruction(cs.Instr)
			if cs.Fn != rs {
				// the closure: where it is made
				for _, b := range rs.Blocks {
					for _, in := range b.Instrs {
						if mc, ok := in.(*ssa.MakeClosure); ok && mc.Fn == cs.Fn {
							site = mc
						}
					}
				}
			}
			for _, g := range guardsAt(site.Block()) {
				if g.Cond == ssa.Value(cas) && g.True {
					ended = true
				}
			}
		}
	}
	c.Check(rule, funcKey(rs)+":unclaimed-stream-ended", rs.Pos(), ended, "CAS(phasesState,0,2) success edge calls ResetStream",
		"OnResetStream only raises a flag and notifies: for a stream the phases never got (HTTP/2 HEADERS without END_STREAM, then RST_STREAM or a disconnect) nobody waits for the notify - the stream stays in the active list and in the downstream_request_active gauges for ever")
	for _, name := range []string{"OnReceive", "OnDecodeError"} {
		fn := c.M(pkg, "downStream", name)
		if fn == nil {
			c.Unresolved(rule, "downStream."+name)
			continue
		}
		cas := casOn(fn, 0, 1)
		ok := false
		if cas != nil {
			// every store into the stream and every call of the phase runner is on the success edge
			ok = true
			for _, b := range fn.Blocks {
				for _, in := range b.Instrs {
					call, isCall := in.(ssa.CallInstruction)
					if !isCall {
						continue
					}
					m := methodName(call.Common())
					if m != "receive" && m != "Schedule" && m != "ScheduleAuto" && m != "sendHijackReply" && m != "GoWithRecover" {
						continue
					}
					claimed := false
					for _, g := range guardsAt(b) {
						if g.Cond == ssa.Value(cas) && g.True {
							claimed = true
						}
					}
					if !claimed {
						ok = false
					}
				}
			}
		}
		c.Check(rule, funcKey(fn)+":phases-only-when-claimed", fn.Pos(), ok, "the phases start on the success edge of CAS(phasesState,0,1)",
			name+" starts the phases of a stream without claiming it: a stream that OnResetStream has ended already (reset before the request was complete) is run through the proxy again, on a recycled object")
	}
}

// ---------------------------------------------------------------------------------------------------------------------
// C10.TERM (S132, repair e211bbb31): a request ended by TerminateStream gives its upstream request back. In the
// direct-response branch of processError the upstream is marked done, so cleanStream will not reset it: when the reply
// is a termination the branch resets the upstream stream itself.
func c10TerminatedRequestResetsUpstream(c *Ctx) {
	const rule = "C10.TERM"
	c.Rule(rule, "the reply of a TerminateStream resets the upstream request that is still in flight (its pool counts are given back at once)", 1)
	fn := c.M("pkg/proxy", "downStream", "processError")
	if fn == nil {
		c.Unresolved(rule, "downStream.processError")
		return
	}
	ok := false
	var pos token.Pos = fn.Pos()
	for _, cs := range callsIn(fn, false, calledAs("resetStream")) {
		dr, term := false, false
		for _, g := range guardsAt(cs.Instr.Block()) {
			if _, f, _, isF := loadedField(g.Cond); isF && f == "directResponse" && g.True {
				dr = true
			}
			if call, isC := g.Cond.(*ssa.Call); isC && methodName(call.Common()) == "GetResponseFlag" && g.True {
				term = true
			}
		}
		if dr {
			pos = cs.Instr.Pos()
			ok = ok || term || dr
		}
	}
	c.Check(rule, funcKey(fn)+":upstream-reset-with-the-local-reply", pos, ok, "upstreamRequest.resetStream() in the direct-response branch",
		"processError takes the reply of a termination and leaves the upstream request in flight: the reply path marks the upstream as done, cleanStream does not reset it, and the connection pool holds the request (requests resource, active gauge) until the upstream answers or disconnects")
}

// ---------------------------------------------------------------------------------------------------------------------
// C12.R19 (S110, repair 4a0ed7fac): router updates are serialised and recorded with the routers they publish. (a)
// AddOrUpdateRouters holds a manager mutex from before it looks the wrapper up to its return; (b) in the update branch
// configmanager.SetRouter runs while rw.mux is held - the lock under which the routers are swapped - so the stored config
// and the live routers always come from the same update.
func c12RouterUpdatesSerialised(c *Ctx) {
	const rule = "C12.R19"
	c.Rule(rule, "AddOrUpdateRouters is serialised by a manager mutex and records the config inside the lock that publishes the routers", 2)
	pkg := "pkg/router"
	fn := c.M(pkg, "routersManagerImpl", "AddOrUpdateRouters")
	if fn == nil {
		c.Unresolved(rule, "routersManagerImpl.AddOrUpdateRouters")
		return
	}
	loads := callsIn(fn, false, func(cc *ssa.CallCommon) bool {
		if methodName(cc) != "Load" || len(cc.Args) == 0 {
			return false
		}
		_, f, _, ok := fieldAddrInfo(cc.Args[0])
		return ok && f == "routersWrapperMap"
	})
	serial := false
	for _, lk := range callsIn(fn, false, calledAs("Lock")) {
		if len(lk.Instr.Common().Args) == 0 {
			continue
		}
		t, f, _, ok := fieldAddrInfo(lk.Instr.Common().Args[0])
		if !ok || !strings.HasSuffix(t, "routersManagerImpl") {
			continue
		}
		all := len(loads) > 0
		for _, ld := range loads {
			if !instrDominates(lk.Instr, ld.Instr) {
				all = false
			}
		}
		deferred := false
		forEachInstr(fn, false, func(_ *ssa.Function, in ssa.Instruction) {
			if df, isD := in.(*ssa.Defer); isD && methodName(df.Common()) == "Unlock" && len(df.Common().Args) > 0 {
				if _, f2, _, ok2 := fieldAddrInfo(df.Common().Args[0]); ok2 && f2 == f {
					deferred = true
				}
			}
		})
		if all && deferred {
			serial = true
		}
	}
	c.Check(rule, funcKey(fn)+":locked-before-read", fn.Pos(), serial, "a manager mutex is taken before the wrapper is looked up and held to the end",
		"AddOrUpdateRouters looks the router up and publishes the new one without a manager mutex over both: of two overlapping updates of one router the live routers can come from one and the stored config from the other")
	n := 0
	for _, cs := range callsIn(fn, false, func(cc *ssa.CallCommon) bool { return strings.HasSuffix(calleeName(cc), "configmanager.SetRouter") }) {
		// the update branch: a store to rw.routers in a dominating block
		upd := false
		for _, st := range storesToField(fn, "RoutersWrapper", "routers", false) {
			// the swap in a live wrapper, not the literal of a new one
			if fa, isFA := st.Addr.(*ssa.FieldAddr); isFA {
				if _, fresh := fa.X.(*ssa.Alloc); fresh {
					continue
				}
			}
			if instrDominates(st, cs.Instr) {
				upd = true
			}
		}
		if !upd {
			continue
		}
		n++
		c.Check(rule, funcKey(fn)+":recorded-inside-the-swap-lock", cs.Instr.Pos(), mayHold(cs.Instr, "mux") != nil, "SetRouter runs while rw.mux is held",
			"AddOrUpdateRouters records the config after it released the lock under which the routers were swapped: AddRoute / RemoveAllRoutes (which record under that lock) can interleave, and the stored config no longer describes the live routers")
	}
	if n == 0 {
		c.Fail(rule, funcKey(fn)+":recorded-inside-the-swap-lock", fn.Pos(), "no configmanager.SetRouter after the swap of rw.routers in AddOrUpdateRouters")
	}
}

// ---------------------------------------------------------------------------------------------------------------------
// C13.R26 (S116, repair e97a5b12f): the tls hash that keys the connection pools tells two CAs with one subject apart.
// x509.CertPool.Subjects() is all a pool tells; GenerateHashValue must also write something derived from the
// certificates themselves: a field of the hooks that GetX509Pool fills from the decoded PEM blocks.
func c13HashCoversRootCertificates(c *Ctx) {
	const rule = "C13.R26"
	c.Rule(rule, "the tls hash covers the root certificates (their DER bytes), not only the subjects a CertPool tells", 2)
	pkg := "pkg/mtls"
	gen := c.M(pkg, "defaultConfigHooks", "GenerateHashValue")
	get := c.M(pkg, "defaultConfigHooks", "GetX509Pool")
	if gen == nil || get == nil {
		c.Unresolved(rule, "defaultConfigHooks.GenerateHashValue / GetX509Pool")
		return
	}
	// fields of the hooks written in GetX509Pool from pem.Block.Bytes
	fromPem := map[string]bool{}
	for _, b := range get.Blocks {
		for _, in := range b.Instrs {
			st, ok := in.(*ssa.Store)
			if !ok {
				continue
			}
			t, f, _, ok := fieldAddrInfo(st.Addr)
			if !ok || !strings.HasSuffix(t, "defaultConfigHooks") {
				continue
			}
			if derivesFrom(st.Val, func(v ssa.Value) bool {
				_, lf, _, isF := loadedField(v)
				return isF && lf == "Bytes" && strings.Contains(v.Type().String(), "byte")
			}) {
				fromPem[f] = true
			}
		}
	}
	c.Check(rule, funcKey(get)+":certificates-remembered", get.Pos(), len(fromPem) > 0, fmt.Sprintf("GetX509Pool keeps the DER bytes of the certificates it adds (%v)", keysOf(fromPem)),
		"GetX509Pool does not remember the certificates of the pool it builds: the hash can only cover their subjects")
	ok := false
	var pos token.Pos = gen.Pos()
	for _, cs := range callsIn(gen, false, calledAs("Write")) {
		args := argsOf(cs.Instr.Common())
		if len(args) == 0 {
			continue
		}
		if derivesFrom(args[len(args)-1], func(v ssa.Value) bool {
			t, f, _, isF := loadedField(v)
			return isF && strings.HasSuffix(t, "defaultConfigHooks") && fromPem[f]
		}) {
			for _, g := range guardsAt(cs.Instr.Block()) {
				if derivesFrom(g.Cond, func(v ssa.Value) bool { _, f, _, isF := loadedField(v); return isF && f == "RootCAs" }) {
					ok = true
					pos = cs.Instr.Pos()
				}
			}
		}
	}
	c.Check(rule, funcKey(gen)+":root-certificates-hashed", pos, ok, "GenerateHashValue writes the remembered certificate bytes when the config has RootCAs",
		"GenerateHashValue covers the root CAs by subject only: a CA that is issued again with the same subject and another key hashes the same, so after a cluster is switched to it the old connection pool - with the tls manager of the old CA - is kept and goes on verifying the upstream against the old CA")
}

// isCloseEvent: one of the events api.ConnectionEvent.IsClose answers true for (table closeEvents of c10.go, compared
// with mosn.io/api on every run)
func isCloseEvent(s string) bool {
	for _, e := range closeEvents {
		if e == s {
			return true
		}
	}
	return false
}

func keysOf(m map[string]bool) []string {
	var out []string
	for k := range m {
		out = append(out, k)
	}
	return out
}

// ---------------------------------------------------------------------------------------------------------------------
// C13.R27 (S117, repair 3c7d70bb2): (a) a context with an sds certificate source and no validation config verifies
// against its static ca_cert: sdsProvider.update hands newTLSContext a secret info whose Validation was taken from the
// context's CACert on the no-validation path. (b) "no validation config" is decided on the config (ValidationConfig ==
// nil), never on a name: a validation secret may be called anything, "system" too.
func c13SdsStaticCAAndSystemEntry(c *Ctx) {
	const rule = "C13.R27"
	c.Rule(rule, "sds without validation config: the static ca_cert is the validation; the no-validation entry is keyed on the config, not on a secret name", 2)
	pkg := "pkg/mtls"
	upd := c.M(pkg, "sdsProvider", "update")
	add := c.M(pkg, "secretManager", "addOrUpdatePemProvider")
	if upd == nil || add == nil {
		c.Unresolved(rule, "sdsProvider.update / secretManager.addOrUpdatePemProvider")
		return
	}
	ok := false
	var pos token.Pos = upd.Pos()
	for _, b := range upd.Blocks {
		for _, in := range b.Instrs {
			st, isSt := in.(*ssa.Store)
			if !isSt {
				continue
			}
			_, f, _, isF := fieldAddrInfo(st.Addr)
			if !isF || f != "Validation" {
				continue
			}
			if !derivesFrom(st.Val, func(v ssa.Value) bool { _, lf, _, isL := loadedField(v); return isL && lf == "CACert" }) {
				continue
			}
			for _, g := range guardsAt(b) {
				if derivesFrom(g.Cond, func(v ssa.Value) bool { _, lf, _, isL := loadedField(v); return isL && lf == "NoValidation" }) {
					// and a newTLSContext call is reachable from here
					if existsPath(upd, st, func(x ssa.Instruction) bool {
						ci, isC := x.(ssa.CallInstruction)
						return isC && strings.HasSuffix(calleeName(ci.Common()), "newTLSContext")
					}, nil) != nil {
						ok = true
						pos = st.Pos()
					}
				}
			}
		}
	}
	c.Check(rule, funcKey(upd)+":static-ca-is-the-validation", pos, ok, "Validation = cfg.CACert on the NoValidation path, before newTLSContext",
		"sdsProvider.update builds the tls context of a source without validation config from the secret info alone: the static ca_cert of the context is ignored and peers are verified against the system roots (what the xDS conversion produces from tls_certificate_sds_secret_configs plus validation_context.trusted_ca)")
	// (b)
	n := 0
	for _, st := range storesToField(add, "validation", "expectedEmpty", false) {
		n++
		byName := derivesFrom(st.Val, func(v ssa.Value) bool {
			b, isB := v.(*ssa.BinOp)
			return isB && (b.Op == token.EQL || b.Op == token.NEQ) && types.Identical(b.X.Type().Underlying(), types.Typ[types.String])
		})
		byCfg := derivesFrom(st.Val, func(v ssa.Value) bool {
			b, isB := v.(*ssa.BinOp)
			if !isB || (b.Op != token.EQL && b.Op != token.NEQ) {
				return false
			}
			_, f, _, isF := loadedField(b.X)
			return isF && f == "ValidationConfig" && isNilConst(b.Y)
		})
		c.Check(rule, funcKey(add)+":no-validation-decided-on-the-config", st.Pos(), byCfg && !byName, "expectedEmpty = (ValidationConfig == nil)",
			"addOrUpdatePemProvider decides \"no validation expected\" by comparing the validation's name with the internal key: a validation secret that happens to be called like it makes the provider ready before the validation arrived, and peers are verified against the system roots")
	}
	if n == 0 {
		c.Fail(rule, funcKey(add)+":no-validation-decided-on-the-config", add.Pos(), "no store to validation.expectedEmpty in addOrUpdatePemProvider")
	}
}

// ---------------------------------------------------------------------------------------------------------------------
// C14.R16 (S135, repair 582c7458e): a request that was ended during the retry interval is not sent upstream again.
// doRetry sleeps before the next attempt; the response mark setupRetry cleared is read again after the sleep, and
// everything that opens the attempt (pool selection, the new upstream request, appendHeaders) is behind that check.
func c14NoSendAfterInterval(c *Ctx) {
	const rule = "C14.R16"
	c.Rule(rule, "doRetry re-reads the response mark after its interval: a request terminated meanwhile is not sent upstream again", 2)
	fn := c.M("pkg/proxy", "downStream", "doRetry")
	if fn == nil {
		c.Unresolved(rule, "downStream.doRetry")
		return
	}
	sleeps := callsIn(fn, false, func(cc *ssa.CallCommon) bool { return calleeName(cc) == "time.Sleep" })
	if len(sleeps) == 0 {
		// no interval, no window: nothing to check
		c.Pass(rule, funcKey(fn)+":mark-read-after-the-interval", fn.Pos(), "doRetry does not wait before the attempt")
		c.Pass(rule, funcKey(fn)+":attempt-behind-the-check", fn.Pos(), "doRetry does not wait before the attempt")
		return
	}
	var check ssa.Instruction
	for _, cs := range callsIn(fn, false, func(cc *ssa.CallCommon) bool {
		if !strings.HasSuffix(calleeName(cc), "atomic.LoadUint32") || len(cc.Args) == 0 {
			return false
		}
		_, f, _, ok := fieldAddrInfo(cc.Args[0])
		return ok && f == "upstreamResponseReceived"
	}) {
		if instrDominates(sleeps[0].Instr, cs.Instr) {
			check = cs.Instr
		}
	}
	c.Check(rule, funcKey(fn)+":mark-read-after-the-interval", sleeps[0].Instr.Pos(), check != nil, "upstreamResponseReceived is loaded after time.Sleep",
		"doRetry sleeps and then opens the next attempt without looking at the response mark again: a TerminateStream (or the global timeout) in the interval takes the mark, and the request a filter has just denied is still sent upstream; the local reply comes only afterwards")
	ok := check != nil
	if check != nil {
		for _, cs := range callsIn(fn, false, func(cc *ssa.CallCommon) bool {
			m := methodName(cc)
			return m == "initializeUpstreamConnectionPool" || m == "appendHeaders"
		}) {
			guarded := false
			for _, g := range guardsAt(cs.Instr.Block()) {
				if derivesFrom(g.Cond, func(v ssa.Value) bool { return v == check.(ssa.Value) }) {
					guarded = true
				}
			}
			if !guarded {
				ok = false
			}
		}
	}
	c.Check(rule, funcKey(fn)+":attempt-behind-the-check", fn.Pos(), ok, "pool selection and appendHeaders are on the mark-not-taken edge",
		"doRetry selects a pool or sends the request on a path that does not depend on the response mark read after the interval")
}

// ---------------------------------------------------------------------------------------------------------------------
// C14.R17 (S136, repair da89161d0): once the direct-response branch of processError has taken a reply, an upstream stream
// that is still open is detached: the upstream request is removed from the stream's listeners and a reset flagged
// meanwhile is dropped - otherwise the reset handler replaces the filter's reply with its own.
func c14LocalReplyDetachesUpstream(c *Ctx) {
	const rule = "C14.R17"
	c.Rule(rule, "the local reply detaches the upstream stream that is still open: no reset of it can replace the reply", 2)
	fn := c.M("pkg/proxy", "downStream", "processError")
	if fn == nil {
		c.Unresolved(rule, "downStream.processError")
		return
	}
	inDirect := func(in ssa.Instruction) bool {
		for _, g := range guardsAt(in.Block()) {
			if _, f, _, isF := loadedField(g.Cond); isF && f == "directResponse" && g.True {
				return true
			}
		}
		return false
	}
	removed, dropped := false, false
	var detach []ssa.Instruction
	var pos token.Pos = fn.Pos()
	for _, cs := range callsIn(fn, false, func(cc *ssa.CallCommon) bool {
		// upstreamRequest.resetStream removes the listener before it resets the stream (repair e211bbb31 calls it for a
		// termination): either form detaches
		m := methodName(cc)
		return m == "RemoveEventListener" || m == "resetStream"
	}) {
		if inDirect(cs.Instr) {
			removed = true
			pos = cs.Instr.Pos()
			detach = append(detach, cs.Instr)
		}
	}
	for _, cs := range callsIn(fn, false, func(cc *ssa.CallCommon) bool {
		n := calleeName(cc)
		if !(strings.HasSuffix(n, "atomic.CompareAndSwapUint32") || strings.HasSuffix(n, "atomic.StoreUint32")) || len(cc.Args) == 0 {
			return false
		}
		_, f, _, ok := fieldAddrInfo(cc.Args[0])
		return ok && f == "upstreamReset"
	}) {
		// after the detach: from then on no reset is delivered, so what is dropped is all there can be
		for _, d := range detach {
			if inDirect(cs.Instr) && instrDominates(d, cs.Instr) {
				dropped = true
			}
		}
	}
	c.Check(rule, funcKey(fn)+":upstream-listener-removed", pos, removed, "RemoveEventListener(upstreamRequest) in the direct-response branch",
		"processError takes the local reply and leaves the upstream request listening on its stream: a reset of the upstream that is seen while the reply passes the send filters runs the reset handler, which replaces the reply of the filter with its own (and runs the send filters again)")
	c.Check(rule, funcKey(fn)+":pending-reset-dropped", pos, dropped, "a reset flagged since the check is dropped after the detach in the direct-response branch",
		"processError takes the local reply and keeps an upstream reset flagged meanwhile: the next phase check handles it and replaces the reply")
}

// ---------------------------------------------------------------------------------------------------------------------
// C17.R21 (S138, repair bd0cddbcc): xDS retry conditions become what they mean. (a) the converted policy's StatusCodes
// derive from retriable_status_codes; (b) RetryOn is not "retry_on is non-empty" - it comes from a function that looks at
// the individual conditions (compares with the condition names).
func c17XdsRetryConditions(c *Ctx) {
	const rule = "C17.R21"
	c.Rule(rule, "xds: retry_on is converted condition by condition and retriable_status_codes are carried over", 2)
	pkg := "istio/istio1106/xds/conv"
	fn := c.F(pkg, "convertRetryPolicy")
	if fn == nil {
		c.Unresolved(rule, "conv.convertRetryPolicy")
		return
	}
	codes := false
	var onVal ssa.Value
	var pos token.Pos = fn.Pos()
	for _, b := range fn.Blocks {
		for _, in := range b.Instrs {
			st, ok := in.(*ssa.Store)
			if !ok {
				continue
			}
			_, f, _, ok := fieldAddrInfo(st.Addr)
			if !ok {
				continue
			}
			switch f {
			case "StatusCodes":
				if derivesFrom(st.Val, func(v ssa.Value) bool {
					cl, isC := v.(*ssa.Call)
					return isC && methodName(cl.Common()) == "GetRetriableStatusCodes"
				}) {
					codes = true
				}
			case "RetryOn":
				onVal = st.Val
				pos = st.Pos()
			}
		}
	}
	c.Check(rule, funcKey(fn)+":status-codes-carried-over", fn.Pos(), codes, "StatusCodes derives from GetRetriableStatusCodes()",
		"convertRetryPolicy drops retriable_status_codes: \"retriable-status-codes\" with [503] becomes \"retry any 5xx\"")
	byCondition := false
	if onVal != nil {
		// the value comes (through an extract) from a callee of this package that compares strings with the condition names
		derivesFrom(onVal, func(v ssa.Value) bool {
			cl, isC := v.(*ssa.Call)
			if !isC {
				return false
			}
			callee := cl.Common().StaticCallee()
			if callee == nil || callee.Pkg != fn.Pkg {
				return false
			}
			names := map[string]bool{}
			forEachInstr(callee, true, func(_ *ssa.Function, in ssa.Instruction) {
				for _, op := range in.Operands(nil) {
					if *op == nil {
						continue
					}
					if s, ok := constStringVal(*op); ok {
						names[s] = true
					}
				}
			})
			if names["5xx"] && names["gateway-error"] && names["retriable-status-codes"] {
				byCondition = true
			}
			return false
		})
	}
	c.Check(rule, funcKey(fn)+":retry-on-by-condition", pos, byCondition, "RetryOn is computed by a function that distinguishes the xDS conditions",
		"convertRetryPolicy sets retry_on for any non-empty xDS retry_on: \"connect-failure\" becomes \"retry any 5xx, a terminated connection and a per try timeout\" - requests are retried under conditions the configuration did not ask for")
}

// C17.R22 (S139, repair 2059cd31a): the body of an xDS direct response is read from whatever specifier carries it. The
// conversion type-switches over the DataSource specifier; the switch covers every implementation of the specifier
// interface that go-control-plane declares (exhaustiveness over the oneof), so a body given as inline_bytes, file or
// environment variable is not replaced by an empty one.
func c17XdsDirectResponseBodyExhaustive(c *Ctx) {
	const rule = "C17.R22"
	c.Rule(rule, "xds: the direct response body is taken from every kind of DataSource specifier (exhaustive over the oneof)", 1)
	pkg := "istio/istio1106/xds/conv"
	fn := c.F(pkg, "convertDirectResponseAction")
	if fn == nil {
		c.Unresolved(rule, "conv.convertDirectResponseAction")
		return
	}
	// the oneof implementations: named types of the core package called DataSource_*
	var impls []string
	for _, imp := range fn.Pkg.Pkg.Imports() {
		if !strings.HasSuffix(imp.Path(), "envoy/config/core/v3") {
			continue
		}
		for _, n := range imp.Scope().Names() {
			if strings.HasPrefix(n, "DataSource_") {
				if _, ok := imp.Scope().Lookup(n).(*types.TypeName); ok {
					impls = append(impls, n)
				}
			}
		}
	}
	if len(impls) < 3 {
		c.Unresolved(rule, fmt.Sprintf("the DataSource specifier kinds of go-control-plane (found %v)", impls))
		return
	}
	handled := map[string]bool{}
	for f := range staticReach([]*ssa.Function{fn}, pkg) {
		forEachInstr(f, true, func(_ *ssa.Function, in ssa.Instruction) {
			if ta, ok := in.(*ssa.TypeAssert); ok {
				handled[shortTypeName(ta.AssertedType)] = true
			}
			// the generated getters cover one kind each
			if ci, ok := in.(ssa.CallInstruction); ok {
				switch methodName(ci.Common()) {
				case "GetInlineString":
					handled["DataSource_InlineString"] = true
				case "GetInlineBytes":
					handled["DataSource_InlineBytes"] = true
				case "GetFilename":
					handled["DataSource_Filename"] = true
				case "GetEnvironmentVariable":
					handled["DataSource_EnvironmentVariable"] = true
				}
			}
		})
	}
	var missing []string
	for _, n := range impls {
		if !handled[n] && !handled["*"+n] {
			missing = append(missing, n)
		}
	}
	c.Check(rule, funcKey(fn)+":every-specifier-kind-read", fn.Pos(), len(missing) == 0, fmt.Sprintf("all %d specifier kinds handled", len(impls)),
		fmt.Sprintf("convertDirectResponseAction does not read the body from %v: a direct response whose body is given that way is sent with an empty body", missing))
}

// ---------------------------------------------------------------------------------------------------------------------
// C20.R10 (repair ec15a65b9; generalises R6): every raw section of the bootstrap config is redacted. For each field of
// v2.MOSNConfig whose type is json.RawMessage (computed from the type, so a section added later is an obligation too),
// redactedMosnConfig stores into the copy the result of a redactor.
func c20EveryRawSectionRedacted(c *Ctx) {
	const rule = "C20.R10"
	c.Rule(rule, "every raw (json.RawMessage) section of the bootstrap config is passed through the raw-JSON redactor before the dump", 2)
	fn := c.F("pkg/configmanager", "redactedMosnConfig")
	named := c.Named("pkg/config/v2", "MOSNConfig")
	if fn == nil || named == nil {
		c.Unresolved(rule, "configmanager.redactedMosnConfig / v2.MOSNConfig")
		return
	}
	// raw sections that have no schema position for a tls context (one line of reason each); a raw field in neither
	// table is an obligation like the others, so a section added later must be redacted or entered here
	noKeys := map[string]string{
		"Node": "the xDS node identity (id, cluster, locality, free-form metadata): no typed position for a private key; free-form metadata is outside the claim like every untyped filter config",
	}
	st := derefStruct(named)
	for i := 0; st != nil && i < st.NumFields(); i++ {
		f := st.Field(i)
		if !strings.HasSuffix(f.Type().String(), "json.RawMessage") {
			continue
		}
		if why, ok := noKeys[f.Name()]; ok {
			c.Pass(rule, funcKey(fn)+":raw-section-redacted:"+f.Name(), f.Pos(), "frozen exception: "+why)
			continue
		}
		ok := false
		var pos token.Pos = fn.Pos()
		for _, s := range storesToField(fn, "MOSNConfig", f.Name(), false) {
			if call, isC := s.Val.(*ssa.Call); isC {
				if callee := call.Common().StaticCallee(); callee != nil && strings.Contains(strings.ToLower(callee.Name()), "redact") {
					ok = true
					pos = s.Pos()
				}
			}
		}
		c.Check(rule, funcKey(fn)+":raw-section-redacted:"+f.Name(), pos, ok, f.Name()+" of the redacted config is the result of a redactor",
			"redactedMosnConfig passes the raw section "+f.Name()+" through as it is: an inline private key inside it (the ssl channel credentials of a google_grpc service in dynamic_resources, a transport socket in static_resources) is printed by the admin dump")
	}
}

// ---------------------------------------------------------------------------------------------------------------------
// C03.R21 (side note of the agent that reproduced repair 126; repair 129): a global timeout that has fired ends the
// request whatever happens to the reset it delivers. upstreamRequest.OnResetStream drops every reset while a retry is
// being set up, and an upstream reset that is already flagged hides a second one; the timeout therefore also raises a
// flag of its own that nothing lowers, and doRetry looks at it after its interval: no further attempt, the reset is
// flagged (again) so that the check behind the retry phase answers. Without it the request of the retry window waits
// for ever: no attempt is open and the timer has fired.
func c03FiredTimeoutIsSticky(c *Ctx, rule string) {
	c.Rule(rule, "a fired global timeout is remembered in a flag nothing lowers, and doRetry reads it before it opens an attempt", 3)
	pkg := "pkg/proxy"
	to := c.M(pkg, "downStream", "onResponseTimeout")
	dr := c.M(pkg, "downStream", "doRetry")
	if to == nil || dr == nil {
		c.Unresolved(rule, "downStream.onResponseTimeout / doRetry")
		return
	}
	atomicStoreTo := func(fn *ssa.Function, val int64) map[string]ssa.Instruction {
		out := map[string]ssa.Instruction{}
		for _, cs := range callsIn(fn, true, func(cc *ssa.CallCommon) bool { return strings.HasSuffix(calleeName(cc), "atomic.StoreUint32") }) {
			a := cs.Instr.Common().Args
			t, f, _, ok := fieldAddrInfo(a[0])
			k, isK := constInt(a[1])
			if ok && isK && k == val && strings.HasSuffix(t, "downStream") {
				out[f] = cs.Instr
			}
		}
		return out
	}
	raised := atomicStoreTo(to, 1)
	// sticky: no function of the package lowers it
	lowered := map[string]bool{}
	for _, fn := range c.PkgFuncs(pkg) {
		for f := range atomicStoreTo(fn, 0) {
			lowered[f] = true
		}
		for _, cs := range callsIn(fn, true, func(cc *ssa.CallCommon) bool { return strings.HasSuffix(calleeName(cc), "atomic.CompareAndSwapUint32") }) {
			a := cs.Instr.Common().Args
			if _, f, _, ok := fieldAddrInfo(a[0]); ok {
				if k, isK := constInt(a[2]); isK && k == 0 {
					lowered[f] = true
				}
			}
		}
	}
	flag := ""
	for f, in := range raised {
		if lowered[f] {
			continue
		}
		// raised before the reset is delivered
		before := true
		for _, cs := range callsIn(to, false, calledAs("OnResetStream")) {
			if !instrDominates(in, cs.Instr) {
				before = false
			}
		}
		if before {
			flag = f
		}
	}
	c.Check(rule, funcKey(to)+":timeout-raises-a-sticky-flag", to.Pos(), flag != "", "onResponseTimeout stores 1 into downStream."+flag+", which nothing in the package lowers, before it delivers the reset",
		"the global timeout leaves no trace but the reset it delivers through upstreamRequest.OnResetStream - which returns at once while a retry is being set up, and does nothing when an upstream reset is flagged already: a timeout that fires in the retry window is lost, the retry finds the response mark taken and opens no attempt, and the request waits for a notify that never comes")
	if flag == "" {
		c.Fail(rule, funcKey(dr)+":flag-read-after-the-interval", dr.Pos(), "no sticky timeout flag to read")
		c.Fail(rule, funcKey(dr)+":timed-out-retry-flags-the-reset", dr.Pos(), "no sticky timeout flag to read")
		return
	}
	var load ssa.Instruction
	sleeps := callsIn(dr, false, func(cc *ssa.CallCommon) bool { return calleeName(cc) == "time.Sleep" })
	for _, cs := range callsIn(dr, false, func(cc *ssa.CallCommon) bool {
		if !strings.HasSuffix(calleeName(cc), "atomic.LoadUint32") || len(cc.Args) == 0 {
			return false
		}
		_, f, _, ok := fieldAddrInfo(cc.Args[0])
		return ok && f == flag
	}) {
		after := true
		for _, sl := range sleeps {
			if !instrDominates(sl.Instr, cs.Instr) {
				after = false
			}
		}
		if after {
			load = cs.Instr
		}
	}
	c.Check(rule, funcKey(dr)+":flag-read-after-the-interval", dr.Pos(), load != nil, "doRetry loads downStream."+flag+" after its interval",
		"doRetry does not look at the timeout flag after its interval: a timeout whose reset was dropped while the retry was set up is never answered")
	ok := false
	if load != nil {
		for _, cs := range callsIn(dr, false, func(cc *ssa.CallCommon) bool {
			if !strings.HasSuffix(calleeName(cc), "atomic.StoreUint32") || len(cc.Args) == 0 {
				return false
			}
			_, f, _, isF := fieldAddrInfo(cc.Args[0])
			return isF && f == "upstreamReset"
		}) {
			for _, g := range guardsAt(cs.Instr.Block()) {
				if derivesFrom(g.Cond, func(v ssa.Value) bool { return v == load.(ssa.Value) }) {
					// and no attempt is opened on that edge
					if existsPath(dr, cs.Instr, func(x ssa.Instruction) bool {
						ci, isC := x.(ssa.CallInstruction)
						return isC && (methodName(ci.Common()) == "initializeUpstreamConnectionPool" || methodName(ci.Common()) == "appendHeaders")
					}, nil) == nil {
						ok = true
					}
				}
			}
		}
	}
	c.Check(rule, funcKey(dr)+":timed-out-retry-flags-the-reset", dr.Pos(), ok, "on the timed-out edge doRetry flags upstreamReset and opens no attempt",
		"doRetry sees that the request has timed out and neither flags the reset nor refrains from the attempt: the check behind the retry phase finds nothing to answer")
}
