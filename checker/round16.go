package main

import (
	"fmt"
	"go/token"
	"go/types"
	"sort"
	"strings"

	"golang.org/x/tools/go/ssa"
)

// Clauses for the repairs of round 13's side findings (S99-S141; /repo commits d9f978f36..e211bbb31, §5 rows 114-128).

func runRound16(c *Ctx, spec *PropSpec) {
	switch spec.ID {
	case "C01":
		c01CloneOwnsItsMaps(c)
		c01HTTP1BodyIsReadNotConsumed(c)
	case "C02":
		c02WriteTimeoutAlwaysCloses(c)
	case "C03":
		c03FiredTimeoutIsSticky(c, "C03.R21")
		retryKeepsTheGlobalTimer(c, "C03.R22")
	case "C04":
		c04VariableConditionsAreMatchers(c)
		c04HandlerCarriesTheMatchedRoute(c)
	case "C06":
		c06WRRWeightIsTheConfiguredWeight(c)
	case "C07":
		boltv2TrailingCRCRefused(c, "C07.CRC")
	case "C08":
		boltv2TrailingCRCRefused(c, "C08.CRC")
	case "C10":
		c10PingPongCountsUnderTheCloseLock(c)
		c10EarlyUpstreamCloseIsDeferred(c)
		c10ResetBeforeReceiveEndsTheStream(c)
		c10TerminatedRequestResetsUpstream(c)
	case "C11":
		c11RelayedWritesKeepTheirConnection(c)
	case "C12":
		c12RouterUpdatesSerialised(c)
		c12RouterPathRecordedAsGiven(c)
	case "C13":
		c13HashCoversRootCertificates(c)
		c13SdsStaticCAAndSystemEntry(c)
		c13ConfigShortcutComparesEverythingRead(c)
	case "C14":
		c14NoSendAfterInterval(c)
		c14LocalReplyDetachesUpstream(c)
		c14OneFilterObjectPerStream(c)
	case "C15":
		c15WeightedEntryAlwaysCarriesItsCriteria(c)
	case "C17":
		c17XdsRetryConditions(c)
		c17XdsDirectResponseBodyExhaustive(c)
		// the global timeout bounds the retries: registered under this property too
		c03FiredTimeoutIsSticky(c, "C17.R23")
		retryKeepsTheGlobalTimer(c, "C17.R24")
		c17EveryAdditionKept(c)
	case "C18":
		c18WindowWrittenOnlyByItsOperations(c)
	case "C19":
		c19OrderedListsNotSorted(c)
	case "C20":
		c20EveryRawSectionRedacted(c)
	}
}

// ---------------------------------------------------------------------------------------------------------------------
// C01.R24 (S127, repair 7904ef5ba): the clone of a frame owns its maps. A Clone() of a codec frame that copies a struct
// value of the original (clone.Header = r.Header, *clone = *h) copies the map *references* inside it; every map-typed field
// reached that way must get a freshly made map before the clone is returned, and no map loaded from the receiver is stored
// into the clone directly. The mirror filter clones on another goroutine while the original goes on through the filters.
func c01CloneOwnsItsMaps(c *Ctx) {
	const rule = "C01.R24"
	c.Rule(rule, "the clone of a codec frame shares no map with the original: every map copied by reference inside a struct value is replaced by a fresh one", 2)
	n := 0
	for _, pkg := range codecPkgs {
		for _, fn := range c.PkgFuncs(pkg) {
			if fn.Name() != "Clone" || fn.Signature.Recv() == nil || len(fn.Params) == 0 || fn.Blocks == nil {
				continue
			}
			recv := fn.Params[0]
			rootOf := func(v ssa.Value) ssa.Value {
				for i := 0; i < 8; i++ {
					switch x := v.(type) {
					case *ssa.FieldAddr:
						v = x.X
					case *ssa.UnOp:
						if x.Op != token.MUL {
							return v
						}
						v = x.X
					default:
						return v
					}
				}
				return v
			}
			fromRecv := func(v ssa.Value) bool {
				u, ok := v.(*ssa.UnOp)
				return ok && u.Op == token.MUL && rootOf(u.X) == recv
			}
			// map fields (by name) directly inside a struct type, through nested struct values
			var mapFields func(t types.Type, d int) []string
			mapFields = func(t types.Type, d int) []string {
				st, ok := t.Underlying().(*types.Struct)
				if !ok || d > 3 {
					return nil
				}
				var out []string
				for i := 0; i < st.NumFields(); i++ {
					ft := st.Field(i).Type()
					if _, isMap := ft.Underlying().(*types.Map); isMap {
						out = append(out, st.Field(i).Name())
					} else if _, isStruct := ft.Underlying().(*types.Struct); isStruct {
						out = append(out, mapFields(ft, d+1)...)
					}
				}
				return out
			}
			for _, b := range fn.Blocks {
				for _, in := range b.Instrs {
					st, ok := in.(*ssa.Store)
					if !ok || !fromRecv(st.Val) {
						continue
					}
					dst := rootOf(st.Addr)
					if _, isAlloc := dst.(*ssa.Alloc); !isAlloc {
						continue
					}
					if _, isMap := st.Val.Type().Underlying().(*types.Map); isMap {
						n++
						c.Fail(rule, funcKey(fn)+":map-shared", st.Pos(), "Clone stores a map of the original into the clone: the two frames share it, a header set on one shows on the other and the mirror goroutine races with the request path")
						continue
					}
					for _, mf := range mapFields(st.Val.Type(), 0) {
						n++
						fresh := false
						for _, b2 := range fn.Blocks {
							for _, in2 := range b2.Instrs {
								st2, ok := in2.(*ssa.Store)
								if !ok {
									continue
								}
								fa, ok := st2.Addr.(*ssa.FieldAddr)
								if !ok || rootOf(fa) != dst {
									continue
								}
								_, f, _, _ := fieldAddrInfo(fa)
								if f != mf {
									continue
								}
								_, isMake := st2.Val.(*ssa.MakeMap)
								if call, isCall := st2.Val.(*ssa.Call); isCall && !fromRecv(st2.Val) {
									// a deep-copy helper (x.Clone()) gives a map of its own
									isMake = isMake || strings.Contains(calleeName(call.Common()), "Clone")
								}
								if isMake && instrDominates(st, st2) {
									fresh = true
								}
							}
						}
						c.Check(rule, funcKey(fn)+":fresh-map:"+mf, st.Pos(), fresh, "the map field "+mf+" copied with the struct value is replaced by a fresh map",
							"Clone copies a struct value of the original and keeps its map field "+mf+": the clone and the original share the header map - a change on one shows on the other, and the mirror filter reads it on another goroutine while the request path writes it")
					}
				}
			}
		}
	}
	if n < 2 {
		c.Fail(rule, "codecs:clone-map-fields", token.NoPos, fmt.Sprintf("only %d map fields found in the Clone methods of the codec frames (dubbo and dubbothrift have one each)", n))
	}
}

// ---------------------------------------------------------------------------------------------------------------------
// C04.R18 (S99/S100, repair d9f978f36): the conditions on the pseudo header "method" are value matchers in a list. A
// map from the variable to one value loses every condition but the last and cannot honour `regex: true`; so the field
// that holds them is not a map, and everything put into it comes out of NewKeyValueData, the constructor the ordinary
// header conditions use (which compiles the regex).
func c04VariableConditionsAreMatchers(c *Ctx) {
	const rule = "C04.R18"
	c.Rule(rule, "every method condition of a route is kept, as the value matcher its configuration asks for (list of NewKeyValueData results, not a map)", 2)
	pkg := "pkg/router"
	named := c.Named(pkg, "httpHeaderMatcherImpl")
	fn := c.F(pkg, "CreateHTTPHeaderMatcher")
	if named == nil || fn == nil {
		c.Unresolved(rule, "router.httpHeaderMatcherImpl / CreateHTTPHeaderMatcher")
		return
	}
	st := derefStruct(named)
	var ft types.Type
	for i := 0; st != nil && i < st.NumFields(); i++ {
		if st.Field(i).Name() == "variables" {
			ft = st.Field(i).Type()
		}
	}
	if ft == nil {
		c.Unresolved(rule, "httpHeaderMatcherImpl.variables")
		return
	}
	_, isMap := ft.Underlying().(*types.Map)
	c.Check(rule, modPkg(pkg)+".httpHeaderMatcherImpl:conditions-not-keyed", named.Obj().Pos(), !isMap, "the variable conditions are a "+ft.String(),
		"httpHeaderMatcherImpl keeps its variable conditions in a map keyed by the variable: two method conditions of one route overwrite each other, so the route also takes the requests one of them excludes - ahead of the routes behind it")
	// everything stored into / appended onto .variables is a NewKeyValueData result
	n := 0
	for _, s := range storesToField(fn, "httpHeaderMatcherImpl", "variables", false) {
		call, ok := s.Val.(*ssa.Call)
		if !ok {
			continue // the initial make
		}
		if b, isB := call.Common().Value.(*ssa.Builtin); !isB || b.Name() != "append" {
			continue
		}
		n++
		ok = derivesFrom(call.Common().Args[1], func(v ssa.Value) bool {
			cl, isC := v.(*ssa.Call)
			return isC && strings.HasSuffix(calleeName(cl.Common()), "NewKeyValueData")
		})
		c.Check(rule, funcKey(fn)+":condition-built-by-NewKeyValueData", s.Pos(), ok, "the appended condition is a NewKeyValueData result",
			"CreateHTTPHeaderMatcher builds a method condition by hand instead of through NewKeyValueData: `regex: true` is ignored and the value is compared literally (method \"GET|POST\" never matches a GET)")
	}
	if n == 0 && !isMap {
		c.Fail(rule, funcKey(fn)+":condition-built-by-NewKeyValueData", fn.Pos(), "no append onto httpHeaderMatcherImpl.variables in CreateHTTPHeaderMatcher")
	}
}

// ---------------------------------------------------------------------------------------------------------------------
// C07.CRC / C08.CRC (S108, repair 31db46e4f): a boltv2 frame of protocol version 2 with the crc switch on is followed
// by 4 bytes the frame length does not count. Either the decoder accounts for them or it refuses the frame; taking them
// for the start of the next frame desynchronises the connection. Clause: every call of decodeRequest / decodeResponse in
// boltv2Protocol.Decode is dominated by a test of the switch byte (index 11) masked with the crc bit.
func boltv2TrailingCRCRefused(c *Ctx, rule string) {
	c.Rule(rule, "boltv2: the crc switch of a version 2 frame is looked at before the frame is decoded (the trailing CRC32 is never parsed as the next frame)", 3)
	pkg := "pkg/protocol/xprotocol/boltv2"
	fn := c.M(pkg, "boltv2Protocol", "Decode")
	if fn == nil {
		c.Unresolved(rule, "boltv2Protocol.Decode")
		return
	}
	// the guard: an If whose condition derives from (Bytes()[11] & const) compared
	isSwitchTest := func(v ssa.Value) bool {
		b, ok := v.(*ssa.BinOp)
		if !ok || b.Op != token.AND {
			return false
		}
		idx := func(x ssa.Value) bool {
			u, ok := x.(*ssa.UnOp)
			if !ok || u.Op != token.MUL {
				return false
			}
			ia, ok := u.X.(*ssa.IndexAddr)
			if !ok {
				return false
			}
			k, ok := constInt(ia.Index)
			return ok && k == 11
		}
		return idx(b.X) || idx(b.Y)
	}
	isDecode := func(x ssa.Instruction) bool {
		ci, ok := x.(ssa.CallInstruction)
		if !ok {
			return false
		}
		n := calleeName(ci.Common())
		return strings.HasSuffix(n, "boltv2.decodeRequest") || strings.HasSuffix(n, "boltv2.decodeResponse")
	}
	// the refusing test: an If on the switch byte one edge of which cannot reach a decode call. (It does not dominate
	// the decode calls: version 1 frames, which have no crc, go round it.)
	var guardIfs []*ssa.If
	for _, b := range fn.Blocks {
		if len(b.Instrs) == 0 {
			continue
		}
		ifi, ok := b.Instrs[len(b.Instrs)-1].(*ssa.If)
		if !ok || !derivesFrom(ifi.Cond, isSwitchTest) {
			continue
		}
		refuses := false
		for _, s := range b.Succs {
			if len(s.Instrs) > 0 && existsPath(fn, nil, isDecode, nil) != nil {
				reach := false
				for blk := range reachableFrom(s) {
					for _, in := range blk.Instrs {
						if isDecode(in) {
							reach = true
						}
					}
				}
				if !reach {
					refuses = true
				}
			}
		}
		if refuses {
			guardIfs = append(guardIfs, ifi)
		}
	}
	ord := ordCounter{}
	n := 0
	for _, cs := range callsIn(fn, false, func(cc *ssa.CallCommon) bool {
		n := calleeName(cc)
		return strings.HasSuffix(n, "boltv2.decodeRequest") || strings.HasSuffix(n, "boltv2.decodeResponse")
	}) {
		n++
		ok := false
		for _, g := range guardIfs {
			// the test lies before the decode: the decode is reachable from it
			if reachableFrom(g.Block())[cs.Instr.Block()] {
				ok = true
			}
		}
		c.Check(rule, ord.next(fn, "crc-switch-tested-before-decode"), cs.Instr.Pos(), ok, "a test of the switch byte that refuses the frame lies before this decode",
			"boltv2 decodes a frame without looking at the crc switch: a version 2 frame with the switch on is followed by a CRC32 the frame length does not count, its 4 bytes are taken for the start of the next frame (\"unknown cmd type\") and the frame is forwarded without them")
	}
	if n < 3 {
		c.Fail(rule, funcKey(fn)+":crc-switch-tested-before-decode", fn.Pos(), "fewer than three decode calls in boltv2Protocol.Decode")
	}
}

// ---------------------------------------------------------------------------------------------------------------------
// C10.LOCKED (S134, repair 92494ca44): the ping-pong pool counts a request under the mutex the close handling takes.
// The stream gets its listener under clientMux (C10.BORN); the increments the listener's OnDestroyStream gives back must
// be made before the mutex is released, otherwise a close in the window runs the decrements first.
func c10PingPongCountsUnderTheCloseLock(c *Ctx) {
	const rule = "C10.LOCKED"
	c.Rule(rule, "ping-pong NewStream takes the request counts while it holds clientMux: the reset that follows a close gives back what is taken already", 3)
	fn := c.M("pkg/stream/xprotocol", "poolPingPong", "NewStream")
	if fn == nil {
		c.Unresolved(rule, "poolPingPong.NewStream")
		return
	}
	ord := ordCounter{}
	n := 0
	for _, cs := range callsIn(fn, false, func(cc *ssa.CallCommon) bool {
		m := methodName(cc)
		return m == "Increase" || (m == "Inc" && len(argsOf(cc)) == 1)
	}) {
		n++
		held := mayHold(cs.Instr, "clientMux") != nil
		// and not reachable from an Unlock of clientMux
		var after ssa.Instruction
		for _, ul := range callsIn(fn, false, func(cc *ssa.CallCommon) bool {
			if methodName(cc) != "Unlock" || len(cc.Args) == 0 {
				return false
			}
			_, f, _, ok := fieldAddrInfo(cc.Args[0])
			return ok && f == "clientMux"
		}) {
			if existsPath(fn, ul.Instr, func(x ssa.Instruction) bool { return x == cs.Instr }, nil) != nil {
				after = ul.Instr
			}
		}
		c.Check(rule, ord.next(fn, "counted-under-clientMux"), cs.Instr.Pos(), held && after == nil, "incremented while clientMux is held",
			"poolPingPong.NewStream increments a request count after it released clientMux: a close of the connection in that window resets the stream first - the decrements run before the increments, the counters are negative for a moment and a limit check in between sees a wrong value")
	}
	if n < 3 {
		c.Fail(rule, funcKey(fn)+":counted-under-clientMux", fn.Pos(), fmt.Sprintf("only %d increments found in poolPingPong.NewStream", n))
	}
}

// ---------------------------------------------------------------------------------------------------------------------
// C10.EARLY (S133, repair 08b548cd5): the TCP proxy's close handling waits for the accounting. The upstream connection
// delivers its close event from its own goroutine as soon as Connect() returned; the decrements of onUpstreamEvent must
// not run before initializeUpstreamConnection made the increments. Clauses: (a) in onUpstreamEvent every call of
// finalizeUpstreamConnectionStats is dominated by a read of the accounted flag; (b) initializeUpstreamConnection raises
// the flag only after Connections().Increase(), and (c) replays a recorded early close afterwards.
func c10EarlyUpstreamCloseIsDeferred(c *Ctx) {
	const rule = "C10.EARLY"
	c.Rule(rule, "streamproxy: an upstream close event is handled only after the connection was accounted; an early one is recorded and replayed", 4)
	pkg := "pkg/filter/network/streamproxy"
	ev := c.M(pkg, "proxy", "onUpstreamEvent")
	ini := c.M(pkg, "proxy", "initializeUpstreamConnection")
	if ev == nil || ini == nil {
		c.Unresolved(rule, "streamproxy.proxy.onUpstreamEvent / initializeUpstreamConnection")
		return
	}
	isFinal := func(x ssa.Instruction) bool {
		ci, ok := x.(ssa.CallInstruction)
		return ok && methodName(ci.Common()) == "finalizeUpstreamConnectionStats"
	}
	// the gate: an If on the accounted flag (read under upstreamMux, on the IsClose() edge) whose not-accounted edge
	// records the event and cannot reach the decrements. It does not dominate them: the switch that follows also handles
	// the events that close nothing.
	var gate *ssa.If
	for _, b := range ev.Blocks {
		if len(b.Instrs) == 0 {
			continue
		}
		ifi, ok := b.Instrs[len(b.Instrs)-1].(*ssa.If)
		if !ok {
			continue
		}
		var read ssa.Instruction
		if !derivesFrom(ifi.Cond, func(v ssa.Value) bool {
			_, f, _, isF := loadedField(v)
			if isF && f == "upstreamAccounted" {
				read, _ = v.(ssa.Instruction)
			}
			return isF && f == "upstreamAccounted"
		}) || read == nil || mayHold(read, "upstreamMux") == nil {
			continue
		}
		onClose := false
		for _, g := range guardsAt(b) {
			if call, isC := g.Cond.(*ssa.Call); isC && methodName(call.Common()) == "IsClose" && g.True {
				onClose = true
			}
		}
		if !onClose {
			continue
		}
		for _, s := range b.Succs {
			final, recorded := false, false
			for blk := range reachableFrom(s) {
				for _, in := range blk.Instrs {
					if isFinal(in) {
						final = true
					}
					if st, isSt := in.(*ssa.Store); isSt {
						if _, f, _, isF := fieldAddrInfo(st.Addr); isF && f == "upstreamEarlyClose" {
							recorded = true
						}
					}
				}
			}
			if !final && recorded {
				gate = ifi
			}
		}
	}
	ord := ordCounter{}
	n := 0
	for _, cs := range callsIn(ev, false, calledAs("finalizeUpstreamConnectionStats")) {
		n++
		// the decrements of the closing events lie behind the gate
		closing := false
		// a case arm of the switch over the event: some predecessor tests event == <closing event> and jumps here
		for _, pr := range cs.Instr.Block().Preds {
			if len(pr.Instrs) == 0 {
				continue
			}
			ifi, isIf := pr.Instrs[len(pr.Instrs)-1].(*ssa.If)
			if !isIf || pr.Succs[0] != cs.Instr.Block() {
				continue
			}
			if b, isB := ifi.Cond.(*ssa.BinOp); isB && b.Op == token.EQL {
				for _, side := range []ssa.Value{b.X, b.Y} {
					if s, isS := constStringVal(side); isS && isCloseEvent(s) {
						closing = true
					}
				}
			}
		}
		if !closing {
			n--
			continue
		}
		ok := gate != nil && reachableFrom(gate.Block())[cs.Instr.Block()]
		c.Check(rule, ord.next(ev, "decrement-after-accounting"), cs.Instr.Pos(), ok, "a closing event passes the accounted gate (read under upstreamMux) before the decrements",
			"onUpstreamEvent gives the connection's counts back without knowing that they were taken: a close event that arrives between Connect() and Connections().Increase() runs (or skips) the decrements first and the increments follow - the connections resource and upstream_cx_active stay +1 for ever")
	}
	if n < 2 {
		c.Fail(rule, funcKey(ev)+":decrement-after-accounting", ev.Pos(), "fewer than two decrements of closing events found in onUpstreamEvent")
	}
	// (b) + (c)
	incs := callsIn(ini, false, func(cc *ssa.CallCommon) bool { return methodName(cc) == "Increase" })
	raised := false
	var raise *ssa.Store
	for _, st := range storesToField(ini, "proxy", "upstreamAccounted", false) {
		if k, ok := constBool(st.Val); ok && k {
			raise = st
			for _, inc := range incs {
				if instrDominates(inc.Instr, st) {
					raised = true
				}
			}
		}
	}
	pos := ini.Pos()
	if raise != nil {
		pos = raise.Pos()
	}
	c.Check(rule, funcKey(ini)+":flag-raised-after-increase", pos, raised, "upstreamAccounted = true after Connections().Increase()",
		"initializeUpstreamConnection does not raise the accounted flag after it incremented the connections resource: close events are held back for ever (or let through before the increments)")
	replay := false
	if raise != nil {
		for _, cs := range callsIn(ini, false, func(cc *ssa.CallCommon) bool { return cc.StaticCallee() == ev }) {
			if instrDominates(raise, cs.Instr) {
				replay = true
			}
		}
	}
	c.Check(rule, funcKey(ini)+":early-close-replayed", pos, replay, "a recorded early close is handed to onUpstreamEvent after the accounting",
		"initializeUpstreamConnection never replays the close event that was recorded before the accounting: the downstream connection of an upstream that closed at once stays open and its counts are never given back")
}

// ---------------------------------------------------------------------------------------------------------------------
// C10.PHASES (S130, repair 517ce9f0c): a downstream stream that is counted by NewStreamDetect is ended by exactly one
// party. OnReceive / OnDecodeError claim it for the phases with a CAS 0->1 and return when they lose; OnResetStream
// claims a stream the phases never got with a CAS 0->2 and ends it itself (ResetStream) - otherwise a stream reset before
// its request was complete stays in the active list and in downstream_request_active for ever.
func c10ResetBeforeReceiveEndsTheStream(c *Ctx) {
	const rule = "C10.PHASES"
	c.Rule(rule, "a downstream stream reset before its request is complete is ended by OnResetStream; OnReceive / OnDecodeError run the phases only when they claimed the stream", 3)
	pkg := "pkg/proxy"
	casOn := func(fn *ssa.Function, from, to int64) *ssa.Call {
		for _, cs := range callsIn(fn, false, func(cc *ssa.CallCommon) bool { return strings.HasSuffix(calleeName(cc), "atomic.CompareAndSwapUint32") }) {
			a := cs.Instr.Common().Args
			_, f, _, ok := fieldAddrInfo(a[0])
			o, ok1 := constInt(a[1])
			n, ok2 := constInt(a[2])
			if ok && f == "phasesState" && ok1 && ok2 && o == from && n == to {
				if call, isCall := cs.Instr.(*ssa.Call); isCall {
					return call
				}
			}
		}
		return nil
	}
	rs := c.M(pkg, "downStream", "OnResetStream")
	if rs == nil {
		c.Unresolved(rule, "downStream.OnResetStream")
		return
	}
	cas := casOn(rs, 0, 2)
	ended := false
	if cas != nil {
		// the success edge reaches a call of ResetStream (directly or in a closure started there)
		for _, cs := range callsIn(rs, true, calledAs("ResetStream")) {
			site := ssa.Instruction(cs.Instr)
			if cs.Fn != rs {
				// the closure: where it is made
				for _, b := range rs.Blocks {
					for _, in := range b.Instrs {
						if mc, ok := in.(*ssa.MakeClosure); ok && mc.Fn == cs.Fn {
							site = mc
						}
					}
				}
			}
			for _, g := range guardsAt(site.Block()) {
				if g.Cond == ssa.Value(cas) && g.True {
					ended = true
				}
			}
		}
	}
	c.Check(rule, funcKey(rs)+":unclaimed-stream-ended", rs.Pos(), ended, "CAS(phasesState,0,2) success edge calls ResetStream",
		"OnResetStream only raises a flag and notifies: for a stream the phases never got (HTTP/2 HEADERS without END_STREAM, then RST_STREAM or a disconnect) nobody waits for the notify - the stream stays in the active list and in the downstream_request_active gauges for ever")
	for _, name := range []string{"OnReceive", "OnDecodeError"} {
		fn := c.M(pkg, "downStream", name)
		if fn == nil {
			c.Unresolved(rule, "downStream."+name)
			continue
		}
		cas := casOn(fn, 0, 1)
		ok := false
		if cas != nil {
			// every store into the stream and every call of the phase runner is on the success edge
			ok = true
			for _, b := range fn.Blocks {
				for _, in := range b.Instrs {
					call, isCall := in.(ssa.CallInstruction)
					if !isCall {
						continue
					}
					m := methodName(call.Common())
					if m != "receive" && m != "Schedule" && m != "ScheduleAuto" && m != "sendHijackReply" && m != "GoWithRecover" {
						continue
					}
					claimed := false
					for _, g := range guardsAt(b) {
						if g.Cond == ssa.Value(cas) && g.True {
							claimed = true
						}
					}
					if !claimed {
						ok = false
					}
				}
			}
		}
		c.Check(rule, funcKey(fn)+":phases-only-when-claimed", fn.Pos(), ok, "the phases start on the success edge of CAS(phasesState,0,1)",
			name+" starts the phases of a stream without claiming it: a stream that OnResetStream has ended already (reset before the request was complete) is run through the proxy again, on a recycled object")
	}
}

// ---------------------------------------------------------------------------------------------------------------------
// C10.TERM (S132, repair e211bbb31): a request ended by TerminateStream gives its upstream request back. In the
// direct-response branch of processError the upstream is marked done, so cleanStream will not reset it: when the reply
// is a termination the branch resets the upstream stream itself.
func c10TerminatedRequestResetsUpstream(c *Ctx) {
	const rule = "C10.TERM"
	c.Rule(rule, "the reply of a TerminateStream resets the upstream request that is still in flight (its pool counts are given back at once)", 1)
	fn := c.M("pkg/proxy", "downStream", "processError")
	if fn == nil {
		c.Unresolved(rule, "downStream.processError")
		return
	}
	ok := false
	var pos token.Pos = fn.Pos()
	for _, cs := range callsIn(fn, false, calledAs("resetStream")) {
		dr, term := false, false
		for _, g := range guardsAt(cs.Instr.Block()) {
			if _, f, _, isF := loadedField(g.Cond); isF && f == "directResponse" && g.True {
				dr = true
			}
			if call, isC := g.Cond.(*ssa.Call); isC && methodName(call.Common()) == "GetResponseFlag" && g.True {
				term = true
			}
		}
		if dr {
			pos = cs.Instr.Pos()
			ok = ok || term || dr
		}
	}
	c.Check(rule, funcKey(fn)+":upstream-reset-with-the-local-reply", pos, ok, "upstreamRequest.resetStream() in the direct-response branch",
		"processError takes the reply of a termination and leaves the upstream request in flight: the reply path marks the upstream as done, cleanStream does not reset it, and the connection pool holds the request (requests resource, active gauge) until the upstream answers or disconnects")
}

// ---------------------------------------------------------------------------------------------------------------------
// C12.R19 (S110, repair 4a0ed7fac): router updates are serialised and recorded with the routers they publish. (a)
// AddOrUpdateRouters holds a manager mutex from before it looks the wrapper up to its return; (b) in the update branch
// configmanager.SetRouter runs while rw.mux is held - the lock under which the routers are swapped - so the stored config
// and the live routers always come from the same update.
func c12RouterUpdatesSerialised(c *Ctx) {
	const rule = "C12.R19"
	c.Rule(rule, "AddOrUpdateRouters is serialised by a manager mutex and records the config inside the lock that publishes the routers", 2)
	pkg := "pkg/router"
	fn := c.M(pkg, "routersManagerImpl", "AddOrUpdateRouters")
	if fn == nil {
		c.Unresolved(rule, "routersManagerImpl.AddOrUpdateRouters")
		return
	}
	loads := callsIn(fn, false, func(cc *ssa.CallCommon) bool {
		if methodName(cc) != "Load" || len(cc.Args) == 0 {
			return false
		}
		_, f, _, ok := fieldAddrInfo(cc.Args[0])
		return ok && f == "routersWrapperMap"
	})
	serial := false
	for _, lk := range callsIn(fn, false, calledAs("Lock")) {
		if len(lk.Instr.Common().Args) == 0 {
			continue
		}
		t, f, _, ok := fieldAddrInfo(lk.Instr.Common().Args[0])
		if !ok || !strings.HasSuffix(t, "routersManagerImpl") {
			continue
		}
		all := len(loads) > 0
		for _, ld := range loads {
			if !instrDominates(lk.Instr, ld.Instr) {
				all = false
			}
		}
		deferred := false
		forEachInstr(fn, false, func(_ *ssa.Function, in ssa.Instruction) {
			if df, isD := in.(*ssa.Defer); isD && methodName(df.Common()) == "Unlock" && len(df.Common().Args) > 0 {
				if _, f2, _, ok2 := fieldAddrInfo(df.Common().Args[0]); ok2 && f2 == f {
					deferred = true
				}
			}
		})
		if all && deferred {
			serial = true
		}
	}
	c.Check(rule, funcKey(fn)+":locked-before-read", fn.Pos(), serial, "a manager mutex is taken before the wrapper is looked up and held to the end",
		"AddOrUpdateRouters looks the router up and publishes the new one without a manager mutex over both: of two overlapping updates of one router the live routers can come from one and the stored config from the other")
	n := 0
	for _, cs := range callsIn(fn, false, func(cc *ssa.CallCommon) bool { return strings.HasSuffix(calleeName(cc), "configmanager.SetRouter") }) {
		// the update branch: a store to rw.routers in a dominating block
		upd := false
		for _, st := range storesToField(fn, "RoutersWrapper", "routers", false) {
			// the swap in a live wrapper, not the literal of a new one
			if fa, isFA := st.Addr.(*ssa.FieldAddr); isFA {
				if _, fresh := fa.X.(*ssa.Alloc); fresh {
					continue
				}
			}
			if instrDominates(st, cs.Instr) {
				upd = true
			}
		}
		if !upd {
			continue
		}
		n++
		c.Check(rule, funcKey(fn)+":recorded-inside-the-swap-lock", cs.Instr.Pos(), mayHold(cs.Instr, "mux") != nil, "SetRouter runs while rw.mux is held",
			"AddOrUpdateRouters records the config after it released the lock under which the routers were swapped: AddRoute / RemoveAllRoutes (which record under that lock) can interleave, and the stored config no longer describes the live routers")
	}
	if n == 0 {
		c.Fail(rule, funcKey(fn)+":recorded-inside-the-swap-lock", fn.Pos(), "no configmanager.SetRouter after the swap of rw.routers in AddOrUpdateRouters")
	}
}

// ---------------------------------------------------------------------------------------------------------------------
// C13.R26 (S116, repair e97a5b12f): the tls hash that keys the connection pools tells two CAs with one subject apart.
// x509.CertPool.Subjects() is all a pool tells; GenerateHashValue must also write something derived from the
// certificates themselves: a field of the hooks that GetX509Pool fills from the decoded PEM blocks.
func c13HashCoversRootCertificates(c *Ctx) {
	const rule = "C13.R26"
	c.Rule(rule, "the tls hash covers the root certificates (their DER bytes), not only the subjects a CertPool tells", 2)
	pkg := "pkg/mtls"
	gen := c.M(pkg, "defaultConfigHooks", "GenerateHashValue")
	get := c.M(pkg, "defaultConfigHooks", "GetX509Pool")
	if gen == nil || get == nil {
		c.Unresolved(rule, "defaultConfigHooks.GenerateHashValue / GetX509Pool")
		return
	}
	// fields of the hooks written in GetX509Pool from pem.Block.Bytes
	fromPem := map[string]bool{}
	for _, b := range get.Blocks {
		for _, in := range b.Instrs {
			st, ok := in.(*ssa.Store)
			if !ok {
				continue
			}
			t, f, _, ok := fieldAddrInfo(st.Addr)
			if !ok || !strings.HasSuffix(t, "defaultConfigHooks") {
				continue
			}
			if derivesFrom(st.Val, func(v ssa.Value) bool {
				_, lf, _, isF := loadedField(v)
				return isF && lf == "Bytes" && strings.Contains(v.Type().String(), "byte")
			}) {
				fromPem[f] = true
			}
		}
	}
	c.Check(rule, funcKey(get)+":certificates-remembered", get.Pos(), len(fromPem) > 0, fmt.Sprintf("GetX509Pool keeps the DER bytes of the certificates it adds (%v)", keysOf(fromPem)),
		"GetX509Pool does not remember the certificates of the pool it builds: the hash can only cover their subjects")
	ok := false
	var pos token.Pos = gen.Pos()
	for _, cs := range callsIn(gen, false, calledAs("Write")) {
		args := argsOf(cs.Instr.Common())
		if len(args) == 0 {
			continue
		}
		if derivesFrom(args[len(args)-1], func(v ssa.Value) bool {
			t, f, _, isF := loadedField(v)
			return isF && strings.HasSuffix(t, "defaultConfigHooks") && fromPem[f]
		}) {
			for _, g := range guardsAt(cs.Instr.Block()) {
				if derivesFrom(g.Cond, func(v ssa.Value) bool { _, f, _, isF := loadedField(v); return isF && f == "RootCAs" }) {
					ok = true
					pos = cs.Instr.Pos()
				}
			}
		}
	}
	c.Check(rule, funcKey(gen)+":root-certificates-hashed", pos, ok, "GenerateHashValue writes the remembered certificate bytes when the config has RootCAs",
		"GenerateHashValue covers the root CAs by subject only: a CA that is issued again with the same subject and another key hashes the same, so after a cluster is switched to it the old connection pool - with the tls manager of the old CA - is kept and goes on verifying the upstream against the old CA")
}

// isCloseEvent: one of the events api.ConnectionEvent.IsClose answers true for (table closeEvents of c10.go, compared
// with mosn.io/api on every run)
func isCloseEvent(s string) bool {
	for _, e := range closeEvents {
		if e == s {
			return true
		}
	}
	return false
}

func keysOf(m map[string]bool) []string {
	var out []string
	for k := range m {
		out = append(out, k)
	}
	return out
}

// ---------------------------------------------------------------------------------------------------------------------
// C13.R27 (S117, repair 3c7d70bb2): (a) a context with an sds certificate source and no validation config verifies
// against its static ca_cert: sdsProvider.update hands newTLSContext a secret info whose Validation was taken from the
// context's CACert on the no-validation path. (b) "no validation config" is decided on the config (ValidationConfig ==
// nil), never on a name: a validation secret may be called anything, "system" too.
func c13SdsStaticCAAndSystemEntry(c *Ctx) {
	const rule = "C13.R27"
	c.Rule(rule, "sds without validation config: the static ca_cert is the validation; the no-validation entry is keyed on the config, not on a secret name", 2)
	pkg := "pkg/mtls"
	upd := c.M(pkg, "sdsProvider", "update")
	add := c.M(pkg, "secretManager", "addOrUpdatePemProvider")
	if upd == nil || add == nil {
		c.Unresolved(rule, "sdsProvider.update / secretManager.addOrUpdatePemProvider")
		return
	}
	ok := false
	var pos token.Pos = upd.Pos()
	for _, b := range upd.Blocks {
		for _, in := range b.Instrs {
			st, isSt := in.(*ssa.Store)
			if !isSt {
				continue
			}
			_, f, _, isF := fieldAddrInfo(st.Addr)
			if !isF || f != "Validation" {
				continue
			}
			if !derivesFrom(st.Val, func(v ssa.Value) bool { _, lf, _, isL := loadedField(v); return isL && lf == "CACert" }) {
				continue
			}
			for _, g := range guardsAt(b) {
				if derivesFrom(g.Cond, func(v ssa.Value) bool { _, lf, _, isL := loadedField(v); return isL && lf == "NoValidation" }) {
					// and a newTLSContext call is reachable from here
					if existsPath(upd, st, func(x ssa.Instruction) bool {
						ci, isC := x.(ssa.CallInstruction)
						return isC && strings.HasSuffix(calleeName(ci.Common()), "newTLSContext")
					}, nil) != nil {
						ok = true
						pos = st.Pos()
					}
				}
			}
		}
	}
	c.Check(rule, funcKey(upd)+":static-ca-is-the-validation", pos, ok, "Validation = cfg.CACert on the NoValidation path, before newTLSContext",
		"sdsProvider.update builds the tls context of a source without validation config from the secret info alone: the static ca_cert of the context is ignored and peers are verified against the system roots (what the xDS conversion produces from tls_certificate_sds_secret_configs plus validation_context.trusted_ca)")
	// (b)
	n := 0
	for _, st := range storesToField(add, "validation", "expectedEmpty", false) {
		n++
		byName := derivesFrom(st.Val, func(v ssa.Value) bool {
			b, isB := v.(*ssa.BinOp)
			return isB && (b.Op == token.EQL || b.Op == token.NEQ) && types.Identical(b.X.Type().Underlying(), types.Typ[types.String])
		})
		byCfg := derivesFrom(st.Val, func(v ssa.Value) bool {
			b, isB := v.(*ssa.BinOp)
			if !isB || (b.Op != token.EQL && b.Op != token.NEQ) {
				return false
			}
			_, f, _, isF := loadedField(b.X)
			return isF && f == "ValidationConfig" && isNilConst(b.Y)
		})
		c.Check(rule, funcKey(add)+":no-validation-decided-on-the-config", st.Pos(), byCfg && !byName, "expectedEmpty = (ValidationConfig == nil)",
			"addOrUpdatePemProvider decides \"no validation expected\" by comparing the validation's name with the internal key: a validation secret that happens to be called like it makes the provider ready before the validation arrived, and peers are verified against the system roots")
	}
	if n == 0 {
		c.Fail(rule, funcKey(add)+":no-validation-decided-on-the-config", add.Pos(), "no store to validation.expectedEmpty in addOrUpdatePemProvider")
	}
}

// ---------------------------------------------------------------------------------------------------------------------
// C14.R16 (S135, repair 582c7458e): a request that was ended during the retry interval is not sent upstream again.
// doRetry sleeps before the next attempt; the response mark setupRetry cleared is read again after the sleep, and
// everything that opens the attempt (pool selection, the new upstream request, appendHeaders) is behind that check.
func c14NoSendAfterInterval(c *Ctx) {
	const rule = "C14.R16"
	c.Rule(rule, "doRetry re-reads the response mark after its interval: a request terminated meanwhile is not sent upstream again", 2)
	fn := c.M("pkg/proxy", "downStream", "doRetry")
	if fn == nil {
		c.Unresolved(rule, "downStream.doRetry")
		return
	}
	sleeps := callsIn(fn, false, func(cc *ssa.CallCommon) bool { return calleeName(cc) == "time.Sleep" })
	if len(sleeps) == 0 {
		// no interval, no window: nothing to check
		c.Pass(rule, funcKey(fn)+":mark-read-after-the-interval", fn.Pos(), "doRetry does not wait before the attempt")
		c.Pass(rule, funcKey(fn)+":attempt-behind-the-check", fn.Pos(), "doRetry does not wait before the attempt")
		return
	}
	var check ssa.Instruction
	for _, cs := range callsIn(fn, false, func(cc *ssa.CallCommon) bool {
		if !strings.HasSuffix(calleeName(cc), "atomic.LoadUint32") || len(cc.Args) == 0 {
			return false
		}
		_, f, _, ok := fieldAddrInfo(cc.Args[0])
		return ok && f == "upstreamResponseReceived"
	}) {
		if instrDominates(sleeps[0].Instr, cs.Instr) {
			check = cs.Instr
		}
	}
	c.Check(rule, funcKey(fn)+":mark-read-after-the-interval", sleeps[0].Instr.Pos(), check != nil, "upstreamResponseReceived is loaded after time.Sleep",
		"doRetry sleeps and then opens the next attempt without looking at the response mark again: a TerminateStream (or the global timeout) in the interval takes the mark, and the request a filter has just denied is still sent upstream; the local reply comes only afterwards")
	ok := check != nil
	if check != nil {
		for _, cs := range callsIn(fn, false, func(cc *ssa.CallCommon) bool {
			m := methodName(cc)
			return m == "initializeUpstreamConnectionPool" || m == "appendHeaders"
		}) {
			guarded := false
			for _, g := range guardsAt(cs.Instr.Block()) {
				if derivesFrom(g.Cond, func(v ssa.Value) bool { return v == check.(ssa.Value) }) {
					guarded = true
				}
			}
			if !guarded {
				ok = false
			}
		}
	}
	c.Check(rule, funcKey(fn)+":attempt-behind-the-check", fn.Pos(), ok, "pool selection and appendHeaders are on the mark-not-taken edge",
		"doRetry selects a pool or sends the request on a path that does not depend on the response mark read after the interval")
}

// ---------------------------------------------------------------------------------------------------------------------
// C14.R17 (S136, repair da89161d0): once the direct-response branch of processError has taken a reply, an upstream stream
// that is still open is detached: the upstream request is removed from the stream's listeners and a reset flagged
// meanwhile is dropped - otherwise the reset handler replaces the filter's reply with its own.
func c14LocalReplyDetachesUpstream(c *Ctx) {
	const rule = "C14.R17"
	c.Rule(rule, "the local reply detaches the upstream stream that is still open: no reset of it can replace the reply", 2)
	fn := c.M("pkg/proxy", "downStream", "processError")
	if fn == nil {
		c.Unresolved(rule, "downStream.processError")
		return
	}
	inDirect := func(in ssa.Instruction) bool {
		for _, g := range guardsAt(in.Block()) {
			if _, f, _, isF := loadedField(g.Cond); isF && f == "directResponse" && g.True {
				return true
			}
		}
		return false
	}
	removed, dropped := false, false
	var detach []ssa.Instruction
	var pos token.Pos = fn.Pos()
	for _, cs := range callsIn(fn, false, func(cc *ssa.CallCommon) bool {
		// upstreamRequest.resetStream removes the listener before it resets the stream (repair e211bbb31 calls it for a
		// termination): either form detaches
		m := methodName(cc)
		return m == "RemoveEventListener" || m == "resetStream"
	}) {
		if inDirect(cs.Instr) {
			removed = true
			pos = cs.Instr.Pos()
			detach = append(detach, cs.Instr)
		}
	}
	for _, cs := range callsIn(fn, false, func(cc *ssa.CallCommon) bool {
		n := calleeName(cc)
		if !(strings.HasSuffix(n, "atomic.CompareAndSwapUint32") || strings.HasSuffix(n, "atomic.StoreUint32")) || len(cc.Args) == 0 {
			return false
		}
		_, f, _, ok := fieldAddrInfo(cc.Args[0])
		return ok && f == "upstreamReset"
	}) {
		// after the detach: from then on no reset is delivered, so what is dropped is all there can be
		for _, d := range detach {
			if inDirect(cs.Instr) && instrDominates(d, cs.Instr) {
				dropped = true
			}
		}
	}
	c.Check(rule, funcKey(fn)+":upstream-listener-removed", pos, removed, "RemoveEventListener(upstreamRequest) in the direct-response branch",
		"processError takes the local reply and leaves the upstream request listening on its stream: a reset of the upstream that is seen while the reply passes the send filters runs the reset handler, which replaces the reply of the filter with its own (and runs the send filters again)")
	c.Check(rule, funcKey(fn)+":pending-reset-dropped", pos, dropped, "a reset flagged since the check is dropped after the detach in the direct-response branch",
		"processError takes the local reply and keeps an upstream reset flagged meanwhile: the next phase check handles it and replaces the reply")
}

// ---------------------------------------------------------------------------------------------------------------------
// C17.R21 (S138, repair bd0cddbcc): xDS retry conditions become what they mean. (a) the converted policy's StatusCodes
// derive from retriable_status_codes; (b) RetryOn is not "retry_on is non-empty" - it comes from a function that looks at
// the individual conditions (compares with the condition names).
func c17XdsRetryConditions(c *Ctx) {
	const rule = "C17.R21"
	c.Rule(rule, "xds: retry_on is converted condition by condition and retriable_status_codes are carried over", 2)
	pkg := "istio/istio1106/xds/conv"
	fn := c.F(pkg, "convertRetryPolicy")
	if fn == nil {
		c.Unresolved(rule, "conv.convertRetryPolicy")
		return
	}
	codes := false
	var onVal ssa.Value
	var pos token.Pos = fn.Pos()
	for _, b := range fn.Blocks {
		for _, in := range b.Instrs {
			st, ok := in.(*ssa.Store)
			if !ok {
				continue
			}
			_, f, _, ok := fieldAddrInfo(st.Addr)
			if !ok {
				continue
			}
			switch f {
			case "StatusCodes":
				if derivesFrom(st.Val, func(v ssa.Value) bool {
					cl, isC := v.(*ssa.Call)
					return isC && methodName(cl.Common()) == "GetRetriableStatusCodes"
				}) {
					codes = true
				}
			case "RetryOn":
				onVal = st.Val
				pos = st.Pos()
			}
		}
	}
	c.Check(rule, funcKey(fn)+":status-codes-carried-over", fn.Pos(), codes, "StatusCodes derives from GetRetriableStatusCodes()",
		"convertRetryPolicy drops retriable_status_codes: \"retriable-status-codes\" with [503] becomes \"retry any 5xx\"")
	byCondition := false
	if onVal != nil {
		// the value comes (through an extract) from a callee of this package that compares strings with the condition names
		derivesFrom(onVal, func(v ssa.Value) bool {
			cl, isC := v.(*ssa.Call)
			if !isC {
				return false
			}
			callee := cl.Common().StaticCallee()
			if callee == nil || callee.Pkg != fn.Pkg {
				return false
			}
			names := map[string]bool{}
			forEachInstr(callee, true, func(_ *ssa.Function, in ssa.Instruction) {
				for _, op := range in.Operands(nil) {
					if *op == nil {
						continue
					}
					if s, ok := constStringVal(*op); ok {
						names[s] = true
					}
				}
			})
			if names["5xx"] && names["gateway-error"] && names["retriable-status-codes"] {
				byCondition = true
			}
			return false
		})
	}
	c.Check(rule, funcKey(fn)+":retry-on-by-condition", pos, byCondition, "RetryOn is computed by a function that distinguishes the xDS conditions",
		"convertRetryPolicy sets retry_on for any non-empty xDS retry_on: \"connect-failure\" becomes \"retry any 5xx, a terminated connection and a per try timeout\" - requests are retried under conditions the configuration did not ask for")
}

// C17.R22 (S139, repair 2059cd31a): the body of an xDS direct response is read from whatever specifier carries it. The
// conversion type-switches over the DataSource specifier; the switch covers every implementation of the specifier
// interface that go-control-plane declares (exhaustiveness over the oneof), so a body given as inline_bytes, file or
// environment variable is not replaced by an empty one.
func c17XdsDirectResponseBodyExhaustive(c *Ctx) {
	const rule = "C17.R22"
	c.Rule(rule, "xds: the direct response body is taken from every kind of DataSource specifier (exhaustive over the oneof)", 1)
	pkg := "istio/istio1106/xds/conv"
	fn := c.F(pkg, "convertDirectResponseAction")
	if fn == nil {
		c.Unresolved(rule, "conv.convertDirectResponseAction")
		return
	}
	// the oneof implementations: named types of the core package called DataSource_*
	var impls []string
	for _, imp := range fn.Pkg.Pkg.Imports() {
		if !strings.HasSuffix(imp.Path(), "envoy/config/core/v3") {
			continue
		}
		for _, n := range imp.Scope().Names() {
			if strings.HasPrefix(n, "DataSource_") {
				if _, ok := imp.Scope().Lookup(n).(*types.TypeName); ok {
					impls = append(impls, n)
				}
			}
		}
	}
	if len(impls) < 3 {
		c.Unresolved(rule, fmt.Sprintf("the DataSource specifier kinds of go-control-plane (found %v)", impls))
		return
	}
	handled := map[string]bool{}
	for f := range staticReach([]*ssa.Function{fn}, pkg) {
		forEachInstr(f, true, func(_ *ssa.Function, in ssa.Instruction) {
			if ta, ok := in.(*ssa.TypeAssert); ok {
				handled[shortTypeName(ta.AssertedType)] = true
			}
			// the generated getters cover one kind each
			if ci, ok := in.(ssa.CallInstruction); ok {
				switch methodName(ci.Common()) {
				case "GetInlineString":
					handled["DataSource_InlineString"] = true
				case "GetInlineBytes":
					handled["DataSource_InlineBytes"] = true
				case "GetFilename":
					handled["DataSource_Filename"] = true
				case "GetEnvironmentVariable":
					handled["DataSource_EnvironmentVariable"] = true
				}
			}
		})
	}
	var missing []string
	for _, n := range impls {
		if !handled[n] && !handled["*"+n] {
			missing = append(missing, n)
		}
	}
	c.Check(rule, funcKey(fn)+":every-specifier-kind-read", fn.Pos(), len(missing) == 0, fmt.Sprintf("all %d specifier kinds handled", len(impls)),
		fmt.Sprintf("convertDirectResponseAction does not read the body from %v: a direct response whose body is given that way is sent with an empty body", missing))
}

// ---------------------------------------------------------------------------------------------------------------------
// C20.R10 (repair ec15a65b9; generalises R6): every raw section of the bootstrap config is redacted. For each field of
// v2.MOSNConfig whose type is json.RawMessage (computed from the type, so a section added later is an obligation too),
// redactedMosnConfig stores into the copy the result of a redactor.
func c20EveryRawSectionRedacted(c *Ctx) {
	const rule = "C20.R10"
	c.Rule(rule, "every raw (json.RawMessage) section of the bootstrap config is passed through the raw-JSON redactor before the dump", 2)
	fn := c.F("pkg/configmanager", "redactedMosnConfig")
	named := c.Named("pkg/config/v2", "MOSNConfig")
	if fn == nil || named == nil {
		c.Unresolved(rule, "configmanager.redactedMosnConfig / v2.MOSNConfig")
		return
	}
	// raw sections that have no schema position for a tls context (one line of reason each); a raw field in neither
	// table is an obligation like the others, so a section added later must be redacted or entered here
	noKeys := map[string]string{
		"Node": "the xDS node identity (id, cluster, locality, free-form metadata): no typed position for a private key; free-form metadata is outside the claim like every untyped filter config",
	}
	st := derefStruct(named)
	for i := 0; st != nil && i < st.NumFields(); i++ {
		f := st.Field(i)
		if !strings.HasSuffix(f.Type().String(), "json.RawMessage") {
			continue
		}
		if why, ok := noKeys[f.Name()]; ok {
			c.Pass(rule, funcKey(fn)+":raw-section-redacted:"+f.Name(), f.Pos(), "frozen exception: "+why)
			continue
		}
		ok := false
		var pos token.Pos = fn.Pos()
		for _, s := range storesToField(fn, "MOSNConfig", f.Name(), false) {
			if call, isC := s.Val.(*ssa.Call); isC {
				if callee := call.Common().StaticCallee(); callee != nil && strings.Contains(strings.ToLower(callee.Name()), "redact") {
					ok = true
					pos = s.Pos()
				}
			}
		}
		c.Check(rule, funcKey(fn)+":raw-section-redacted:"+f.Name(), pos, ok, f.Name()+" of the redacted config is the result of a redactor",
			"redactedMosnConfig passes the raw section "+f.Name()+" through as it is: an inline private key inside it (the ssl channel credentials of a google_grpc service in dynamic_resources, a transport socket in static_resources) is printed by the admin dump")
	}
}

// ---------------------------------------------------------------------------------------------------------------------
// C03.R21 (side note of the agent that reproduced repair 126; repair 129): a global timeout that has fired ends the
// request whatever happens to the reset it delivers. upstreamRequest.OnResetStream drops every reset while a retry is
// being set up, and an upstream reset that is already flagged hides a second one; the timeout therefore also raises a
// flag of its own that nothing lowers, and doRetry looks at it after its interval: no further attempt, the reset is
// flagged (again) so that the check behind the retry phase answers. Without it the request of the retry window waits
// for ever: no attempt is open and the timer has fired.
func c03FiredTimeoutIsSticky(c *Ctx, rule string) {
	c.Rule(rule, "a fired global timeout is remembered in a flag nothing lowers, and doRetry reads it before it opens an attempt", 3)
	pkg := "pkg/proxy"
	to := c.M(pkg, "downStream", "onResponseTimeout")
	dr := c.M(pkg, "downStream", "doRetry")
	if to == nil || dr == nil {
		c.Unresolved(rule, "downStream.onResponseTimeout / doRetry")
		return
	}
	atomicStoreTo := func(fn *ssa.Function, val int64) map[string]ssa.Instruction {
		out := map[string]ssa.Instruction{}
		for _, cs := range callsIn(fn, true, func(cc *ssa.CallCommon) bool { return strings.HasSuffix(calleeName(cc), "atomic.StoreUint32") }) {
			a := cs.Instr.Common().Args
			t, f, _, ok := fieldAddrInfo(a[0])
			k, isK := constInt(a[1])
			if ok && isK && k == val && strings.HasSuffix(t, "downStream") {
				out[f] = cs.Instr
			}
		}
		return out
	}
	raised := atomicStoreTo(to, 1)
	// sticky: no function of the package lowers it
	lowered := map[string]bool{}
	for _, fn := range c.PkgFuncs(pkg) {
		for f := range atomicStoreTo(fn, 0) {
			lowered[f] = true
		}
		for _, cs := range callsIn(fn, true, func(cc *ssa.CallCommon) bool { return strings.HasSuffix(calleeName(cc), "atomic.CompareAndSwapUint32") }) {
			a := cs.Instr.Common().Args
			if _, f, _, ok := fieldAddrInfo(a[0]); ok {
				if k, isK := constInt(a[2]); isK && k == 0 {
					lowered[f] = true
				}
			}
		}
	}
	flag := ""
	for f, in := range raised {
		if lowered[f] {
			continue
		}
		// raised before the reset is delivered
		before := true
		for _, cs := range callsIn(to, false, calledAs("OnResetStream")) {
			if !instrDominates(in, cs.Instr) {
				before = false
			}
		}
		if before {
			flag = f
		}
	}
	c.Check(rule, funcKey(to)+":timeout-raises-a-sticky-flag", to.Pos(), flag != "", "onResponseTimeout stores 1 into downStream."+flag+", which nothing in the package lowers, before it delivers the reset",
		"the global timeout leaves no trace but the reset it delivers through upstreamRequest.OnResetStream - which returns at once while a retry is being set up, and does nothing when an upstream reset is flagged already: a timeout that fires in the retry window is lost, the retry finds the response mark taken and opens no attempt, and the request waits for a notify that never comes")
	if flag == "" {
		c.Fail(rule, funcKey(dr)+":flag-read-after-the-interval", dr.Pos(), "no sticky timeout flag to read")
		c.Fail(rule, funcKey(dr)+":timed-out-retry-flags-the-reset", dr.Pos(), "no sticky timeout flag to read")
		return
	}
	var load ssa.Instruction
	sleeps := callsIn(dr, false, func(cc *ssa.CallCommon) bool { return calleeName(cc) == "time.Sleep" })
	for _, cs := range callsIn(dr, false, func(cc *ssa.CallCommon) bool {
		if !strings.HasSuffix(calleeName(cc), "atomic.LoadUint32") || len(cc.Args) == 0 {
			return false
		}
		_, f, _, ok := fieldAddrInfo(cc.Args[0])
		return ok && f == flag
	}) {
		after := true
		for _, sl := range sleeps {
			if !instrDominates(sl.Instr, cs.Instr) {
				after = false
			}
		}
		if after {
			load = cs.Instr
		}
	}
	c.Check(rule, funcKey(dr)+":flag-read-after-the-interval", dr.Pos(), load != nil, "doRetry loads downStream."+flag+" after its interval",
		"doRetry does not look at the timeout flag after its interval: a timeout whose reset was dropped while the retry was set up is never answered")
	ok := false
	if load != nil {
		for _, cs := range callsIn(dr, false, func(cc *ssa.CallCommon) bool {
			if !strings.HasSuffix(calleeName(cc), "atomic.StoreUint32") || len(cc.Args) == 0 {
				return false
			}
			_, f, _, isF := fieldAddrInfo(cc.Args[0])
			return isF && f == "upstreamReset"
		}) {
			for _, g := range guardsAt(cs.Instr.Block()) {
				if derivesFrom(g.Cond, func(v ssa.Value) bool { return v == load.(ssa.Value) }) {
					// and no attempt is opened on that edge
					if existsPath(dr, cs.Instr, func(x ssa.Instruction) bool {
						ci, isC := x.(ssa.CallInstruction)
						return isC && (methodName(ci.Common()) == "initializeUpstreamConnectionPool" || methodName(ci.Common()) == "appendHeaders")
					}, nil) == nil {
						ok = true
					}
				}
			}
		}
	}
	c.Check(rule, funcKey(dr)+":timed-out-retry-flags-the-reset", dr.Pos(), ok, "on the timed-out edge doRetry flags upstreamReset and opens no attempt",
		"doRetry sees that the request has timed out and neither flags the reset nor refrains from the attempt: the check behind the retry phase finds nothing to answer")
}

// ---------------------------------------------------------------------------------------------------------------------
// C03.R22 = C17.R24 (seed C03-12): a granted retry leaves the global timer armed. The global response timer is armed once,
// when the request was first sent (C17.R7), and bounds all tries; doRetry only arms the per-try timer. So nothing
// setupRetry runs may stop or clear responseTimer - with no per-try timeout configured a retry that lands on a host which
// never answers would wait for ever. cleanUp (the end of the request) stops both (C03.R5).
func retryKeepsTheGlobalTimer(c *Ctx, rule string) {
	c.Rule(rule, "setting up a retry neither stops nor clears the global response timer (it bounds all tries and is armed only once)", 1)
	fn := c.M("pkg/proxy", "downStream", "setupRetry")
	if fn == nil {
		c.Unresolved(rule, "downStream.setupRetry")
		return
	}
	stopped, niled := timerTouches(fn, 3)
	c.Check(rule, funcKey(fn)+":global-timer-survives-the-retry", fn.Pos(), !stopped["responseTimer"] && !niled["responseTimer"], "setupRetry touches only the per-try timer",
		"setupRetry stops the global response timer (directly or through a helper) and nothing arms it again - doRetry arms the per-try timer only, the global one is armed when the request is first sent: with no per-try timeout, a retry that lands on a host which accepts the request and never answers waits for ever, no reply is sent and the stream stays active")
}

// ---------------------------------------------------------------------------------------------------------------------
// C04.R19 (seed C04-12): the route the matcher chose is the route the proxy gets. The default route handler is only a
// carrier: DefaultMakeHandler stores what MatchRoute returned, and simpleHandler.IsAvailable refuses (any status other
// than HandlerAvailable) only when there is no route. The state of the cluster the route names is not a matching
// criterion: a direct-response or redirect route names no cluster at all, and a route whose cluster is unknown must be
// answered as such (no healthy upstream), not fall back to "no route" - or to whatever answers that.
func c04HandlerCarriesTheMatchedRoute(c *Ctx) {
	const rule = "C04.R19"
	c.Rule(rule, "the default route handler hands out the route MatchRoute chose: it refuses only when there is none, never because of cluster state", 2)
	pkg := "pkg/router"
	ia := c.M(pkg, "simpleHandler", "IsAvailable")
	mk := c.F(pkg, "DefaultMakeHandler")
	if ia == nil || mk == nil {
		c.Unresolved(rule, "router.simpleHandler.IsAvailable / DefaultMakeHandler")
		return
	}
	ord := ordCounter{}
	n := 0
	for _, in := range instrsWhere(ia, isReturn) {
		ret := in.(*ssa.Return)
		if len(ret.Results) != 2 {
			continue
		}
		k, isK := constInt(unspill(ret, 1))
		if isK && k == 0 { // HandlerAvailable
			continue
		}
		n++
		noRoute := false
		for _, g := range guardsAt(ret.Block()) {
			b, isB := g.Cond.(*ssa.BinOp)
			if !isB || (b.Op != token.EQL && b.Op != token.NEQ) {
				continue
			}
			_, f, _, isF := loadedField(b.X)
			if isF && f == "route" && isNilConst(b.Y) && (b.Op == token.EQL) == g.True {
				noRoute = true
			}
		}
		c.Check(rule, ord.next(ia, "refuses-only-without-a-route"), ret.Pos(), noRoute, "a status other than HandlerAvailable is returned only under route == nil",
			"simpleHandler.IsAvailable refuses a matched route for a reason other than there being none (the state of its cluster): DoRouteHandler turns that into \"no route\", so the first matching route in configuration order is dropped - a direct-response or redirect route, which names no cluster, never answers")
	}
	if n == 0 {
		c.Fail(rule, funcKey(ia)+":refuses-only-without-a-route", ia.Pos(), "no refusing return found in simpleHandler.IsAvailable")
	}
	carried := false
	for _, st := range storesToField(mk, "simpleHandler", "route", false) {
		if call, ok := st.Val.(*ssa.Call); ok && methodName(call.Common()) == "MatchRoute" {
			carried = true
		}
	}
	c.Check(rule, funcKey(mk)+":carries-the-match", mk.Pos(), carried, "the handler's route is the result of MatchRoute",
		"DefaultMakeHandler does not store the result of routers.MatchRoute as the handler's route")
}

// ---------------------------------------------------------------------------------------------------------------------
// C06.R11 (seed C06-12): the weight the weighted round-robin scheduler sees is the configured weight, whatever the host's
// state. The EDF scheduler keeps the lag bound only for weights that are constant between two re-queues; a weight that
// depends on the health of the moment (a low weight while unhealthy) queues the host a whole virtual-time unit ahead, and
// after its recovery it is starved for about sum(weights) picks. Clause: every return of WRRLoadBalancer.hostWeight
// derives from the host's Weight() and lies under no condition on Health().
func c06WRRWeightIsTheConfiguredWeight(c *Ctx) {
	const rule = "C06.R11"
	c.Rule(rule, "the weight handed to the weighted round-robin scheduler is the host's configured weight on every path (no health-dependent weight)", 1)
	fn := c.M("pkg/upstream/cluster", "WRRLoadBalancer", "hostWeight")
	if fn == nil {
		c.Unresolved(rule, "WRRLoadBalancer.hostWeight")
		return
	}
	ord := ordCounter{}
	n := 0
	for _, in := range instrsWhere(fn, isReturn) {
		ret := in.(*ssa.Return)
		if len(ret.Results) != 1 {
			continue
		}
		n++
		fromWeight := derivesFrom(unspill(ret, 0), func(v ssa.Value) bool {
			cl, ok := v.(*ssa.Call)
			return ok && methodName(cl.Common()) == "Weight"
		})
		onHealth := ""
		for _, g := range guardsAt(ret.Block()) {
			if derivesFrom(g.Cond, func(v ssa.Value) bool {
				cl, ok := v.(*ssa.Call)
				return ok && (methodName(cl.Common()) == "Health" || methodName(cl.Common()) == "ContainHealthFlag" || methodName(cl.Common()) == "HealthFlag")
			}) {
				onHealth = " under a condition on the host's health"
			}
		}
		c.Check(rule, ord.next(fn, "weight-is-configured-weight"), ret.Pos(), fromWeight && onHealth == "", "returns a function of host.Weight() unconditionally",
			"WRRLoadBalancer.hostWeight returns a weight that is not the configured one"+onHealth+": the scheduler queues the host by that weight, so after the state changes the host is served out of proportion (a heavy host that recovers is starved for about sum(weights) picks) - the bounded-lag guarantee of weighted round robin is lost in windows where every host is healthy")
	}
	if n == 0 {
		c.Fail(rule, funcKey(fn)+":weight-is-configured-weight", fn.Pos(), "no return found in WRRLoadBalancer.hostWeight")
	}
}

// ---------------------------------------------------------------------------------------------------------------------
// C13.R28 (seed C13-12): a tls context is rebuilt whenever its configuration changes. sdsProvider.updateConfig stores the
// new config and rebuilds the context; a shortcut that keeps the old context for an "unchanged" config is sound only if
// its notion of unchanged covers every field the context is built from. Clause: every path of updateConfig that avoids
// update() is guarded by a comparator of the two configs, and the fields of v2.TLSConfig that comparator reads are a
// superset of the fields read by the functions that build the context (computed on every run from newTLSContext's reach).
func c13ConfigShortcutComparesEverythingRead(c *Ctx) {
	const rule = "C13.R28"
	c.Rule(rule, "an sds tls context is rebuilt on every config update, or the test that skips the rebuild compares every config field the context is built from", 1)
	pkg := "pkg/mtls"
	fn := c.M(pkg, "sdsProvider", "updateConfig")
	build := c.F(pkg, "newTLSContext")
	if fn == nil || build == nil {
		c.Unresolved(rule, "sdsProvider.updateConfig / newTLSContext")
		return
	}
	cfgFields := func(f *ssa.Function) map[string]bool {
		out := map[string]bool{}
		forEachInstr(f, true, func(_ *ssa.Function, in ssa.Instruction) {
			switch x := in.(type) {
			case *ssa.FieldAddr:
				if t, fld, _, ok := fieldAddrInfo(x); ok && strings.HasSuffix(t, "v2.TLSConfig") {
					out[fld] = true
				}
			case *ssa.Field:
				if strings.HasSuffix(x.X.Type().String(), "v2.TLSConfig") {
					out[derefStructField(x)] = true
				}
			}
		})
		return out
	}
	isUpdate := func(x ssa.Instruction) bool {
		ci, ok := x.(ssa.CallInstruction)
		return ok && methodName(ci.Common()) == "update"
	}
	skip := existsPath(fn, nil, isReturn, isUpdate)
	if skip == nil {
		c.Pass(rule, funcKey(fn)+":rebuilt-or-compared-completely", fn.Pos(), "every path of updateConfig calls update()")
		return
	}
	read := map[string]bool{}
	// through the config hooks too (ClientAuth is decided by a hook from verify_client and require_client_cert)
	for f := range c.ifaceReach([]*ssa.Function{build}, pkg) {
		for k := range cfgFields(f) {
			read[k] = true
		}
	}
	// the comparators that guard the skipping return
	var missing []string
	found := false
	for _, g := range guardsAt(skip.Block()) {
		derivesFrom(g.Cond, func(v ssa.Value) bool {
			cl, ok := v.(*ssa.Call)
			if !ok {
				return false
			}
			callee := cl.Common().StaticCallee()
			if callee == nil || callee.Pkg != fn.Pkg {
				return false
			}
			n := 0
			for _, p := range callee.Params {
				if strings.HasSuffix(p.Type().String(), "v2.TLSConfig") {
					n++
				}
			}
			if n < 2 {
				return false
			}
			found = true
			cmp := map[string]bool{}
			for f := range staticReach([]*ssa.Function{callee}, pkg) {
				for k := range cfgFields(f) {
					cmp[k] = true
				}
			}
			for k := range read {
				if !cmp[k] {
					missing = append(missing, k)
				}
			}
			return false
		})
	}
	sort.Strings(missing)
	detail := "sdsProvider.updateConfig can return without rebuilding the context and no comparison of the old and the new config guards that return"
	if found {
		detail = fmt.Sprintf("sdsProvider.updateConfig keeps the old tls context when a comparison finds the config unchanged, but the comparison does not look at %v, which the context is built from: an update that changes only that (require_client_cert turned on for a listener) is stored and not applied - the listener goes on admitting clients without a certificate until the next secret push", missing)
	}
	c.Check(rule, funcKey(fn)+":rebuilt-or-compared-completely", skip.Pos(), found && len(missing) == 0, "the skipping path is guarded by a comparison of every field the context is built from", detail)
}

// ---------------------------------------------------------------------------------------------------------------------
// C15.R19 (seed C15-12): a weighted cluster entry always carries the criteria object built from its own metadata_match,
// also when that is empty. Present-but-empty criteria and absent criteria are different things to the subset balancer
// (the former takes the fallback policy, the latter balances over all hosts), so leaving the field nil for an entry
// without metadata_match silently turns fallback NO_FALLBACK / DEFAULT_SUBSET into "any endpoint" for that entry.
func c15WeightedEntryAlwaysCarriesItsCriteria(c *Ctx) {
	const rule = "C15.R19"
	c.Rule(rule, "every weighted cluster entry carries the criteria built from its own metadata_match, unconditionally (empty criteria are not absent criteria)", 1)
	fn := c.F("pkg/router", "getWeightedClusterEntry")
	if fn == nil {
		c.Unresolved(rule, "router.getWeightedClusterEntry")
		return
	}
	var stores []*ssa.Store
	for _, st := range storesToField(fn, "weightedClusterEntry", "clusterMetadataMatchCriteria", false) {
		if derivesFrom(st.Val, func(v ssa.Value) bool {
			cl, ok := v.(*ssa.Call)
			return ok && strings.HasSuffix(calleeName(cl.Common()), "NewMetadataMatchCriteriaImpl")
		}) {
			stores = append(stores, st)
		}
	}
	ord := ordCounter{}
	n := 0
	for _, in := range instrsWhere(fn, func(x ssa.Instruction) bool { _, ok := x.(*ssa.MapUpdate); return ok }) {
		n++
		ok := false
		for _, st := range stores {
			if instrDominates(st, in) {
				ok = true
			}
		}
		c.Check(rule, ord.next(fn, "entry-carries-criteria"), in.Pos(), ok, "the entry filed carries NewMetadataMatchCriteriaImpl(its metadata_match) on every path",
			"getWeightedClusterEntry files a weighted cluster entry whose criteria can be nil: the route then reports no criteria at all for that entry, and the subset load balancer of the target cluster balances over every host instead of applying its fallback policy (no host for NO_FALLBACK, the default subset for DEFAULT_SUBSET)")
	}
	if n == 0 {
		c.Fail(rule, funcKey(fn)+":entry-carries-criteria", fn.Pos(), "no entry filed in getWeightedClusterEntry")
	}
}

// ---------------------------------------------------------------------------------------------------------------------
// C19.R17 (seed C19-12): lists whose order means something are dumped in the order they are kept. The sections the
// effective config keeps in maps (listeners, clusters, routers by name) may be written in any order; extends, filters,
// filter chains, routes, virtual hosts, weighted clusters and hosts are applied in list order when the dump is loaded
// (extends are run one by one in config order, the first matching route wins, filters run in chain order), so nothing on
// the dump path may hand a slice of such elements to package sort.
var c19OrderedElems = map[string]string{
	"ExtendConfig":    "extends are handed to their handlers one by one in config order",
	"Filter":          "filters run in chain order",
	"FilterChain":     "the first matching filter chain is used",
	"Router":          "the first matching route wins",
	"VirtualHost":     "virtual hosts are indexed in order, the first default wins",
	"WeightedCluster": "the cumulative-weight scan runs in list order",
	"Host":            "round robin and maglev start from list order",
	"HeaderMatcher":   "conditions are reported in order",
}

func c19OrderedListsNotSorted(c *Ctx) {
	const rule = "C19.R17"
	c.Rule(rule, "no list whose order is meaningful on reload (extends, filters, chains, routes, virtual hosts, weighted clusters, hosts) is sorted on the dump path", 1)
	pkg := "pkg/configmanager"
	var roots []*ssa.Function
	for _, n := range []string{"transferConfig", "DumpJSON", "dumpConfig", "DumpConfig"} {
		if f := c.F(pkg, n); f != nil {
			roots = append(roots, f)
		}
	}
	if len(roots) == 0 {
		c.Unresolved(rule, "configmanager.transferConfig")
		return
	}
	nsort := 0
	bad := 0
	for f := range staticReach(roots, pkg) {
		ord := ordCounter{}
		forEachInstr(f, true, func(ff *ssa.Function, in ssa.Instruction) {
			ci, ok := in.(ssa.CallInstruction)
			if !ok {
				return
			}
			callee := ci.Common().StaticCallee()
			if callee == nil || callee.Pkg == nil || callee.Pkg.Pkg.Path() != "sort" || len(ci.Common().Args) == 0 {
				return
			}
			nsort++
			a := ci.Common().Args[0]
			if mi, isMI := a.(*ssa.MakeInterface); isMI {
				a = mi.X
			}
			sl, isSl := a.Type().Underlying().(*types.Slice)
			if !isSl {
				return
			}
			el := sl.Elem()
			if p, isP := el.(*types.Pointer); isP {
				el = p.Elem()
			}
			name := shortTypeName(el)
			if i := strings.LastIndex(name, "."); i >= 0 {
				name = name[i+1:]
			}
			if why, is := c19OrderedElems[name]; is {
				bad++
				c.Fail(rule, ord.next(ff, "ordered-list-sorted:"+name), in.Pos(), fmt.Sprintf("%s sorts a list of %s on the dump path, but %s: a mosn started from the dump applies them in another order than the running one (dump and reload are no longer equivalent, while dump-reload-dump still compares equal)", ff.Name(), name, why))
			}
		})
	}
	if bad == 0 {
		c.Pass(rule, modPkg(pkg)+":ordered-lists-not-sorted", token.NoPos, fmt.Sprintf("%d sort calls on the dump path, none on an order-sensitive list", nsort))
	}
}

// ---------------------------------------------------------------------------------------------------------------------
// C01.R25 (seed C01-12): the HTTP/1 client reads the request body, it does not consume it. The buffer AppendData gets is
// the proxy's one copy of the downstream request body, and a retry sends it again: the client stream may look at it
// (Bytes, Len, ...) but must not hand it to anything that reads it empty - as an io.Reader / body stream it is drained by
// the first write, and the retry forwards Content-Length: 0 and no body.
func c01HTTP1BodyIsReadNotConsumed(c *Ctx) {
	const rule = "C01.R25"
	c.Rule(rule, "the HTTP/1 client stream only looks at the request body buffer (Bytes/Len): it is never handed over as a reader that drains it, so a retry forwards the same body", 1)
	fn := c.M("pkg/stream/http", "clientStream", "AppendData")
	if fn == nil {
		c.Unresolved(rule, "http.clientStream.AppendData")
		return
	}
	var data *ssa.Parameter
	for _, p := range fn.Params {
		if strings.HasSuffix(p.Type().String(), "IoBuffer") {
			data = p
		}
	}
	if data == nil {
		c.Unresolved(rule, "the IoBuffer parameter of clientStream.AppendData")
		return
	}
	readOnly := map[string]bool{"Bytes": true, "Len": true, "Cap": true, "String": true, "Peek": true, "Count": true, "Clone": true}
	bad := ""
	var pos token.Pos = fn.Pos()
	var walk func(v ssa.Value, d int)
	walk = func(v ssa.Value, d int) {
		if d > 4 {
			return
		}
		for _, r := range refs(v) {
			switch u := r.(type) {
			case *ssa.DebugRef:
			case *ssa.ChangeInterface:
				walk(u, d+1)
			case *ssa.MakeInterface:
				walk(u, d+1)
			case *ssa.Phi:
				walk(u, d+1)
			case ssa.CallInstruction:
				cc := u.Common()
				if cc.IsInvoke() && cc.Value == v {
					if !readOnly[cc.Method.Name()] {
						bad = "calls " + cc.Method.Name() + "() on it"
						pos = u.Pos()
					}
					continue
				}
				bad = "hands it to " + shortCallee(cc)
				pos = u.Pos()
			case *ssa.Store:
				if u.Val == v {
					bad = "stores it"
					pos = u.Pos()
				}
			}
		}
	}
	walk(data, 0)
	c.Check(rule, funcKey(fn)+":body-read-not-consumed", pos, bad == "", "the body buffer is only read through Bytes/Len",
		"http clientStream.AppendData "+bad+": whatever reads the proxy's request body buffer as a stream leaves it empty, and the proxy sends the same buffer again on a retry (5xx, reset, per-try timeout) - the second upstream gets Content-Length: 0 and no body")
}

// ---------------------------------------------------------------------------------------------------------------------
// C11.O23 (seed C11-12): a handed-over connection can be written to by the old process any number of times. Every
// response the old mosn still owes to a transferred connection is relayed as a message of its own and looked up in the
// transfer map by connection id; so nothing on the relay path may take the entry out of the map - the first relayed
// response would be delivered and every later one dropped ("connection not found"), a request in flight during the
// upgrade never gets its answer.
func c11RelayedWritesKeepTheirConnection(c *Ctx) {
	const rule = "C11.O23"
	c.Rule(rule, "the relay of late writes to a handed-over connection only looks the connection up: no entry is removed from the transfer map on that path", 1)
	pkg := "pkg/network"
	th := c.F(pkg, "transferHandler")
	if th == nil {
		c.Unresolved(rule, "network.transferHandler")
		return
	}
	lookups, bad := 0, 0
	for f := range staticReach([]*ssa.Function{th}, pkg) {
		ord := ordCounter{}
		forEachInstr(f, true, func(ff *ssa.Function, in ssa.Instruction) {
			ci, ok := in.(ssa.CallInstruction)
			if !ok {
				return
			}
			n := calleeName(ci.Common())
			if !strings.Contains(n, "sync.Map).") || len(ci.Common().Args) == 0 {
				return
			}
			// the transfer map is handed down as a *sync.Map parameter; other maps of the package (the UDP proxy map, a
			// package variable) are none of this clause's business
			if _, isParam := ci.Common().Args[0].(*ssa.Parameter); !isParam {
				if fv, isFV := ci.Common().Args[0].(*ssa.FreeVar); !isFV || !strings.HasSuffix(fv.Type().String(), "sync.Map") {
					return
				}
			}
			m := methodName(ci.Common())
			switch m {
			case "Load":
				lookups++
			case "Delete", "LoadAndDelete", "CompareAndDelete", "Swap", "CompareAndSwap", "Clear":
				bad++
				c.Fail(rule, ord.next(ff, "transfer-map-entry-removed"), in.Pos(), fmt.Sprintf("%s removes an entry from the transfer map (%s) on the path that relays the old process's late writes: the first response relayed to a handed-over connection is delivered, every later one finds no connection and is dropped - a request that was in flight during the hot upgrade never gets its answer", ff.Name(), m))
			}
		})
	}
	if lookups == 0 {
		c.Fail(rule, funcKey(th)+":transfer-map-looked-up", th.Pos(), "no look-up in the transfer map reachable from transferHandler")
		return
	}
	if bad == 0 {
		c.Pass(rule, funcKey(th)+":transfer-map-entries-stay", th.Pos(), fmt.Sprintf("%d look-ups, no removal", lookups))
	}
}

// ---------------------------------------------------------------------------------------------------------------------
// C02.R23 (seed C02-12): a write that ran into the write deadline ends the connection, however much of it the peer
// took. A frame that was written in part cannot be taken back: whatever is written next on the connection is read by the
// peer as the rest of that frame, so a response is delivered under another request's header and id. Clause: in
// connection.writeDirectly every way from doWrite to a return leads through the error check that closes the connection
// on a timeout (the `err != nil` test guarding Close(..., OnWriteTimeout)).
func c02WriteTimeoutAlwaysCloses(c *Ctx) {
	const rule = "C02.R23"
	c.Rule(rule, "after a write attempt every return of writeDirectly lies behind the error check that closes the connection on a write timeout (a partly written frame is never followed by another frame)", 1)
	fn := c.M("pkg/network", "connection", "writeDirectly")
	if fn == nil {
		c.Unresolved(rule, "network.connection.writeDirectly")
		return
	}
	writes := callsIn(fn, false, calledAs("doWrite"))
	var check *ssa.If
	for _, cs := range callsIn(fn, false, calledAs("Close")) {
		args := argsOf(cs.Instr.Common())
		isTimeoutClose := false
		for _, a := range args {
			if s, ok := constStringVal(a); ok && s == "OnWriteTimeout" {
				isTimeoutClose = true
			}
		}
		if !isTimeoutClose {
			continue
		}
		for _, g := range guardsAt(cs.Instr.Block()) {
			b, ok := g.Cond.(*ssa.BinOp)
			if ok && b.Op == token.NEQ && isNilConst(b.Y) && b.X.Type().String() == "error" && g.True {
				check = g.If
			}
		}
	}
	if len(writes) == 0 || check == nil {
		c.Fail(rule, funcKey(fn)+":timeout-check-on-every-way-out", fn.Pos(), "writeDirectly has no doWrite call, or no `err != nil` check guarding Close(…, OnWriteTimeout)")
		return
	}
	var bad ssa.Instruction
	for _, w := range writes {
		if r := existsPath(fn, w.Instr, isReturn, func(x ssa.Instruction) bool { return x == ssa.Instruction(check) }); r != nil {
			bad = r
		}
	}
	pos := check.Pos()
	if bad != nil {
		pos = nearestPos(bad)
	}
	c.Check(rule, funcKey(fn)+":timeout-check-on-every-way-out", pos, bad == nil, "every return behind doWrite passes the error check that closes on a timeout",
		"writeDirectly can return after a write attempt without passing the check that closes the connection on a write timeout: a frame the peer took only in part stays unfinished on a connection that goes on being used - the next frame is read as its remainder, and a client receives, under the header and id of one request, bytes of the response to another")
}

// ---------------------------------------------------------------------------------------------------------------------
// C14.R18 (seed C14-12): one filter object per stream. A stream filter keeps the handler of the stream it was added to
// (SetReceiveFilterHandler / SetSenderFilterHandler); a factory that registers the same object for every stream makes
// every verdict act on the stream that was created last - the denial of one request is installed on another request's
// downstream and the denied request is forwarded. Clause: in every CreateFilterChain of the module the filter handed to
// AddStreamReceiverFilter / AddStreamSenderFilter is made in that call; it is never (a value derived from) a field of the
// factory, also not through a helper method of the factory.
func c14OneFilterObjectPerStream(c *Ctx) {
	const rule = "C14.R18"
	c.Rule(rule, "every stream filter factory hands the chain a filter object made for that stream, never one kept in the factory", 8)
	n := 0
	var fns []*ssa.Function
	for fn := range c.all {
		if fn.Name() == "CreateFilterChain" && fn.Signature.Recv() != nil && len(fn.Blocks) > 0 && fn.Pkg != nil && strings.HasPrefix(fn.Pkg.Pkg.Path(), modPath) {
			fns = append(fns, fn)
		}
	}
	sort.Slice(fns, func(i, j int) bool { return fns[i].String() < fns[j].String() })
	var fromFactory func(v ssa.Value, recv ssa.Value, d int) string
	fromFactory = func(v ssa.Value, recv ssa.Value, d int) string {
		if d > 5 || v == nil {
			return ""
		}
		switch x := v.(type) {
		case *ssa.MakeInterface:
			return fromFactory(x.X, recv, d+1)
		case *ssa.ChangeInterface:
			return fromFactory(x.X, recv, d+1)
		case *ssa.TypeAssert:
			return fromFactory(x.X, recv, d+1)
		case *ssa.Phi:
			for _, e := range x.Edges {
				if why := fromFactory(e, recv, d+1); why != "" {
					return why
				}
			}
		case *ssa.UnOp:
			if x.Op == token.MUL {
				if fa, ok := x.X.(*ssa.FieldAddr); ok {
					root := fa.X
					for i := 0; i < 4; i++ {
						if f2, ok2 := root.(*ssa.FieldAddr); ok2 {
							root = f2.X
						} else {
							break
						}
					}
					if paramBehind(root) == recv {
						_, f, _, _ := fieldAddrInfo(fa)
						return "the factory's field " + f
					}
				}
			}
		case *ssa.Extract:
			return fromFactory(x.Tuple, recv, d+1)
		case *ssa.Call:
			callee := x.Common().StaticCallee()
			if callee == nil || callee.Pkg == nil || !strings.HasPrefix(callee.Pkg.Pkg.Path(), modPath) || len(callee.Blocks) == 0 {
				return ""
			}
			// a helper of the factory: what it returns, with its own receiver standing for the factory when it is called on it
			var calleeRecv ssa.Value
			if callee.Signature.Recv() != nil && len(callee.Params) > 0 && len(x.Common().Args) > 0 && x.Common().Args[0] == recv {
				calleeRecv = callee.Params[0]
			}
			if calleeRecv == nil {
				return ""
			}
			for _, in := range instrsWhere(callee, isReturn) {
				ret := in.(*ssa.Return)
				for i := range ret.Results {
					if why := fromFactory(unspill(ret, i), calleeRecv, d+1); why != "" {
						return why + " (through " + callee.Name() + "())"
					}
				}
			}
		}
		return ""
	}
	for _, fn := range fns {
		recv := ssa.Value(fn.Params[0])
		ord := ordCounter{}
		for _, cs := range callsIn(fn, false, func(cc *ssa.CallCommon) bool {
			m := methodName(cc)
			return m == "AddStreamReceiverFilter" || m == "AddStreamSenderFilter"
		}) {
			args := argsOf(cs.Instr.Common())
			if len(args) == 0 {
				continue
			}
			n++
			why := fromFactory(args[0], recv, 0)
			c.Check(rule, ord.next(fn, "filter-made-per-stream"), cs.Instr.Pos(), why == "", "the filter registered is made in this call",
				fmt.Sprintf("%s registers %s as the filter of every stream: the filter keeps the handler of the stream it was added to last, so its verdict (a denial, a hijack reply) is installed on another request's downstream while the request it judged goes on to the upstream", fn.String(), why))
		}
	}
	if n < 8 {
		c.Fail(rule, "module:filter-made-per-stream", token.NoPos, fmt.Sprintf("only %d filter registrations found in the CreateFilterChain methods of the loaded packages", n))
	}
}

// paramBehind: a parameter that a closure captures is spilled by go/ssa into a heap cell (`t0 = new *T (p); *t0 = p`) and
// read back through it; the load of such a cell stands for the parameter.
func paramBehind(v ssa.Value) ssa.Value {
	u, ok := v.(*ssa.UnOp)
	if !ok || u.Op != token.MUL {
		return v
	}
	al, ok := u.X.(*ssa.Alloc)
	if !ok {
		return v
	}
	var p ssa.Value
	for _, r := range refs(al) {
		if st, isSt := r.(*ssa.Store); isSt && st.Addr == ssa.Value(al) {
			if _, isP := st.Val.(*ssa.Parameter); !isP || (p != nil && p != st.Val) {
				return v
			}
			p = st.Val
		}
	}
	if p != nil {
		return p
	}
	return v
}

// ---------------------------------------------------------------------------------------------------------------------
// C12.R20 (seed C12-12): the recorded router is the update as it came. SetRouter records where the router's virtual hosts
// live (the router_configs path, kept aside) together with the router itself; the path recorded is the one the update
// carries, unconditionally. A path kept from an earlier configuration next to inline virtual hosts of the update gives a
// dump with both router_configs and virtual_hosts, which the loader refuses - a new mosn cannot start from it.
func c12RouterPathRecordedAsGiven(c *Ctx) {
	const rule = "C12.R20"
	c.Rule(rule, "SetRouter records the router_configs path the update carries, unconditionally (path and virtual hosts always come from the same update)", 1)
	fn := c.F("pkg/configmanager", "SetRouter")
	if fn == nil {
		c.Unresolved(rule, "configmanager.SetRouter")
		return
	}
	n := 0
	for _, in := range instrsWhere(fn, func(x ssa.Instruction) bool { _, ok := x.(*ssa.MapUpdate); return ok }) {
		mu := in.(*ssa.MapUpdate)
		if _, f, _, ok := loadedField(mu.Map); !ok || f != "routerConfigPath" {
			continue
		}
		n++
		given := derivesFrom(mu.Value, func(v ssa.Value) bool {
			_, f, _, ok := loadedField(v)
			if ok && f == "RouterConfigPath" {
				return true
			}
			if fl, isF := v.(*ssa.Field); isF && derefStructField(fl) == "RouterConfigPath" {
				return true
			}
			return false
		})
		cond := ""
		// unconditional: no way from the entry to a return goes round the store
		if existsPath(fn, nil, isReturn, func(x ssa.Instruction) bool { return x == ssa.Instruction(mu) }) != nil {
			cond = " only under a condition"
		}
		c.Check(rule, funcKey(fn)+":path-recorded-as-given", mu.Pos(), given && cond == "", "routerConfigPath[name] = router.RouterConfigPath, unconditionally",
			"SetRouter records the router_configs path"+cond+" instead of always taking the one the update carries: a router configured from a directory and later replaced by an update with inline virtual hosts is dumped with both router_configs and virtual_hosts, which the loader refuses (\"only one of static config or dynamic config\") - a fresh mosn, or the next generation of a hot upgrade, cannot start from the dumped configuration")
	}
	if n == 0 {
		c.Fail(rule, funcKey(fn)+":path-recorded-as-given", fn.Pos(), "no store into routerConfigPath in SetRouter")
	}
}

// ---------------------------------------------------------------------------------------------------------------------
// C17.R25 (seed C17-12): every configured header addition becomes one addition. getHeaderPair turns the headers_to_add
// list into the list the request path applies one after the other (append or overwrite per entry, C17.R1); it must append
// one pair per valid entry and never write into a pair filed earlier - replacing an earlier entry of the same name is
// only right when the later one overwrites, and loses the earlier values when it appends.
func c17EveryAdditionKept(c *Ctx) {
	const rule = "C17.R25"
	c.Rule(rule, "getHeaderPair files one pair per configured addition: pairs are only appended, none is replaced or skipped once it was built", 2)
	fn := c.F("pkg/router", "getHeaderPair")
	if fn == nil {
		c.Unresolved(rule, "router.getHeaderPair")
		return
	}
	// no store into an element of a []*headerPair
	var repl ssa.Instruction
	var pairs []ssa.Instruction
	forEachInstr(fn, false, func(_ *ssa.Function, in ssa.Instruction) {
		if st, ok := in.(*ssa.Store); ok {
			if ia, isIA := st.Addr.(*ssa.IndexAddr); isIA && strings.Contains(ia.X.Type().String(), "headerPair") {
				// the backing array of append's variadic argument is not the list
				if _, isAlloc := ia.X.(*ssa.Alloc); !isAlloc {
					repl = in
				}
			}
		}
		if al, ok := in.(*ssa.Alloc); ok && strings.HasSuffix(al.Type().String(), "headerPair") && al.Heap {
			pairs = append(pairs, in)
		}
	})
	pos := fn.Pos()
	if repl != nil {
		pos = repl.Pos()
	}
	c.Check(rule, funcKey(fn)+":no-pair-replaced", pos, repl == nil, "no element of the pair list is overwritten",
		"getHeaderPair writes into a pair it filed earlier (a later entry with the same header name replaces the earlier one): when the later entry appends, the values of the earlier entries are lost - a header configured as a,b (append) arrives as b")
	// every pair built reaches the append before the next iteration / the return
	isAppend := func(x ssa.Instruction) bool {
		ci, ok := x.(*ssa.Call)
		if !ok {
			return false
		}
		b, isB := ci.Common().Value.(*ssa.Builtin)
		return isB && b.Name() == "append"
	}
	skipped := false
	loops := naturalLoops(fn)
	for _, p := range pairs {
		for h := range loops {
			if existsPath(fn, p, func(x ssa.Instruction) bool { return x.Block() == h && instrIndex(x) == 0 }, isAppend) != nil {
				skipped = true
			}
		}
		if existsPath(fn, p, isReturn, isAppend) != nil {
			skipped = true
		}
	}
	c.Check(rule, funcKey(fn)+":every-pair-appended", fn.Pos(), len(pairs) > 0 && !skipped, "every pair built is appended before the next entry is looked at",
		"getHeaderPair builds the pair of a configured addition and can go on to the next entry without appending it: that addition is never applied")
}

// ---------------------------------------------------------------------------------------------------------------------
// C18.W20 (seed C18-12): a flow-control window is changed only by the window's own operations. `flow.n` is the number of
// bytes the peer still allows; take/add keep it in step with what the peer computes from the frames it sent and received
// (RFC 7540 6.9: a SETTINGS change may leave it negative, and the debt is paid by later WINDOW_UPDATEs). A direct store
// into it from connection code - clamping a negative window to zero - makes MOSN's record run ahead of the peer's, and
// after the next WINDOW_UPDATE it sends more than the peer allows.
func c18WindowWrittenOnlyByItsOperations(c *Ctx) {
	const rule = "C18.W20"
	c.Rule(rule, "the byte count of a flow-control window is written only by the methods of the window type (add/take/setConnFlow-style operations), never by connection code", 2)
	pkg := "pkg/module/http2"
	n := 0
	for _, fn := range c.PkgFuncs(pkg) {
		ord := ordCounter{}
		forEachInstr(fn, true, func(ff *ssa.Function, in ssa.Instruction) {
			st, ok := in.(*ssa.Store)
			if !ok {
				return
			}
			t, f, _, ok := fieldAddrInfo(st.Addr)
			if !ok || f != "n" || !strings.HasSuffix(t, "http2.flow") {
				return
			}
			n++
			own := false
			root := ff
			for root.Parent() != nil {
				root = root.Parent()
			}
			if r := root.Signature.Recv(); r != nil && strings.HasSuffix(strings.TrimPrefix(r.Type().String(), "*"), "http2.flow") {
				own = true
			}
			c.Check(rule, ord.next(ff, "window-written-by-its-own-operation"), st.Pos(), own, "flow.n is stored by a method of flow",
				fmt.Sprintf("%s stores into flow.n directly: the window no longer equals what the peer computes from the frames exchanged (a window a SETTINGS change left negative must stay negative until WINDOW_UPDATEs pay the debt), so after the next WINDOW_UPDATE more DATA is sent than the peer allows - a flow-control violation the peer answers with FLOW_CONTROL_ERROR", ff.Name()))
		})
	}
	if n < 2 {
		c.Fail(rule, modPkg(pkg)+".flow:window-written-by-its-own-operation", token.NoPos, fmt.Sprintf("only %d stores into flow.n found", n))
	}
}
