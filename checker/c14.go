package main

import (
	"fmt"
	"go/constant"
	"go/token"
	"go/types"
	"strings"

	"golang.org/x/tools/go/ssa"
)

// C14 — stream filters run in order; a denied request is never forwarded.

func init() {
	register(&PropSpec{
		ID:       "C14",
		Patterns: []string{"./pkg/proxy", "./pkg/streamfilter", "./pkg/types", "./pkg/filter/stream/...", "./pkg/filter/network/grpc"},
		Explanation: "(R1) in the CFG of downStream.receive no path leads from a RunReceiverFilter call to an upstream-send site (a call from which ConnectionPool.NewStream / upstreamRequest.append* is reachable — computed, not listed) without passing a processError call whose `err != nil` edge returns; " +
			"(R2) every hijack API (SendHijackReply, SendHijackReplyWithBody, SendDirectResponse) unconditionally raises downStream.directResponse and installs the reply headers; (R3) in processError the directResponse branch is reached only after the cleaned check, clears the retry state and leaves only towards the send-filter phase (or Oneway) with ErrExit unless already in it; " +
			"(R4) phase constants order UpFilter < UpRecvHeader < UpRecvData < UpRecvTrailer, RunSenderFilter sits in the UpFilter case and the reply is written only in the UpRecv* cases; " +
			"(R5) chain iteration: one filter invocation per iteration, index advanced by one, Stop/termination reset the index and return, ReMatchRoute/ReChooseHost return without resetting it; the status handler maps them to MatchRoute/ChooseHost only in the matching phase and termination to cleanStream. (R6) pool hygiene of DefaultStreamFilterChainImpl: every field written while a request uses the chain is reset in the function that puts it into the sync.Pool (or the methods it calls before) or after Get; cursor fields are reset to 0. (R1, helpers) a same-package helper that runs the receive filters counts as filter-run-plus-check only if every path from its RunReceiverFilter call to its return consults processError. (R7) in TerminateStream every installation of the terminate reply is guarded by downstreamRespHeaders == nil. (R5 rematch-mapping, round 6) in the arm (ReMatchRoute, AfterRoute) resp. (ReChooseHost, AfterChooseHost) of the status handler the again-phase is recorded on every path, directly or by a helper of the package that stores its parameter unconditionally. (R8) every value stored into StreamFilterFactoryImpl.factories is the result of a one-loop builder applied to the whole configuration parameter, or built by appends inside one loop over it.",
		Run: runC14,
	})
}

// reaches: functions of the package from which a call to a method named in `names` is reachable (static calls, depth-limited).
func reachesMethod(c *Ctx, pkg string, names map[string]bool) map[*ssa.Function]bool {
	out := map[*ssa.Function]bool{}
	fns := c.PkgFuncs(pkg)
	for _, f := range fns {
		forEachInstr(f, true, func(_ *ssa.Function, in ssa.Instruction) {
			if ci, ok := in.(ssa.CallInstruction); ok && names[methodName(ci.Common())] {
				out[f] = true
			}
		})
	}
	for changed := true; changed; {
		changed = false
		for _, f := range fns {
			if out[f] {
				continue
			}
			forEachInstr(f, true, func(_ *ssa.Function, in ssa.Instruction) {
				if ci, ok := in.(ssa.CallInstruction); ok {
					if callee := ci.Common().StaticCallee(); callee != nil && out[callee] && !out[f] {
						out[f] = true
						changed = true
					}
				}
			})
		}
	}
	return out
}

func constOf(tp *types.Package, name string) (int64, bool) {
	o := tp.Scope().Lookup(name)
	k, ok := o.(*types.Const)
	if !ok {
		return 0, false
	}
	return constant.Int64Val(k.Val())
}

func runC14(c *Ctx) {
	c.Rule("C14.R1", "no path from a receive-filter run to an upstream send bypasses processError's error edge", 8)
	c.Rule("C14.R2", "every hijack API raises directResponse and installs the reply", 6)
	c.Rule("C14.R3", "the directResponse branch diverts to the send-filter phase and forbids retry", 4)
	c.Rule("C14.R4", "the reply passes the send filters: phase order and case contents", 5)
	c.Rule("C14.R5", "filter chains iterate once in index order; re-match/re-choose resume at the asking filter", 10)
	c.Rule("C14.R6", "a recycled filter chain is fully reset: every field written in use is reset on the way into or out of the pool; cursors to 0", 5)
	defer c14PoolHygiene(c)
	c.Rule("C14.R7", "an asynchronous terminate never replaces a reply a filter already installed", 1)
	c.Rule("C14.R8", "the stored filter factory list is an ordered image of the configuration", 1)
	defer c14FactoriesInConfigOrder(c)
	defer c14SingleReply(c)
	c.NotDecided = append(c.NotDecided, "what individual filters decide", "filters that write to an upstream by other means than the proxy's upstream request")
	c.Assumptions = append(c.Assumptions, "the receive phase machine runs on one worker per request (checked structurally by C03.R4)")

	pkg := "pkg/proxy"
	recv := c.M(pkg, "downStream", "receive")
	pe := c.M(pkg, "downStream", "processError")
	if recv == nil || pe == nil {
		c.Unresolved("C14.R1", "(*downStream).receive / processError")
		return
	}
	rk := funcKey(recv)
	// send sites
	sends := reachesMethod(c, pkg, map[string]bool{"NewStream": true})
	// writes on an already created upstream request: upstreamRequest.appendHeaders/appendData/appendTrailers
	for _, f := range c.PkgFuncs(pkg) {
		forEachInstr(f, false, func(_ *ssa.Function, in ssa.Instruction) {
			if ci, ok := in.(ssa.CallInstruction); ok {
				if callee := ci.Common().StaticCallee(); callee != nil && strings.Contains(callee.String(), "upstreamRequest).append") {
					sends[f] = true
				}
			}
		})
	}
	// exclude functions that only select (chooseHost: initializeUpstreamConnectionPool does not call NewStream)
	var sendCalls []ssa.Instruction
	var sendNames []string
	forEachInstr(recv, false, func(_ *ssa.Function, in ssa.Instruction) {
		if ci, ok := in.(ssa.CallInstruction); ok {
			if callee := ci.Common().StaticCallee(); callee != nil && sends[callee] && callee != recv {
				sendCalls = append(sendCalls, in)
				sendNames = append(sendNames, callee.Name())
			}
		}
	})
	c.Extra["upstream_send_sites"] = sendNames
	if len(sendCalls) < 3 {
		c.Unresolved("C14.R1", fmt.Sprintf("upstream-send sites in receive (found %v)", sendNames))
	}
	isSend := func(in ssa.Instruction) bool {
		for _, s := range sendCalls {
			if s == in {
				return true
			}
		}
		return false
	}
	// helpers of the package that run the receive filters on behalf of receive (a refactoring may move the runs there):
	// a helper counts as "filter run followed by processError" only if every path from its RunReceiverFilter call to its
	// return passes processError, and it returns processError's results
	isPEin := func(in ssa.Instruction) bool {
		ci, ok := in.(ssa.CallInstruction)
		return ok && (ci.Common().StaticCallee() == pe || methodName(ci.Common()) == "waitNotify")
	}
	helperAlwaysPE := map[*ssa.Function]bool{}
	helperRuns := map[*ssa.Function]bool{}
	for _, h := range c.PkgFuncs(pkg) {
		if h == recv {
			continue
		}
		runs := callsIn(h, false, func(cc *ssa.CallCommon) bool { return methodName(cc) == "RunReceiverFilter" })
		if len(runs) == 0 {
			continue
		}
		helperRuns[h] = true
		all := true
		for _, r := range runs {
			if existsPath(h, r.Instr, isReturn, isPEin) != nil {
				all = false
			}
		}
		helperAlwaysPE[h] = all
	}
	isPE := func(in ssa.Instruction) bool {
		if isPEin(in) {
			return true
		}
		ci, ok := in.(ssa.CallInstruction)
		return ok && ci.Common().StaticCallee() != nil && helperAlwaysPE[ci.Common().StaticCallee()]
	}
	filters := callsIn(recv, false, func(cc *ssa.CallCommon) bool {
		return methodName(cc) == "RunReceiverFilter" || (cc.StaticCallee() != nil && helperRuns[cc.StaticCallee()])
	})
	for i, f := range filters {
		callee := f.Instr.Common().StaticCallee()
		if callee != nil && helperRuns[callee] && helperAlwaysPE[callee] {
			c.Pass("C14.R1", fmt.Sprintf("%s:after-filter#%d", rk, i+1), f.Instr.Pos(), "the helper consults processError after every filter run; its result is tested below")
			continue
		}
		bad := existsPath(recv, f.Instr, isSend, isPE)
		c.Check("C14.R1", fmt.Sprintf("%s:after-filter#%d", rk, i+1), f.Instr.Pos(), bad == nil, "processError is consulted before anything can be sent upstream", "after this receive-filter run an upstream send is reachable without consulting processError: a request a filter answered or terminated would still be forwarded")
	}
	if len(filters) < 3 {
		c.Unresolved("C14.R1", fmt.Sprintf("RunReceiverFilter calls in receive (found %d)", len(filters)))
	}
	// every processError/waitNotify result is tested and the error edge returns without sending
	npe := 0
	forEachInstr(recv, false, func(_ *ssa.Function, in ssa.Instruction) {
		if !isPE(in) {
			return
		}
		npe++
		key := fmt.Sprintf("%s:processError#%d", rk, npe)
		call := in.(*ssa.Call)
		var errIf *ssa.If
		for _, r := range refs(call) {
			if ex, ok := r.(*ssa.Extract); ok && ex.Index == 1 {
				for _, r2 := range refs(ex) {
					if bo, ok := r2.(*ssa.BinOp); ok && bo.Op == token.NEQ && isNilConst(bo.Y) {
						for _, r3 := range refs(bo) {
							if ifi, ok := r3.(*ssa.If); ok {
								errIf = ifi
							}
						}
					}
				}
			}
		}
		if errIf == nil {
			c.Fail("C14.R1", key, call.Pos(), "the error returned by processError is not tested: the phase machine would carry on with a request that was answered, reset or cleaned")
			return
		}
		// true edge: returns, reaching no send site
		bad := existsPathFrom(errIf.Block().Succs[0], isSend, isReturn)
		ret := existsPathFrom(errIf.Block().Succs[0], isReturn, nil)
		// between the call and the test nothing is sent
		mid := existsPath(recv, call, isSend, func(x ssa.Instruction) bool { return x == ssa.Instruction(errIf) })
		c.Check("C14.R1", key, call.Pos(), bad == nil && ret != nil && mid == nil, "err != nil leaves receive before any send", "the error edge of processError does not leave receive before an upstream send")
	})
	if npe < 10 {
		c.Unresolved("C14.R1", fmt.Sprintf("processError/waitNotify calls in receive (found %d)", npe))
	}

	// R2
	for _, h := range []string{"sendHijackReply", "sendHijackReplyWithBody"} {
		fn := c.M(pkg, "downStream", h)
		if fn == nil {
			c.Unresolved("C14.R2", "(*downStream)."+h)
			continue
		}
		c14Raises(c, fn, "C14.R2")
	}
	sf := "streamReceiverFilterHandler"
	for api, target := range map[string]string{"SendHijackReply": "sendHijackReply", "SendHijackReplyWithBody": "sendHijackReplyWithBody"} {
		fn := c.M(pkg, sf, api)
		if fn == nil {
			c.Unresolved("C14.R2", sf+"."+api)
			continue
		}
		cs := callsIn(fn, false, func(cc *ssa.CallCommon) bool { return methodName(cc) == target })
		c.Check("C14.R2", funcKey(fn)+":delegates", fn.Pos(), len(cs) == 1 && unconditionalIn(cs[0].Instr), "unconditionally calls downStream."+target, api+" does not unconditionally hand the reply to downStream."+target)
	}
	if fn := c.M(pkg, sf, "SendDirectResponse"); fn == nil {
		c.Unresolved("C14.R2", sf+".SendDirectResponse")
	} else {
		c14Raises(c, fn, "C14.R2")
	}

	// R3
	pk := funcKey(pe)
	var drIf *ssa.If
	for _, b := range pe.Blocks {
		if ifi, ok := b.Instrs[len(b.Instrs)-1].(*ssa.If); ok {
			if _, f, _, ok := loadedField(ifi.Cond); ok && f == "directResponse" {
				drIf = ifi
			}
		}
	}
	if drIf == nil {
		c.Fail("C14.R3", pk+":direct-response-branch", pe.Pos(), "processError does not test directResponse")
	} else {
		c.Check("C14.R3", pk+":cleaned-first", drIf.Pos(), guardedByFieldLoadEq(drIf, "downstreamCleaned", 1, false), "a terminated (cleaned) stream returns before the direct response is considered", "the cleaned check no longer precedes the directResponse branch")
		region := drIf.Block().Succs[0]
		inRegion := func(b *ssa.BasicBlock) bool { return region.Dominates(b) && edgeDominates(drIf.Block(), 0, b) }
		retryCleared := false
		flagCleared := false
		okRets, nret := true, 0
		tp := c.TypesPkg("pkg/types")
		upf, _ := int64(0), false
		if tp != nil {
			upf, _ = constOf(tp, "UpFilter")
		}
		one, _ := int64(0), false
		if tp != nil {
			one, _ = constOf(tp, "Oneway")
		}
		for _, b := range pe.Blocks {
			if !inRegion(b) {
				continue
			}
			for _, in := range b.Instrs {
				if st, ok := in.(*ssa.Store); ok {
					if _, f, _, ok := fieldAddrInfo(st.Addr); ok {
						if f == "retryState" && isNilConst(st.Val) {
							retryCleared = true
						}
						if f == "directResponse" {
							if bv, isB := constBool(st.Val); isB && !bv {
								flagCleared = true
							}
						}
					}
				}
				ret, ok := in.(*ssa.Return)
				if !ok {
					continue
				}
				nret++
				errV := unspill(ret, 1)
				phV := unspill(ret, 0)
				inUp := false
				for _, g := range guardsAt(b) {
					if bo, ok := g.Cond.(*ssa.BinOp); ok {
						if _, f, _, ok := loadedField(bo.X); ok && f == "phase" {
							if n, isC := constInt(bo.Y); isC && n == upf && ((bo.Op == token.NEQ && !g.True) || (bo.Op == token.EQL && g.True)) {
								inUp = true
							}
						}
					}
				}
				if inUp {
					continue // already in the send-filter phase: carry on with the reply
				}
				// otherwise the return must carry a definite error and the UpFilter/Oneway phase
				definiteErr := false
				if u, ok := errV.(*ssa.UnOp); ok && u.Op == token.MUL {
					if g, ok := u.X.(*ssa.Global); ok && g.Name() == "ErrExit" {
						definiteErr = true
					}
				}
				n, isC := constInt(phV)
				if !definiteErr || !isC || (n != upf && n != one) {
					okRets = false
				}
			}
		}
		c.Check("C14.R3", pk+":diverts", drIf.Pos(), okRets && nret >= 2, "a hijacked request leaves only for the send-filter phase (or Oneway) with ErrExit, or continues when already there", "a path of the directResponse branch returns to the normal phase order: the denied request would go on to choose a host and be forwarded")
		if !retryCleared {
			// equivalent: every function that raises directResponse clears the retry state itself (unconditionally,
			// directly or through a helper it always calls)
			clears := func(fn *ssa.Function) bool {
				ok := false
				var visit func(f *ssa.Function, d int)
				visit = func(f *ssa.Function, d int) {
					for _, st := range storesToField(f, ".downStream", "retryState", false) {
						if isNilConst(st.Val) && unconditionalIn(st) {
							ok = true
						}
					}
					if d >= 2 {
						return
					}
					forEachInstr(f, false, func(_ *ssa.Function, in ssa.Instruction) {
						if ci, isCall := in.(*ssa.Call); isCall && unconditionalIn(ci) {
							if callee := ci.Common().StaticCallee(); callee != nil && callee.Pkg == f.Pkg {
								visit(callee, d+1)
							}
						}
					})
				}
				visit(fn, 0)
				return ok
			}
			all, n := true, 0
			for _, f := range c.PkgFuncs(pkg) {
				raises := false
				for _, st := range storesToField(f, ".downStream", "directResponse", false) {
					if b, isB := constBool(st.Val); isB && b {
						raises = true
					}
				}
				if raises {
					n++
					if !clears(f) {
						all = false
					}
				}
			}
			retryCleared = all && n > 0
		}
		c.Check("C14.R3", pk+":no-retry", drIf.Pos(), retryCleared, "retryState cleared (in the directResponse branch, or by every function that raises directResponse): a denied request is never retried upstream", "a request answered by a filter keeps its retry state: neither the directResponse branch nor every raiser of directResponse clears it, so the filter's reply can be taken for a retryable upstream response and the denied request is sent upstream")
		c.Check("C14.R3", pk+":flag-consumed", drIf.Pos(), flagCleared, "directResponse is reset once consumed", "directResponse is not reset: the reply would be diverted again and again")
	}

	// R4
	tp := c.TypesPkg("pkg/types")
	if tp == nil {
		c.Unresolved("C14.R4", "package pkg/types")
	} else {
		names := []string{"DownFilter", "MatchRoute", "DownFilterAfterRoute", "ChooseHost", "DownFilterAfterChooseHost", "DownRecvHeader", "DownRecvData", "DownRecvTrailer", "Oneway", "Retry", "WaitNotify", "UpFilter", "UpRecvHeader", "UpRecvData", "UpRecvTrailer", "End"}
		prev := int64(-1)
		okOrder := true
		for _, n := range names {
			v, ok := constOf(tp, n)
			if !ok || v <= prev {
				okOrder = false
			}
			prev = v
		}
		c.Check("C14.R4", "pkg/types.Phase:order", token.NoPos, okOrder, "phase constants are strictly increasing in pipeline order", "the phase constants are no longer in pipeline order (receive advances with phase++)")
		upf, _ := constOf(tp, "UpFilter")
		caseOf := func(in ssa.Instruction) int64 {
			for _, g := range guardsAt(in.Block()) {
				if bo, ok := g.Cond.(*ssa.BinOp); ok && bo.Op == token.EQL && g.True {
					if n, isC := constInt(bo.Y); isC {
						if _, isPhi := bo.X.(*ssa.Phi); isPhi {
							return n
						}
						if _, isPar := bo.X.(*ssa.Parameter); isPar {
							return n
						}
						// the parameter lives in a cell because a closure captures it and the function assigns it again
						// (go/ssa spills it; --meta's capture rewrite): a load of a cell into which the parameter is stored
						if ld, isL := bo.X.(*ssa.UnOp); isL && ld.Op == token.MUL {
							if al, isA := ld.X.(*ssa.Alloc); isA {
								for _, r := range refs(al) {
									if st, isS := r.(*ssa.Store); isS && st.Addr == ssa.Value(al) {
										if _, fromPar := st.Val.(*ssa.Parameter); fromPar {
											return n
										}
									}
								}
							}
						}
					}
				}
			}
			return -1
		}
		sfs := callsIn(recv, false, func(cc *ssa.CallCommon) bool { return methodName(cc) == "RunSenderFilter" })
		c.Check("C14.R4", rk+":sender-filters-in-upfilter", recv.Pos(), len(sfs) == 1 && caseOf(sfs[0].Instr) == upf, "RunSenderFilter runs in the UpFilter case", "RunSenderFilter is not (only) in the UpFilter case")
		for _, m := range []string{"receiveHeaders", "receiveData", "receiveTrailers"} {
			cs := callsIn(recv, false, func(cc *ssa.CallCommon) bool {
				f := cc.StaticCallee()
				return f != nil && f.Name() == m && strings.Contains(f.String(), "upstreamRequest")
			})
			ok := len(cs) == 1 && caseOf(cs[0].Instr) > upf
			c.Check("C14.R4", rk+":reply-"+m+"-after-upfilter", recv.Pos(), ok, "upstreamRequest."+m+" only in a case after UpFilter", "the reply ("+m+") can be written in a phase that does not follow the send filters")
		}
	}

	// R5
	c14Chain(c)
	c14FlagOnlyWithFreshReply(c)
	c14ResumeAtAskingFilter(c)
}

// c14Raises: the function installs a complete reply and raises directResponse on every path - itself, or by
// unconditionally calling another function of the package that does. "Complete" means all three parts of the stored
// response are written: headers, data and trailers. A hijack that leaves the data (or trailers) of an earlier answer in
// place sends the client the new status line followed by the superseded answer's body.
func c14Raises(c *Ctx, fn *ssa.Function, rule string) {
	fk := funcKey(fn)
	var installs func(f *ssa.Function, d int) map[string]bool
	installs = func(f *ssa.Function, d int) map[string]bool {
		got := map[string]bool{}
		if f == nil || len(f.Blocks) == 0 || d > 2 {
			return got
		}
		forEachInstr(f, false, func(_ *ssa.Function, in ssa.Instruction) {
			switch x := in.(type) {
			case *ssa.Store:
				if _, fld, _, ok := fieldAddrInfo(x.Addr); ok && unconditionalIn(x) {
					switch fld {
					case "directResponse":
						if b, isB := constBool(x.Val); isB && b {
							got["flag"] = true
						}
					case "downstreamRespHeaders":
						got["headers"] = true
					case "downstreamRespDataBuf":
						got["data"] = true
					case "downstreamRespTrailers":
						got["trailers"] = true
					}
				}
			case *ssa.Call:
				if callee := x.Common().StaticCallee(); callee != nil && callee.Pkg == f.Pkg && unconditionalIn(x) {
					for k := range installs(callee, d+1) {
						got[k] = true
					}
				}
			}
		})
		return got
	}
	got := installs(fn, 0)
	c.Check(rule, fk+":raises-flag", fn.Pos(), got["flag"], "directResponse = true on every path", "a hijack path does not raise directResponse: the request would be answered AND forwarded upstream")
	c.Check(rule, fk+":installs-reply", fn.Pos(), got["headers"], "reply headers installed on every path", "a hijack path does not install the reply headers")
	c.Check(rule, fk+":replaces-the-whole-response", fn.Pos(), got["data"] && got["trailers"], "data and trailers of the stored response are written on every path", "a hijack path does not overwrite the data or trailers of the stored response on every path: when an earlier answer (a direct response of another filter, an upstream response given up for a retry) left a body there, the client gets the new reply's headers followed by the superseded answer's body")
}

func c14Chain(c *Ctx) {
	pkg := "pkg/streamfilter"
	for _, spec := range []struct{ fn, idx, call string }{{"RunReceiverFilter", "receiverFiltersIndex", "OnReceive"}, {"RunSenderFilter", "senderFiltersIndex", "Append"}} {
		fn := c.M(pkg, "DefaultStreamFilterChainImpl", spec.fn)
		if fn == nil {
			c.Unresolved("C14.R5", "DefaultStreamFilterChainImpl."+spec.fn)
			continue
		}
		fk := funcKey(fn)
		inv := callsIn(fn, false, func(cc *ssa.CallCommon) bool { return cc.IsInvoke() && cc.Method.Name() == spec.call })
		c.Check("C14.R5", fk+":one-invocation", fn.Pos(), len(inv) == 1 && inLoop(inv[0].Instr.Block()), "one filter invocation per loop iteration", "the chain does not invoke exactly one filter per iteration")
		// the invoked filter is filters[index]
		idxOK := false
		if len(inv) == 1 {
			if u, ok := stripIface(inv[0].Instr.Common().Value).(*ssa.UnOp); ok {
				if ia, ok := u.X.(*ssa.IndexAddr); ok {
					if _, f, _, ok := loadedField(ia.Index); ok && f == spec.idx {
						idxOK = true
					}
				}
			}
		}
		c.Check("C14.R5", fk+":indexed-by-cursor", fn.Pos(), idxOK, "invokes filters["+spec.idx+"]", "the invoked filter is not the one at the chain cursor")
		// increments: stores of idx+1 ; resets: stores of 0
		var incs, resets []*ssa.Store
		for _, st := range storesToField(fn, ".DefaultStreamFilterChainImpl", spec.idx, false) {
			if isZero(st.Val) {
				resets = append(resets, st)
			} else if bo, ok := st.Val.(*ssa.BinOp); ok && bo.Op == token.ADD {
				if n, isC := constInt(bo.Y); isC && n == 1 {
					if _, f, _, ok := loadedField(bo.X); ok && f == spec.idx {
						incs = append(incs, st)
						continue
					}
				}
				incs = append(incs, nil)
			} else {
				incs = append(incs, nil)
			}
		}
		okInc := len(incs) == 1 && incs[0] != nil
		c.Check("C14.R5", fk+":advance-by-one", fn.Pos(), okInc, "cursor advanced by exactly one per iteration", "the chain cursor is not advanced by exactly one per iteration: a filter would be skipped or run twice")
		// status-specific exits
		statusOf := func(b *ssa.BasicBlock) map[string]bool {
			out := map[string]bool{}
			for _, g := range guardsAt(b) {
				if bo, ok := g.Cond.(*ssa.BinOp); ok && bo.Op == token.EQL && g.True {
					if k, ok := bo.Y.(*ssa.Const); ok {
						if s, ok := constString(k); ok {
							out[s] = true
						}
					}
				}
			}
			return out
		}
		// returns reached from a status case
		resetBeforeReturn := func(ret ssa.Instruction) bool {
			for _, r := range resets {
				if r.Block() == ret.Block() || instrDominates(r, ret) {
					// reset in the same case arm
					if r.Block() == ret.Block() {
						return true
					}
				}
			}
			return false
		}
		var stopOK, reOK = true, true
		nStop, nRe := 0, 0
		for _, in := range instrsWhere(fn, isReturn) {
			// find the status under which this return's block is entered: look at preds (switch arms jump to a shared return)
			seen := map[string]bool{}
			var collect func(b *ssa.BasicBlock, depth int)
			collect = func(b *ssa.BasicBlock, depth int) {
				for k := range statusOf(b) {
					seen[k] = true
				}
				if depth > 2 {
					return
				}
				for _, p := range b.Preds {
					if len(p.Instrs) <= 2 || p == b {
						collect(p, depth+1)
					}
				}
			}
			collect(in.Block(), 0)
			_ = seen
		}
		// per status value: walk only the edges consistent with `status == V` from the filter invocation on. For Stop and
		// termination every return so reached must lie behind a reset of the cursor (wherever in the iteration it is made:
		// in the switch arm, or before the status handler, which may give the chain back to the pool); for the two re-run
		// statuses a return must be reached and no reset may lie on the way.
		statusEdge := func(v string) func(from, to *ssa.BasicBlock) bool {
			return func(from, to *ssa.BasicBlock) bool {
				ifi, ok := from.Instrs[len(from.Instrs)-1].(*ssa.If)
				if !ok || len(from.Succs) != 2 || from.Succs[0] == from.Succs[1] {
					return true
				}
				for _, g := range normGuard(Guard{Cond: ifi.Cond, True: to == from.Succs[0], If: ifi}) {
					bo, ok := g.Cond.(*ssa.BinOp)
					if !ok || (bo.Op != token.EQL && bo.Op != token.NEQ) {
						continue
					}
					k, ok := bo.Y.(*ssa.Const)
					if !ok {
						continue
					}
					sv, ok := constString(k)
					if !ok {
						continue
					}
					saysEqual := (bo.Op == token.EQL) == g.True
					if saysEqual != (sv == v) {
						return false
					}
				}
				return true
			}
		}
		isReset := func(in ssa.Instruction) bool {
			for _, r := range resets {
				if ssa.Instruction(r) == in {
					return true
				}
			}
			return false
		}
		if len(inv) == 1 {
			for _, v := range []string{"Stop", "termination"} {
				nStop++
				reaches := existsPathEdges(fn, inv[0].Instr, isReturn, nil, statusEdge(v)) != nil
				unreset := existsPathEdges(fn, inv[0].Instr, isReturn, isReset, statusEdge(v)) != nil
				if !reaches || unreset {
					stopOK = false
				}
			}
			for _, v := range []string{"Retry Match Route", "Retry Choose Host"} {
				nRe++
				if spec.fn != "RunReceiverFilter" {
					continue
				}
				// a return is reached before the next filter is invoked, and no reset on the way
				nextInv := func(in ssa.Instruction) bool { return in == inv[0].Instr }
				ret := existsPathEdges(fn, inv[0].Instr, isReturn, func(in ssa.Instruction) bool { return isReset(in) || nextInv(in) }, statusEdge(v)) != nil
				goesOn := existsPathEdges(fn, inv[0].Instr, func(in ssa.Instruction) bool { return isReset(in) || nextInv(in) }, isReturn, statusEdge(v)) != nil
				if !ret || goesOn {
					reOK = false
				}
			}
		}
		_ = resetBeforeReturn
		c.Check("C14.R5", fk+":stop-resets", fn.Pos(), stopOK && nStop >= 2, "Stop/termination reset the cursor and return", "Stop/termination do not reset the chain cursor and return: the next pass would start in the middle of the chain")
		if spec.fn == "RunReceiverFilter" {
			c.Check("C14.R5", fk+":rematch-resumes", fn.Pos(), reOK && nRe >= 2, "ReMatchRoute/ReChooseHost return without resetting the cursor (the phase resumes at the asking filter)", "ReMatchRoute/ReChooseHost reset the cursor (or do not return): earlier filters would run again after the re-match")
		}
		// after the loop the cursor is reset
		endReset := false
		for _, r := range resets {
			if !inLoop(r.Block()) {
				endReset = true
			}
		}
		c.Check("C14.R5", fk+":reset-at-end", fn.Pos(), endReset, "cursor reset when the chain completes", "the cursor is not reset after a complete pass")
	}
	// status handler
	fn := c.M("pkg/proxy", "downStream", "receiverFilterStatusHandler")
	if fn == nil {
		c.Unresolved("C14.R5", "(*downStream).receiverFilterStatusHandler")
		return
	}
	fk := funcKey(fn)
	tp := c.TypesPkg("pkg/types")
	type arm struct {
		status, phaseName string
		filterPhase       int64
	}
	mr, _ := constOf(tp, "MatchRoute")
	ch, _ := constOf(tp, "ChooseHost")
	// The chain has left its cursor on the asking filter, so once the handler is in the arm (status, matching filter phase)
	// the again-phase must be recorded on every path - directly, or by a helper of the package that stores its parameter
	// unconditionally. An arm that can decline (a cap, an extra condition) leaves the pass unresumed: the filters after the
	// asking one never run and the next phase starts in the middle of the chain.
	okMap := map[int64]bool{}
	whyMap := map[int64]string{}
	armGuards := func(b *ssa.BasicBlock) (status string, phaseGuard bool) {
		for _, g := range guardsAt(b) {
			bo, ok := g.Cond.(*ssa.BinOp)
			if !ok || bo.Op != token.EQL || !g.True {
				continue
			}
			if k, ok := bo.Y.(*ssa.Const); ok {
				if sv, ok := constString(k); ok {
					status = sv
				}
			}
			if sameParam(bo.X, fn.Params[1]) {
				phaseGuard = true
			}
		}
		return
	}
	record := func(n int64, b *ssa.BasicBlock, at ssa.Instruction, sure bool, why string) {
		status, phaseGuard := armGuards(b)
		if !((n == mr && status == "Retry Match Route") || (n == ch && status == "Retry Choose Host")) || !phaseGuard {
			return
		}
		// within the arm the recording instruction itself must not be skippable: no path from the arm's entry (the block
		// right after the phase test) to the function's return avoids it
		armSure := true
		for _, g := range guardsAt(b) {
			if bo, ok := g.Cond.(*ssa.BinOp); ok && sameParam(bo.X, fn.Params[1]) && g.True {
				entry := g.If.Block().Succs[0]
				if existsPathFrom(entry, isReturn, func(x ssa.Instruction) bool { return x == at }) != nil {
					armSure = false
				}
			}
		}
		if sure && armSure {
			okMap[n] = true
		} else if why != "" {
			whyMap[n] = why
		} else {
			whyMap[n] = "the arm can be left without recording the phase"
		}
	}
	for _, st := range storesToField(fn, ".downStream", "receiverFiltersAgainPhase", false) {
		if n, isC := constInt(st.Val); isC {
			record(n, st.Block(), st, true, "")
		}
	}
	for _, cs := range callsIn(fn, false, func(cc *ssa.CallCommon) bool {
		f := cc.StaticCallee()
		return f != nil && f.Pkg == fn.Pkg && len(f.Blocks) > 0
	}) {
		h := cs.Instr.Common().StaticCallee()
		for _, st := range storesToField(h, ".downStream", "receiverFiltersAgainPhase", false) {
			par, isP := st.Val.(*ssa.Parameter)
			if !isP {
				continue
			}
			idx := -1
			for i, q := range h.Params {
				if q == par {
					idx = i
				}
			}
			if idx < 0 || idx >= len(cs.Instr.Common().Args) {
				continue
			}
			n, isC := constInt(cs.Instr.Common().Args[idx])
			if !isC {
				continue
			}
			sure := unconditionalIn(st)
			why := ""
			if !sure {
				why = h.Name() + " records the phase only on some of its paths"
			}
			record(n, cs.Instr.Block(), cs.Instr, sure, why)
		}
	}
	detail := ""
	for _, k := range []int64{mr, ch} {
		if !okMap[k] && whyMap[k] != "" {
			detail += " (" + whyMap[k] + ")"
		}
	}
	c.Check("C14.R5", fk+":rematch-mapping", fn.Pos(), okMap[mr] && okMap[ch], "ReMatchRoute->MatchRoute only after-route; ReChooseHost->ChooseHost only after-choose-host; recorded on every path of the arm", "the status handler does not always map re-match/re-choose to their phases under the matching filter phase"+detail+": the chain has left its cursor on the asking filter, so when the phase is not recorded the pass is never resumed - the filters configured after the asking one are skipped and the next phase starts in the middle of the chain (a denying filter does not run and the request is forwarded)")
	term := callsIn(fn, false, func(cc *ssa.CallCommon) bool { return methodName(cc) == "cleanStream" })
	c.Check("C14.R5", fk+":termination-cleans", fn.Pos(), len(term) == 1, "termination ends the stream (cleanStream)", "termination no longer cleans the stream")
}

// c14FlagOnlyWithFreshReply (R2, package-wide): directResponse sends *the current* downstreamRespHeaders/Data/Trailers
// into the send-filter phase (processError turns the flag into phase UpFilter). A response object that came from an
// upstream has been through the send filters already when the retry decision is taken, so raising the flag over it runs
// every send filter a second time on the response the client receives. Clause: every store of true into
// downStream.directResponse, anywhere in pkg/proxy, is dominated in the same function by a store that installs
// downstreamRespHeaders - the flag is only ever raised together with a reply made for this purpose.
func c14FlagOnlyWithFreshReply(c *Ctx) {
	n := 0
	ord := ordCounter{}
	for _, fn := range c.PkgFuncs("pkg/proxy") {
		for _, st := range storesToField(fn, "downStream", "directResponse", false) {
			if b, ok := constBool(st.Val); !ok || !b {
				continue
			}
			n++
			fresh := false
			for _, h := range storesToField(fn, "downStream", "downstreamRespHeaders", false) {
				if instrDominates(h, st) {
					fresh = true
				}
			}
			c.Check("C14.R2", ord.next(fn, "flag-only-with-fresh-reply"), st.Pos(), fresh, "the reply headers are installed before the flag is raised", "directResponse is raised over whatever response is currently stored: a response that already went through the send filters (an upstream response given up for a retry) is sent through them again, so each send filter runs twice on the response the client receives")
		}
	}
	if n < 1 {
		c.Unresolved("C14.R2", fmt.Sprintf("stores of true into downStream.directResponse (found %d)", n))
	}
}
