package main

import (
	"fmt"
	"go/token"
	"go/types"
	"strings"

	"golang.org/x/tools/go/ssa"
)

// C02 — request/response correlation (structural clauses).

func init() {
	pats := append(codecPatterns(), "./pkg/stream/http", "./pkg/network", "./pkg/proxy", "./pkg/stream", "./pkg/stream/http2", "./pkg/filter/stream/mirror")
	register(&PropSpec{
		ID:       "C02",
		Patterns: pats,
		Explanation: "(R1) the stream's own id is written into the frame before every Encode of a stream frame; (R2) the client stream table is read, inserted, deleted and ranged only with its mutex held (the connReset exception is verified by caller-holds-lock, not waived); " +
			"(R3) consume-once: in handleResponse the entry is deleted with the key it was looked up with, inside one critical section, before the receiver is invoked, and an unknown/duplicate id returns without touching any receiver; streams are inserted under their own id; " +
			"(R4) every GenerateRequestID draws from atomic.AddUint64 on the connection's counter; (R5) one Write is one critical section: the connection's write buffers are appended and flushed only on the TryLock-success branch; " +
			"(R6) a ping-pong client whose exchange was reset is closed, not pooled (same rule as C09.R2); (R7) timer callbacks disable buffer reuse, check cleaned, check the generation id and win the CAS, in that order, before touching the stream; (R8) buffers are recycled only when reuse is still enabled and neither side was reset. (R9) Dispatch advances the context manager on every path from handleFrame to the next Decode and Decode receives the context obtained in the same iteration. (R10) every Reset of a per-stream BufferPoolCtx on the request path (proxy, http, xprotocol streams, bolt/boltv2 frame models) returns the object to its zero state, as a whole-value store or field by field. (R7, rewritten) the timer callback together with the helper methods it calls: reuse off first, cleaned check, generation check against an id captured when the timer was armed (closure variable or helper parameter bound to one), CAS, handler only for the winner. (R11) the C01.R7 taint rule on pkg/stream/http2 as a clause of this property: the []byte HandleFrame returns is copied, never wrapped, stored or kept. (R12) the C01.R2 alias analysis as a clause of this property: nothing derived by slicing the connection read buffer is kept in a decoded frame. (R13) the C09.R8 reset-closes analysis as a clause of this property: a reset ping-pong exchange never leaves its connection in the idle list, where the late response would be read by the next request. (R14) every send on serverStream.responseDoneChan is preceded by doSend() on every path.",
		Run: runC02,
	})
}

func runC02(c *Ctx) {
	c.Rule("C02.R15", "frozen lockset: the HTTP/2 stream-id tables and the HTTP/1 server connection's current stream are only touched under their mutex", 10)
	defer runLockTables(c, "C02", nil)
	c.Rule("C02.R1", "stream id restored on the frame before Encode", 2)
	c.Rule("C02.R2", "client stream table only under clientMutex", 6)
	c.Rule("C02.R3", "response consumed once: delete-before-dispatch with the lookup key; unknown ids dropped", 5)
	c.Rule("C02.R4", "request id generators are atomic on the connection counter", 5)
	c.Rule("C02.R5", "write buffers appended and flushed only inside the write critical section", 3)
	c.Rule("C02.R6", "reset ping-pong clients are closed, not pooled", 6)
	c.Rule("C02.R7", "timer callbacks: reuse off -> cleaned check -> generation check -> CAS -> handler", 2)
	c.Rule("C02.R8", "stream buffers recycled only when reuse is enabled and no side was reset", 2)
	c.Rule("C02.R9", "every decoded frame gets its own stream-level context (no reuse after a dropped frame)", 2)
	c.Rule("C02.R17", "HTTP/2 frame reader: a header block is fed to the connection HPACK decoder once, after all of it arrived (re-parsing after need-more-data must not decode twice)", 5)
	defer runC07H2(c, "", "C02.R17")
	c.Rule("C02.R16", "HTTP/2: a header block is encoded and written under one hold of the connection mutex, so responses sharing a connection cannot exchange header fields", 4)
	defer c18EncodeAndWriteAtomic(c, "C02.R16")
	c.Rule("C02.R10", "recycled per-stream buffer contexts are wiped completely", 5)
	defer c02WipedBuffers(c)
	c.Rule("C02.R11", "an HTTP/2 body handed to the proxy is a copy: a view of the connection read buffer would be overwritten by the next exchange's bytes (header and body from different exchanges)", 2)
	defer c01H2BodyCopied(c, "C02.R11")
	c.Rule("C02.R14", "HTTP/1 downstream: the next request is read only after this response has been written", 1)
	defer c02HTTP1OneExchangeAtATime(c)
	c.Rule("C02.R12", "a decoded xprotocol frame never aliases the connection read buffer (its body would become the next exchange's bytes)", 20)
	defer c01Alias(c, "C02.R12")
	c.Rule("C02.R13", "a client stream is reset only with a reason for which the ping-pong pool closes the connection, or on a closed connection (a re-pooled connection delivers the abandoned exchange's late response to the next request)", 6)
	defer c09ResetCloses(c, "C02.R13")
	defer c02FreshContext(c)
	c.NotDecided = append(c.NotDecided, "behaviour under concrete interleavings (only the structure that makes misdelivery impossible under lock/atomic semantics)", "HTTP/2 stream-id correlation (x/net fork)", "id counter wrap-around collisions with still-pending ids")
	c.Assumptions = append(c.Assumptions, "sync.Mutex / sync/atomic semantics", "the read loop of a connection is single-threaded (one Dispatch at a time per connection)")

	sx := "pkg/stream/xprotocol"
	// R1
	if fn := c.M(sx, "xStream", "endStream"); fn == nil {
		c.Unresolved("C02.R1", "(*xStream).endStream")
	} else {
		n := 0
		for _, cs := range callsIn(fn, false, func(cc *ssa.CallCommon) bool { return cc.IsInvoke() && cc.Method.Name() == "Encode" }) {
			n++
			key := fmt.Sprintf("%s:encode#%d", funcKey(fn), n)
			frame := argsOf(cs.Instr.Common())[1]
			ok := false
			for _, set := range callsIn(fn, false, func(cc *ssa.CallCommon) bool { return cc.IsInvoke() && cc.Method.Name() == "SetRequestId" }) {
				if !instrDominates(set.Instr, cs.Instr) {
					continue
				}
				// same frame value (both loads of s.frame) and the id is s.id
				_, ff, fb, ok1 := loadedField(stripIface(set.Instr.Common().Value))
				_, ef, eb, ok2 := loadedField(stripIface(frame))
				_, idf, idb, ok3 := loadedField(set.Instr.Common().Args[0])
				if ok1 && ok2 && ok3 && ff == "frame" && ef == "frame" && idf == "id" && sameObj(fb, eb) && sameObj(idb, fb) {
					ok = true
				}
			}
			c.Check("C02.R1", key, cs.Instr.Pos(), ok, "s.frame.SetRequestId(s.id) dominates Encode(s.frame)", "a stream frame is encoded without first writing the stream's own id into it: the peer's answer would be matched to another exchange")
		}
		if n == 0 {
			c.Unresolved("C02.R1", "Encode call in endStream")
		}
	}
	// server stream id comes from the request frame, client stream id from the generator
	if fn := c.M(sx, "streamConn", "newServerStream"); fn != nil {
		ok := false
		for _, st := range storesToField(fn, ".xStream", "id", false) {
			if call, isCall := st.Val.(*ssa.Call); isCall && methodName(call.Common()) == "GetRequestId" && sameParam(stripIface(call.Common().Value), fn.Params[2]) {
				ok = true
			}
		}
		c.Check("C02.R1", funcKey(fn)+":server-id", fn.Pos(), ok, "server stream id = request frame's id", "the server stream does not take its id from the request frame: the response would carry a different id than the request")
	} else {
		c.Unresolved("C02.R1", "(*streamConn).newServerStream")
	}
	if fn := c.M(sx, "streamConn", "newClientStream"); fn != nil {
		ok := false
		for _, st := range storesToField(fn, ".xStream", "id", false) {
			if call, isCall := st.Val.(*ssa.Call); isCall && methodName(call.Common()) == "GenerateRequestID" {
				if _, f, _, okf := fieldAddrInfo(call.Common().Args[0]); okf && f == "clientStreamIDBase" {
					ok = true
				}
			}
		}
		c.Check("C02.R1", funcKey(fn)+":client-id", fn.Pos(), ok, "client stream id = GenerateRequestID(&sc.clientStreamIDBase)", "client stream ids are not drawn from the connection's generator")
	} else {
		c.Unresolved("C02.R1", "(*streamConn).newClientStream")
	}

	// R2
	ord := ordCounter{}
	nacc := 0
	for _, fn := range c.PkgFuncs(sx) {
		for _, acc := range fieldAccesses(fn, ".streamConn", "clientStreams", false) {
			nacc++
			key := ord.next(fn, "clientStreams")
			switch {
			case lockHeld(acc, "clientMutex"):
				c.Pass("C02.R2", key, nearestPos(acc), "clientMutex held")
			case strings.HasPrefix(fn.Name(), "new"):
				c.Pass("C02.R2", key, nearestPos(acc), "construction")
			default:
				c.Fail("C02.R2", key, nearestPos(acc), "streamConn.clientStreams accessed without clientMutex: a response can be matched while the table is being changed")
			}
		}
	}
	if nacc == 0 {
		c.Unresolved("C02.R2", "streamConn.clientStreams accesses")
	}
	// connReset exception: xStream.ResetStream skips the lock only when connReset, which is set only by Reset under the lock
	if fn := c.M(sx, "streamConn", "Reset"); fn != nil {
		ok := false
		for _, st := range storesToField(fn, ".xStream", "connReset", false) {
			if lockHeld(st, "clientMutex") {
				ok = true
			}
		}
		others := 0
		for _, f := range c.PkgFuncs(sx) {
			if f == fn {
				continue
			}
			others += len(storesToField(f, ".xStream", "connReset", false))
		}
		c.Check("C02.R2", funcKey(fn)+":connReset-under-lock", fn.Pos(), ok && others == 0, "connReset is set only by Reset while it holds clientMutex", "connReset (which lets ResetStream skip the table lock) is set outside streamConn.Reset's critical section")
	} else {
		c.Unresolved("C02.R2", "(*streamConn).Reset")
	}

	// R3
	if fn := c.M(sx, "streamConn", "handleResponse"); fn == nil {
		c.Unresolved("C02.R3", "(*streamConn).handleResponse")
	} else {
		fk := funcKey(fn)
		var lookup *ssa.Lookup
		var del ssa.CallInstruction
		forEachInstr(fn, false, func(_ *ssa.Function, in ssa.Instruction) {
			if l, ok := in.(*ssa.Lookup); ok {
				if _, f, _, ok := loadedField(l.X); ok && f == "clientStreams" {
					lookup = l
				}
			}
			if ci, ok := in.(ssa.CallInstruction); ok {
				if b, ok := ci.Common().Value.(*ssa.Builtin); ok && b.Name() == "delete" {
					del = ci
				}
			}
		})
		recv := callsIn(fn, false, func(cc *ssa.CallCommon) bool { return cc.IsInvoke() && cc.Method.Name() == "OnReceive" })
		if lookup == nil || del == nil || len(recv) != 1 {
			c.Fail("C02.R3", fk+":shape", fn.Pos(), "expected one table lookup, one delete and one OnReceive in handleResponse")
		} else {
			keyIsID := false
			if call, ok := lookup.Index.(*ssa.Call); ok && methodName(call.Common()) == "GetRequestId" && sameParam(stripIface(call.Common().Value), fn.Params[2]) {
				keyIsID = true
			}
			c.Check("C02.R3", fk+":lookup-key", lookup.Pos(), keyIsID, "looked up by the response frame's request id", "the response is not looked up by its own request id")
			c.Check("C02.R3", fk+":delete-same-key", del.Pos(), del.Common().Args[1] == lookup.Index && instrDominates(lookup, del), "deleted with the key it was looked up with", "the entry deleted is not the entry that was looked up")
			c.Check("C02.R3", fk+":delete-before-dispatch", recv[0].Instr.Pos(), instrDominates(del, recv[0].Instr), "entry removed before the receiver runs", "the receiver is invoked before the entry is removed: a duplicate response would be delivered twice")
			// one critical section: lock held at lookup and at delete, and no unlock between
			c.Check("C02.R3", fk+":one-critical-section", del.Pos(), lockHeld(lookup, "clientMutex") && lockHeld(del, "clientMutex") &&
				existsPath(fn, lookup, func(in ssa.Instruction) bool { return in == ssa.Instruction(del) }, func(in ssa.Instruction) bool {
					ci, ok := in.(*ssa.Call)
					return ok && methodName(ci.Common()) == "Unlock"
				}) != nil, "lookup and delete under one lock acquisition", "lookup and delete are not in one critical section: two identical responses could both find the entry")
			// receiver is the looked-up stream's receiver
			recvOK := false
			if _, f, base, ok := loadedField(stripIface(recv[0].Instr.Common().Value)); ok && f == "receiver" {
				if ex, ok := base.(*ssa.Extract); ok && ex.Tuple == ssa.Value(lookup) && ex.Index == 0 {
					recvOK = true
				}
			}
			c.Check("C02.R3", fk+":receiver-of-entry", recv[0].Instr.Pos(), recvOK, "OnReceive is invoked on the looked-up stream's receiver", "the receiver invoked is not the one stored with the looked-up id")
			// !ok path returns without OnReceive: OnReceive dominated by ok true edge
			okGuard := false
			for _, g := range guardsAt(recv[0].Instr.Block()) {
				if ex, ok := g.Cond.(*ssa.Extract); ok && ex.Tuple == ssa.Value(lookup) && ex.Index == 1 && g.True {
					okGuard = true
				}
			}
			c.Check("C02.R3", fk+":unknown-id-dropped", recv[0].Instr.Pos(), okGuard, "unknown or already-completed ids return without invoking any receiver", "a response with an unknown id can reach a receiver")
		}
	}
	if fn := c.M(sx, "streamConn", "NewStream"); fn != nil {
		ok := false
		forEachInstr(fn, false, func(_ *ssa.Function, in ssa.Instruction) {
			if mu, isMU := in.(*ssa.MapUpdate); isMU {
				_, kf, kb, ok1 := loadedField(mu.Key)
				if ok1 && kf == "id" && kb == mu.Value && lockHeld(mu, "clientMutex") {
					ok = true
				}
			}
		})
		c.Check("C02.R3", funcKey(fn)+":insert-own-id", fn.Pos(), ok, "stream inserted under its own id, with the lock held", "a client stream is not registered under its own id (under the lock)")
	} else {
		c.Unresolved("C02.R3", "(*streamConn).NewStream")
	}

	// R4
	ngen := 0
	for _, pkg := range append(append([]string{}, codecPkgs...), "pkg/protocol/xprotocol/example", "pkg/protocol/xprotocol/wasm") {
		for _, fn := range c.PkgFuncs(pkg) {
			if fn.Name() != "GenerateRequestID" || fn.Signature.Recv() == nil {
				continue
			}
			ngen++
			okAll, nret := true, 0
			for _, in := range instrsWhere(fn, isReturn) {
				nret++
				v := stripConvNum(unspill(in.(*ssa.Return), 0))
				call, ok := v.(*ssa.Call)
				if ok && isAtomicCall(call.Common(), "AddUint64") && sameParam(call.Common().Args[0], fn.Params[1]) {
					if n, isC := constInt(call.Common().Args[1]); isC && n >= 1 {
						continue
					}
				}
				// plugin-generated ids (wasm) are outside the clause
				if ok && strings.Contains(fn.Pkg.Pkg.Path(), "/wasm") {
					continue
				}
				okAll = false
			}
			c.Check("C02.R4", funcKey(fn)+":atomic", fn.Pos(), okAll && nret > 0, "returns (a narrowing of) atomic.AddUint64(streamID, n)", "GenerateRequestID is not an atomic increment of the connection's counter: two concurrent requests can get the same id")
		}
	}
	if ngen < 5 && !c.Whole {
		// example/wasm packages are only loaded in the thorough tier
	}
	if ngen < 5 {
		c.Unresolved("C02.R4", fmt.Sprintf("GenerateRequestID implementations (found %d)", ngen))
	}

	// R5
	if fn := c.M("pkg/network", "connection", "writeDirectly"); fn == nil {
		c.Unresolved("C02.R5", "(*connection).writeDirectly")
	} else {
		fk := funcKey(fn)
		try := callsIn(fn, false, func(cc *ssa.CallCommon) bool { return methodName(cc) == "TryLock" })
		for _, name := range []string{"appendBuffer", "doWrite"} {
			cs := callsIn(fn, false, func(cc *ssa.CallCommon) bool { return methodName(cc) == name })
			ok := len(cs) == 1 && len(try) == 1
			if ok {
				ok = false
				for _, g := range guardsAt(cs[0].Instr.Block()) {
					if g.Cond == try[0].Instr.(ssa.Value) && g.True {
						ok = true
					}
				}
			}
			c.Check("C02.R5", fk+":"+name+"-under-trylock", fn.Pos(), ok, name+" only on the TryLock-success branch", name+" can run without the connection's write lock: bytes of two messages can interleave on the wire")
		}
		// appendBuffer/doWrite callers: only writeDirectly and the single-consumer write loop
		bad := []string{}
		for _, f := range c.PkgFuncs("pkg/network") {
			for _, name := range []string{"appendBuffer"} {
				for range callsIn(f, false, func(cc *ssa.CallCommon) bool {
					return methodName(cc) == name && cc.StaticCallee() != nil && strings.Contains(cc.StaticCallee().String(), "connection")
				}) {
					// transferWrite is the write loop's twin while a connection is being handed over (single consumer of writeBufferChan)
					if f.Name() != "writeDirectly" && f.Name() != "startWriteLoop" && f.Name() != "transferWrite" {
						bad = append(bad, f.Name())
					}
				}
			}
		}
		c.Check("C02.R5", fk+":append-callers", fn.Pos(), len(bad) == 0, "write buffers are appended only by writeDirectly and the write loop", "write buffers are appended from "+strings.Join(bad, ","))
	}

	// R6
	for _, p := range c09Pools {
		c09FlagsRule(c, p, "C02.R6")
	}

	// R7 + R8
	timerClosureChain(c, "C02.R7")
	if fn := c.M("pkg/proxy", "downStream", "giveStream"); fn == nil {
		c.Unresolved("C02.R8", "(*downStream).giveStream")
	} else {
		fk := funcKey(fn)
		gives := callsIn(fn, false, func(cc *ssa.CallCommon) bool { n := methodName(cc); return n == "Give" || n == "PutIoBuffer" })
		if len(gives) == 0 {
			c.Fail("C02.R8", fk+":gives", fn.Pos(), "giveStream no longer returns buffers")
		}
		okAll := true
		for _, g := range gives {
			okReuse := guardedByFieldLoadEq(g.Instr, "reuseBuffer", 1, true)
			okUp := guardedByFieldLoadEq(g.Instr, "upstreamReset", 1, false)
			okDown := guardedByFieldLoadEq(g.Instr, "downstreamReset", 1, false)
			if !(okReuse && okUp && okDown) {
				okAll = false
			}
		}
		c.Check("C02.R8", fk+":recycle-gate", fn.Pos(), okAll && len(gives) > 0, "buffers given back only when reuseBuffer==1 and neither side was reset", "stream buffers can be recycled although a timer/reset path may still touch them: a later request could see this request's data")
		// every store of reuseBuffer other than the constructor's is a store of 0
		bad := 0
		n := 0
		for _, f := range c.PkgFuncs("pkg/proxy") {
			forEachInstr(f, false, func(_ *ssa.Function, in ssa.Instruction) {
				if call, ok := in.(*ssa.Call); ok && isAtomicCall(call.Common(), "Store") {
					if _, fld, _, ok := fieldAddrInfo(call.Common().Args[0]); ok && fld == "reuseBuffer" {
						n++
						if !isZero(call.Common().Args[1]) {
							bad++
						}
					}
				}
			})
		}
		c.Check("C02.R8", fk+":reuse-only-disabled", fn.Pos(), bad == 0 && n >= 6, fmt.Sprintf("%d atomic stores, all disabling reuse", n), "reuseBuffer is re-enabled somewhere after construction")
	}
}

// timerClosureChain: in each closure given to utils.NewTimer in downstream.go the dominance chain is
// Store(reuseBuffer,0) -> cleaned check -> generation (ID) check -> CAS(upstreamResponseReceived) -> handler.
func timerClosureChain(c *Ctx, rule string) {
	n := 0
	for _, fn := range c.PkgFuncs("pkg/proxy") {
		for _, cs := range callsIn(fn, false, func(cc *ssa.CallCommon) bool { return strings.HasSuffix(calleeName(cc), "utils.NewTimer") }) {
			cl := closureFn(cs.Instr.Common().Args[1])
			if cl == nil || !strings.Contains(fn.String(), "downStream") {
				continue
			}
			n++
			key := fmt.Sprintf("%s:timer#%d", funcKey(fn), n)
			// a bound method value as callback: the body is the method itself
			if cl.Synthetic != "" && strings.HasSuffix(cl.Name(), "$bound") {
				for _, in := range instrsWhere(cl, func(in ssa.Instruction) bool { _, ok := in.(*ssa.Call); return ok }) {
					if callee := in.(*ssa.Call).Common().StaticCallee(); callee != nil && callee.Blocks != nil {
						cl = callee
					}
				}
			}
			ok, why := timerCallbackOK(cl)
			c.Check(rule, key, cs.Instr.Pos(), ok,
				"reuse disabled first; cleaned and arm-time generation checked before the CAS; handler only for the CAS winner",
				"timer callback does not follow reuse-off -> cleaned check -> generation check against the id taken when the timer was armed -> CAS -> handler ("+why+"): a timer of a finished request could act on the stream object now serving another request")
		}
	}
	if n < 2 {
		c.Unresolved(rule, fmt.Sprintf("timer closures in downstream.go (found %d)", n))
	}
}

// timerCallbackOK analyses the callback cl together with the downStream methods it calls directly (a refactoring may
// move the guard into a helper). G is the function that performs the CAS on upstreamResponseReceived.
func timerCallbackOK(cl *ssa.Function) (bool, string) {
	findCAS := func(f *ssa.Function) ssa.Instruction {
		var cas ssa.Instruction
		forEachInstr(f, false, func(_ *ssa.Function, in ssa.Instruction) {
			if call, ok := in.(*ssa.Call); ok && isAtomicCall(call.Common(), "CompareAndSwap") {
				if _, fld, _, ok := fieldAddrInfo(call.Common().Args[0]); ok && fld == "upstreamResponseReceived" {
					cas = in
				}
			}
		})
		return cas
	}
	isHandler := func(in ssa.Instruction) bool {
		call, ok := in.(*ssa.Call)
		if !ok || call.Common().StaticCallee() == nil {
			return false
		}
		n := call.Common().StaticCallee().Name()
		return n == "onResponseTimeout" || n == "onPerReqTimeout"
	}
	G := cl
	var site *ssa.Call // call of G in cl when G != cl
	cas := findCAS(cl)
	if cas == nil {
		for _, in := range instrsWhere(cl, func(in ssa.Instruction) bool { _, ok := in.(*ssa.Call); return ok }) {
			call := in.(*ssa.Call)
			if h := call.Common().StaticCallee(); h != nil && h.Blocks != nil && h.Pkg == cl.Pkg {
				if x := findCAS(h); x != nil {
					G, site, cas = h, call, x
				}
			}
		}
	}
	if cas == nil {
		return false, "no CompareAndSwap on upstreamResponseReceived in the callback or a helper it calls"
	}
	// reuse off first: the first block of the callback (or of G) stores reuseBuffer=0 before anything else happens
	storeFirst := false
	for _, f := range []*ssa.Function{cl, G} {
		for _, in := range f.Blocks[0].Instrs {
			if call, ok := in.(*ssa.Call); ok && isAtomicCall(call.Common(), "Store") {
				if _, fld, _, ok := fieldAddrInfo(call.Common().Args[0]); ok && fld == "reuseBuffer" && isZero(call.Common().Args[1]) {
					if f == G || site == nil || instrDominates(in, site) {
						storeFirst = true
					}
				}
			}
		}
	}
	if !storeFirst {
		return false, "reuse is not switched off first"
	}
	if !guardedByFieldLoadEq(cas, "downstreamCleaned", 1, false) {
		return false, "no cleaned check before the CAS"
	}
	// generation: guard `X == atomic.Load(&s.ID)` where X was taken when the timer was armed
	gen, armTime := false, false
	for _, g := range guardsAt(cas.Block()) {
		bo, ok := g.Cond.(*ssa.BinOp)
		if !ok || (bo.Op != token.NEQ && bo.Op != token.EQL) {
			continue
		}
		for i, side := range []ssa.Value{bo.X, bo.Y} {
			call, ok := side.(*ssa.Call)
			if !ok || !isAtomicCall(call.Common(), "Load") {
				continue
			}
			if _, f, _, ok := fieldAddrInfo(call.Common().Args[0]); !ok || f != "ID" {
				continue
			}
			if !((bo.Op == token.NEQ && !g.True) || (bo.Op == token.EQL && g.True)) {
				continue
			}
			gen = true
			other := bo.Y
			if i == 1 {
				other = bo.X
			}
			armTime = capturedAtArmTime(other, G, cl, site)
		}
	}
	if !gen {
		return false, "no generation check before the CAS"
	}
	if !armTime {
		return false, "the generation id it compares with is read when the timer fires, not when it was armed - the comparison can never fail"
	}
	// handler only for the CAS winner
	won := false
	for _, f := range []*ssa.Function{cl, G} {
		for _, h := range instrsWhere(f, isHandler) {
			for _, g := range guardsAt(h.Block()) {
				if f == G && g.Cond == cas.(ssa.Value) && g.True {
					won = true
				}
				if f == cl && site != nil && g.Cond == ssa.Value(site) && g.True && returnsTrueOnlyWhen(G, cas) {
					won = true
				}
			}
		}
	}
	if !won {
		return false, "the timeout handler is not confined to the CAS winner"
	}
	return true, ""
}

// capturedAtArmTime: v is a captured variable of the callback, or a parameter of the helper whose argument at the call
// in the callback is a captured variable.
func capturedAtArmTime(v ssa.Value, G, cl *ssa.Function, site *ssa.Call) bool {
	strip := func(x ssa.Value) ssa.Value {
		if u, ok := x.(*ssa.UnOp); ok && u.Op == token.MUL {
			return u.X
		}
		return x
	}
	v = strip(v)
	if fv, ok := v.(*ssa.FreeVar); ok && fv.Parent() == cl {
		return true
	}
	if p, ok := v.(*ssa.Parameter); ok && p.Parent() == G && site != nil {
		for i, q := range G.Params {
			if q == p && i < len(site.Call.Args) {
				if fv, ok := strip(site.Call.Args[i]).(*ssa.FreeVar); ok && fv.Parent() == cl {
					return true
				}
			}
		}
	}
	return false
}

// returnsTrueOnlyWhen: every `return true` (or return of the CAS value) of f happens on the CAS-won edge.
func returnsTrueOnlyWhen(f *ssa.Function, cas ssa.Instruction) bool {
	ok := true
	n := 0
	for _, rs := range returnSites(f, 0) {
		if rs.val == cas.(ssa.Value) {
			n++
			continue
		}
		b, isC := constBool(rs.val)
		if !isC {
			ok = false
			continue
		}
		if !b {
			continue
		}
		n++
		won := false
		for _, g := range guardsAt(rs.at.Block()) {
			if g.Cond == cas.(ssa.Value) && g.True {
				won = true
			}
		}
		if !won {
			ok = false
		}
	}
	return ok && n >= 1
}

// sameObj: the two values denote the same object: identical SSA value, or loads of the same (structurally equal) address.
func sameObj(a, b ssa.Value) bool {
	return a == b || sameAddrIdx(a, b)
}

// c02FreshContext (R9): every decoded frame gets its own stream-level context.
// Decoders keep the frame model in the per-stream buffer context and only overwrite the parts present in the new frame
// (bolt sets Content only when contentLen > 0). If the context of a frame that was dropped (late reply, unknown id) is
// reused for the next frame, that frame inherits the other exchange's body. Clause: on every path from handleFrame back
// to the next Decode the context manager is advanced (ctxManager.Next()), and the context passed to Decode is the one
// obtained from ctxManager.Get() in the same iteration.
func c02FreshContext(c *Ctx) {
	fn := c.M("pkg/stream/xprotocol", "streamConn", "Dispatch")
	if fn == nil {
		c.Unresolved("C02.R9", "(*streamConn).Dispatch")
		return
	}
	fk := funcKey(fn)
	dec := callsIn(fn, false, func(cc *ssa.CallCommon) bool { return cc.IsInvoke() && cc.Method.Name() == "Decode" })
	hf := callsIn(fn, false, func(cc *ssa.CallCommon) bool { return methodName(cc) == "handleFrame" })
	nx := callsIn(fn, false, func(cc *ssa.CallCommon) bool { return methodName(cc) == "Next" })
	get := callsIn(fn, false, func(cc *ssa.CallCommon) bool {
		return methodName(cc) == "Get" && strings.Contains(calleeName(cc), "ContextManager")
	})
	if len(dec) != 1 || len(hf) != 1 || len(nx) < 1 {
		c.Fail("C02.R9", fk+":shape", fn.Pos(), fmt.Sprintf("expected one Decode / one handleFrame / a Next call, found %d/%d/%d", len(dec), len(hf), len(nx)))
		return
	}
	d := dec[0].Instr
	isNext := func(in ssa.Instruction) bool {
		for _, n := range nx {
			if n.Instr == in {
				return true
			}
		}
		return false
	}
	stale := existsPath(fn, hf[0].Instr, func(in ssa.Instruction) bool { return in == d }, isNext)
	c.Check("C02.R9", fk+":fresh-context-per-frame", hf[0].Instr.Pos(), stale == nil, "ctxManager.Next() on every path from handleFrame to the next Decode", "the stream-level context of a handled or dropped frame can be reused for the next frame: a response can be delivered with another exchange's body")
	okGet := false
	for _, g := range get {
		if inLoop(g.Instr.Block()) && instrDominates(g.Instr, d) {
			if v, ok := g.Instr.(ssa.Value); ok && len(d.(*ssa.Call).Call.Args) > 0 && d.(*ssa.Call).Call.Args[0] == v {
				okGet = true
			}
		}
	}
	c.Check("C02.R9", fk+":decode-uses-current-context", d.Pos(), okGet, "Decode receives the context obtained from ctxManager.Get() in this iteration", "Decode is not given the context obtained in this iteration")
}

// c02WipedBuffers (R10): per-stream buffer contexts are wiped when they are recycled.
// The request path keeps its per-stream objects (downStream/upstreamRequest, http streams and fasthttp request/response,
// xprotocol streams, bolt/boltv2 frame models) in buffer-pool contexts; decoders and streams only overwrite the parts a
// new exchange uses. Clause: every Reset(i) of a BufferPoolCtx implementation on the request path returns the object to
// its zero state: a whole-value store of the zero value, or, field by field, a zero store or a Reset() call on the field.
func c02WipedBuffers(c *Ctx) {
	pkgs := []string{"pkg/proxy", "pkg/stream/http", "pkg/stream/xprotocol", "pkg/protocol/xprotocol/bolt", "pkg/protocol/xprotocol/boltv2"}
	n := 0
	for _, pkg := range pkgs {
		for _, fn := range c.PkgFuncs(pkg) {
			if fn.Name() != "Reset" || fn.Signature.Recv() == nil || len(fn.Params) != 2 || !strings.HasSuffix(typeName(fn.Signature.Recv().Type()), "BufferCtx") {
				continue
			}
			// the object: i.(*T)
			var obj ssa.Value
			var st *types.Struct
			forEachInstr(fn, false, func(_ *ssa.Function, in ssa.Instruction) {
				if ta, ok := in.(*ssa.TypeAssert); ok && sameParam(ta.X, fn.Params[1]) {
					if s := derefStruct(ta.AssertedType); s != nil {
						st = s
						obj = ta
					}
				}
			})
			if st == nil {
				c.Unresolved("C02.R10", funcKey(fn)+": asserted buffer type")
				continue
			}
			n++
			// obj may be the comma-ok tuple: use its #0 extract
			ptrs := map[ssa.Value]bool{obj: true}
			for _, r := range refs(obj) {
				if ex, ok := r.(*ssa.Extract); ok && ex.Index == 0 {
					ptrs[ex] = true
				}
			}
			whole := false
			covered := map[string]bool{}
			forEachInstr(fn, false, func(_ *ssa.Function, in ssa.Instruction) {
				switch x := in.(type) {
				case *ssa.Store:
					if ptrs[x.Addr] && isZeroAggregate(x.Val) {
						whole = true
					}
					if fa, ok := x.Addr.(*ssa.FieldAddr); ok && ptrs[fa.X] && (isZeroAggregate(x.Val) || isZeroValue(x.Val)) {
						covered[st.Field(fa.Field).Name()] = true
					}
				case *ssa.Call:
					if methodName(x.Common()) == "Reset" && len(x.Call.Args) > 0 {
						if fa, ok := x.Call.Args[0].(*ssa.FieldAddr); ok && ptrs[fa.X] {
							covered[st.Field(fa.Field).Name()] = true
						}
					}
				}
			})
			var missing []string
			if !whole {
				for i := 0; i < st.NumFields(); i++ {
					if !covered[st.Field(i).Name()] {
						missing = append(missing, st.Field(i).Name())
					}
				}
			}
			c.Check("C02.R10", funcKey(fn)+":wipes-everything", fn.Pos(), whole || len(missing) == 0, "the recycled object is returned to its zero state", "the per-stream buffer object is recycled without wiping "+strings.Join(missing, ",")+": the next request that gets this object sees the previous exchange's data")
		}
	}
	if n < 5 {
		c.Unresolved("C02.R10", fmt.Sprintf("BufferPoolCtx Reset implementations on the request path (found %d)", n))
	}
}

func isZeroAggregate(v ssa.Value) bool {
	if k, ok := v.(*ssa.Const); ok && k.Value == nil {
		return true
	}
	if ld, ok := v.(*ssa.UnOp); ok && ld.Op == token.MUL {
		if al, ok := ld.X.(*ssa.Alloc); ok {
			for _, r := range refs(al) {
				switch r.(type) {
				case *ssa.UnOp, *ssa.DebugRef:
				default:
					return false
				}
			}
			return true
		}
	}
	return false
}

// c02HTTP1OneExchangeAtATime (R14): on an HTTP/1 downstream connection the next request is read only after this response
// has been written. serverStreamConnection.serve blocks on responseDoneChan before it reads and dispatches the next
// (possibly pipelined) request - the only thing that orders consecutive exchanges on the connection; the write lock
// orders single Write calls only. Releasing the read loop before the response is on the wire lets the next answer overtake
// (or cut into) this one, and an HTTP/1 client matches answers to requests by position. Clause: every send on
// responseDoneChan in the server stream is preceded by doSend() on every path.
func c02HTTP1OneExchangeAtATime(c *Ctx) {
	pkg := "pkg/stream/http"
	n := 0
	ord := ordCounter{}
	for _, fn := range c.PkgFuncs(pkg) {
		forEachInstr(fn, false, func(f *ssa.Function, in ssa.Instruction) {
			sd, ok := in.(*ssa.Send)
			if !ok {
				return
			}
			if _, fld, _, okf := loadedField(sd.Chan); !okf || fld != "responseDoneChan" {
				return
			}
			n++
			isSend := func(x ssa.Instruction) bool {
				ci, isC := x.(ssa.CallInstruction)
				return isC && methodName(ci.Common()) == "doSend"
			}
			early := existsPath(f, nil, func(x ssa.Instruction) bool { return x == in }, isSend) != nil
			c.Check("C02.R14", ord.next(f, "response-written-before-next-request"), sd.Pos(), !early, "the read loop is released only after doSend()", "the HTTP/1 server stream releases the connection's read loop (responseDoneChan) on a path on which the response has not been written yet: a pipelined next request is dispatched and its answer can be written before - or in the middle of - this response, so the client attributes it to the wrong request")
		})
	}
	if n < 1 {
		c.Unresolved("C02.R14", "the send on serverStream.responseDoneChan")
	}
}
