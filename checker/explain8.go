package main

// Clauses added in round 8, appended to the per-property explanation written into the evidence files.
var round8Explanations = map[string]string{
	"C01": " (R3, round 8) every store to a bolt/boltv2 frame's rawData is followed on every path by a store to its rawMeta of a slice of that new rawData.",
	"C03": " (R10) every store of true to downStream.downstreamResponseStarted is followed on every path to the function's return by the header write to the client (appendHeaders).",
	"C04": " (R10) VariableRouteRuleImpl.Match is evaluated over a finite abstract domain (five yes/no observations per item) and the reachable (loop phis x reference monitor) states are computed as a fixed point; at every return the verdict equals the or-of-and-groups reference, and an early exit needs a final reference verdict.",
	"C05": " (R9) every function passed as host update handler to clusterManager.UpdateHosts reaches Cluster.UpdateHosts on every path; the manager reports success only after the handler ran.",
	"C06": " (R5) every GetClusterSnapshot in simpleHandler.IsAvailable looks up the value ClusterName returned; ClusterName is the only reader of weightedClusterEntry.clusterName in pkg/router.",
	"C07": " (B2d, HTTP/2) every edge leaving the decode loop of the HTTP/2 Dispatch functions is taken on a condition over the error result of that iteration's Decode call.",
	"C08": " (B4) explicit reservations in the HPACK decoder (make with a non-constant size, Buffer.Grow) are sized by len()/cap() of received data and constants only.",
	"C09": " (R7, HTTP/1) in clientStream.handleResponse every receiver.OnReceive is dominated by the store connection.stream = nil and no store to that slot (direct, deferred, in a closure) can run after it.",
	"C10": " (PAIR, round 8) every CanCreate query of the retries resource reachable from retryState.retry is dominated by reset() on the same state.",
	"C11": " (O12) no address of a go-1.18 loop variable is stored, appended, passed to a retaining callee or captured by a goroutine closure in pkg/server, pkg/network, pkg/stagemanager.",
	"C12": " (R12) the same loop-variable escape rule over pkg/configmanager, pkg/router, pkg/upstream/cluster, pkg/server.",
	"C13": " (R11) the loop-variable escape rule over pkg/mtls. (R12) for every (*x509.Certificate).Verify(opts) under pkg/mtls, opts.CurrentTime is zero or a clock read made in the verifying function or a function reachable from a handshake callback; captured values fail.",
	"C14": " (R2, package-wide) every store of true to downStream.directResponse in pkg/proxy is dominated by a store installing downstreamRespHeaders.",
	"C15": " (R9) in GenerateSubsetKeys the condition under which a selector is not appended holds only where reflect.DeepEqual of the two sorted key lists succeeded (or a map keyed by the keys joined with a control-character separator found it).",
	"C16": " (R3, round 8) the value stored into healthChecker.healthyThreshold derives from the configured HealthyThreshold alone, likewise unhealthy, also through a helper's result tuple.",
	"C17": " (R12) retryState.doRetryCheck is evaluated over a finite abstract domain for every (reset reason, retry_on, status readable) combination; the can-answer-true table must be: overflow never, retry_on=false only ConnectionFailed, retry_on=true without status only ConnectionFailed/PerTryTimeout/ConnectionTermination.",
	"C18": " (W10) in the methods of the M* HTTP/2 connection types, after a call that reaches hpack Encoder.WriteField every path to a return passes a HEADERS/CONTINUATION write, except along that call's error edge or where the block was tested empty.",
	"C19": " (R9) no map update or delete in pkg/filter/stream hits a map reached from RouteRule().PerFilterConfig() or a ReadPerRouteConfig parameter.",
}

const genericExplanation = " (G1-G3, generic, over the packages of this property) no address of a go-1.18 loop-header variable escapes its iteration; every sync mutex acquired in a function is released on every path to its return, directly or by a defer registered on that path (read and write acquisitions distinct, wrapper table frozen); a struct field passed to sync/atomic anywhere in scope is never read or written plainly outside construction (24 frozen exceptions, keyed type.field@function); (G2 across calls) no synchronous call into a function that acquires a mutex the caller holds; (G4) storage released to a pool is not returned or stored by the releasing function; (G5) no append onto a loop-invariant slice inside a loop when the result is kept."

// Clauses added in round 9.
var round9Explanations = map[string]string{
	"C01": " (R10) in (*http2.HeaderMap).Clone every stored value list is a full copy (make(len(src))+copy or append(nil, src...)) of the list the loop over h.H yields. (R11) every codec.NewReader of the tars codec receives a slice whose low bound is the prefix width the encoders reserve; getStreamType's decision is read off its CFG for head types 0..13.",
	"C02": " (R16) in the M* HTTP/2 connection methods every HPACK-encoding call and the HEADERS/CONTINUATION writes that follow run under one hold of mu/hmu.",
	"C03": " (R11) a try ended by UpstreamGlobalTimeout never reaches a positive retry decision: onUpstreamReset guards the retry call, or the doRetryCheck table cannot answer true for it.",
	"C06": " (R6) in edfScheduler.NextAndPush Peek() and Fix/Push run under one hold of the scheduler lock (no explicit Unlock between them).",
	"C07": " (B2d) ctxManager.Get() is executed between any two Decode calls of the Dispatch loops and its result is the context Decode receives; empty-buffer guards accepted in either polarity.",
	"C08": " (B10) every store of a value derived from a peer Setting's Val in the functions the M* types hand to ForeachSetting lies on the err==nil side of Setting.Valid().",
	"C09": " (R9) each value returned by NewStream/newClientStream is a fresh allocation, a per-request slot whose embedded stream is overwritten as a whole, or such a slot on a path where a pointer field of it was tested nil.",
	"C10": " (PAIR) fresh-stream-per-try, see C09.R9: the stream of a retry must run its own listeners, which release the requests slot and the gauges.",
	"C11": " (O13) in transferFindListen every path from the lookup by the connection's own address to a nil result passes a lookup of the IPv4 wildcard and one of the IPv6 wildcard.",
	"C12": " (R13) the C04.R5 view rule: a route list read under vh.mutex is not returned, stored or indexed after the lock is released.",
	"C13": " (R13) every CertPool.AddCert/AppendCertsFromPEM under pkg/mtls writes a pool created by x509.NewCertPool() in the same function; GetX509Pool appends only what derives from its CA parameter.",
	"C14": " (R5) on every path from the filter invocation to a return feasible under ReMatchRoute/ReChooseHost, the cursor equals the absolute position of the filter (linear forms; a re-sliced view adds its low bound).",
	"C15": " (R10) each path through the Range callback of initIndex increments the captured position counter exactly once.",
	"C16": " (R3) stopCheck only from stop() or on an element of findNewAndDeleteHost's deleted hosts, startCheck only from start() or on an element of its new hosts.",
	"C17": " (R13) retryPolicyImpl.{retryOn,retryTimeout,numRetries,statusCodes} are stored from the RetryPolicy fields of the same name as they are.",
	"C18": " (W11) for every HEADERS/CONTINUATION write in the splitting loops, NOT(loop condition with back-edge values) implies the END_HEADERS flag, proved with linear forms and len>=0. (W12) see C02.R16. (W13) see C08.B10.",
	"C19": " (R10) every json.Unmarshal into a local pkg/config/v2 value in pkg/mosn, pkg/configmanager, pkg/config/v2 targets a value with no earlier store.",
	"C20": " (G4) the bytes DumpJSON and the other encoders return are not storage given back to a pool; R1 follows a package helper that encodes its parameter.",
}
