package main

// Clauses added in round 8, appended to the per-property explanation written into the evidence files.
var round8Explanations = map[string]string{
	"C01": " (R3, round 8) every store to a bolt/boltv2 frame's rawData is followed on every path by a store to its rawMeta of a slice of that new rawData.",
	"C03": " (R10) every store of true to downStream.downstreamResponseStarted is followed on every path to the function's return by the header write to the client (appendHeaders).",
	"C04": " (R10) VariableRouteRuleImpl.Match is evaluated over a finite abstract domain (five yes/no observations per item) and the reachable (loop phis x reference monitor) states are computed as a fixed point; at every return the verdict equals the or-of-and-groups reference, and an early exit needs a final reference verdict.",
	"C05": " (R9) every function passed as host update handler to clusterManager.UpdateHosts reaches Cluster.UpdateHosts on every path; the manager reports success only after the handler ran.",
	"C06": " (R5) every GetClusterSnapshot in simpleHandler.IsAvailable looks up the value ClusterName returned; ClusterName is the only reader of weightedClusterEntry.clusterName in pkg/router.",
	"C07": " (B2d, HTTP/2) every edge leaving the decode loop of the HTTP/2 Dispatch functions is taken on a condition over the error result of that iteration's Decode call.",
	"C08": " (B4) explicit reservations in the HPACK decoder (make with a non-constant size, Buffer.Grow) are sized by len()/cap() of received data and constants only.",
	"C09": " (R7, HTTP/1) in clientStream.handleResponse every receiver.OnReceive is dominated by the store connection.stream = nil and no store to that slot (direct, deferred, in a closure) can run after it.",
	"C10": " (PAIR, round 8) every CanCreate query of the retries resource reachable from retryState.retry is dominated by reset() on the same state.",
	"C11": " (O12) no address of a go-1.18 loop variable is stored, appended, passed to a retaining callee or captured by a goroutine closure in pkg/server, pkg/network, pkg/stagemanager.",
	"C12": " (R12) the same loop-variable escape rule over pkg/configmanager, pkg/router, pkg/upstream/cluster, pkg/server.",
	"C13": " (R11) the loop-variable escape rule over pkg/mtls. (R12) for every (*x509.Certificate).Verify(opts) under pkg/mtls, opts.CurrentTime is zero or a clock read made in the verifying function or a function reachable from a handshake callback; captured values fail.",
	"C14": " (R2, package-wide) every store of true to downStream.directResponse in pkg/proxy is dominated by a store installing downstreamRespHeaders.",
	"C15": " (R9) in GenerateSubsetKeys the condition under which a selector is not appended holds only where reflect.DeepEqual of the two sorted key lists succeeded (or a map keyed by the keys joined with a control-character separator found it).",
	"C16": " (R3, round 8) the value stored into healthChecker.healthyThreshold derives from the configured HealthyThreshold alone, likewise unhealthy, also through a helper's result tuple.",
	"C17": " (R12) retryState.doRetryCheck is evaluated over a finite abstract domain for every (reset reason, retry_on, status readable) combination; the can-answer-true table must be: overflow never, retry_on=false only ConnectionFailed, retry_on=true without status only ConnectionFailed/PerTryTimeout/ConnectionTermination.",
	"C18": " (W10) in the methods of the M* HTTP/2 connection types, after a call that reaches hpack Encoder.WriteField every path to a return passes a HEADERS/CONTINUATION write, except along that call's error edge or where the block was tested empty.",
	"C19": " (R9) no map update or delete in pkg/filter/stream hits a map reached from RouteRule().PerFilterConfig() or a ReadPerRouteConfig parameter.",
}

const genericExplanation = " (G1-G3, generic, over the packages of this property) no address of a go-1.18 loop-header variable escapes its iteration; every sync mutex acquired in a function is released on every path to its return, directly or by a defer registered on that path (read and write acquisitions distinct, wrapper table frozen); a struct field passed to sync/atomic anywhere in scope is never read or written plainly outside construction (24 frozen exceptions, keyed type.field@function); (G2 across calls) no synchronous call into a function that acquires a mutex the caller holds; (G4) storage released to a pool is not returned or stored by the releasing function; (G5) no append onto a loop-invariant slice inside a loop when the result is kept. (G7) a FieldAddr of a struct-valued field of the receiver that the method rewrites through the pointer (Copy/Reset/IntersectionWith/..., or a whole store) does not escape (kept by a callee - interface calls resolved to the module's implementers -, appended, stored). (G8) for every comma-ok look-up in a map field made while a mutex may be held, no path look-up -> Unlock of that mutex -> insert into the same map field exists on which the key is not looked up again."

// Clauses added in round 9.
var round9Explanations = map[string]string{
	"C01": " (R10) in (*http2.HeaderMap).Clone every stored value list is a full copy (make(len(src))+copy or append(nil, src...)) of the list the loop over h.H yields. (R11) every codec.NewReader of the tars codec receives a slice whose low bound is the prefix width the encoders reserve; getStreamType's decision is read off its CFG for head types 0..13.",
	"C02": " (R16) in the M* HTTP/2 connection methods every HPACK-encoding call and the HEADERS/CONTINUATION writes that follow run under one hold of mu/hmu.",
	"C03": " (R11) a try ended by UpstreamGlobalTimeout never reaches a positive retry decision: onUpstreamReset guards the retry call, or the doRetryCheck table cannot answer true for it.",
	"C06": " (R6) in edfScheduler.NextAndPush Peek() and Fix/Push run under one hold of the scheduler lock (no explicit Unlock between them).",
	"C07": " (B2d) ctxManager.Get() is executed between any two Decode calls of the Dispatch loops and its result is the context Decode receives; empty-buffer guards accepted in either polarity.",
	"C08": " (B10) every store of a value derived from a peer Setting's Val in the functions the M* types hand to ForeachSetting lies on the err==nil side of Setting.Valid().",
	"C09": " (R9) each value returned by NewStream/newClientStream is a fresh allocation, a per-request slot whose embedded stream is overwritten as a whole, or such a slot on a path where a pointer field of it was tested nil.",
	"C10": " (PAIR) fresh-stream-per-try, see C09.R9: the stream of a retry must run its own listeners, which release the requests slot and the gauges.",
	"C11": " (O13) in transferFindListen every path from the lookup by the connection's own address to a nil result passes a lookup of the IPv4 wildcard and one of the IPv6 wildcard.",
	"C12": " (R13) the C04.R5 view rule: a route list read under vh.mutex is not returned, stored or indexed after the lock is released.",
	"C13": " (R13) every CertPool.AddCert/AppendCertsFromPEM under pkg/mtls writes a pool created by x509.NewCertPool() in the same function; GetX509Pool appends only what derives from its CA parameter.",
	"C14": " (R5) on every path from the filter invocation to a return feasible under ReMatchRoute/ReChooseHost, the cursor equals the absolute position of the filter (linear forms; a re-sliced view adds its low bound).",
	"C15": " (R10) each path through the Range callback of initIndex increments the captured position counter exactly once.",
	"C16": " (R3) stopCheck only from stop() or on an element of findNewAndDeleteHost's deleted hosts, startCheck only from start() or on an element of its new hosts.",
	"C17": " (R13) retryPolicyImpl.{retryOn,retryTimeout,numRetries,statusCodes} are stored from the RetryPolicy fields of the same name as they are.",
	"C18": " (W11) for every HEADERS/CONTINUATION write in the splitting loops, NOT(loop condition with back-edge values) implies the END_HEADERS flag, proved with linear forms and len>=0. (W12) see C02.R16. (W13) see C08.B10.",
	"C19": " (R10) every json.Unmarshal into a local pkg/config/v2 value in pkg/mosn, pkg/configmanager, pkg/config/v2 targets a value with no earlier store.",
	"C20": " (G4) the bytes DumpJSON and the other encoders return are not storage given back to a pool; R1 follows a package helper that encodes its parameter.",
}

// Clauses added in round 10 and with the repairs of the side findings (round 11).
var round10Explanations = map[string]string{
	"C01": " (R12) HTTP/2: HPACK encoding and the HEADERS/CONTINUATION writes run under one hold of the connection mutex. (R13) the query variable is set whenever the request target has a query component, and the '?' of the upstream URL is decided on the variable being set, not on its content.",
	"C02": " (R17) a header block is fed to the connection HPACK decoder once, after all of it arrived. (R18) in clientStreamConnection.serve a bufio.Reader.Buffered() result, computed after the response was read, decides a branch from which OnGoAway is reachable.",
	"C03": " (R12) cleanStream is called only where the exchange has a terminal outcome. (R13) every store of true to downStream.upstreamRequestSent outside onUpstreamRequestSent is reached only through the true edge of a test of that flag or after a call of onUpstreamRequestSent. (R14) in the constant-bounded loop around downStream.receive the net increment of the round counter on every back edge taken in the Retry phase is at most 0.",
	"C04": " (R11) findVirtualHost is evaluated as a decision table over the finite domain {-1, other} for the configured default index and the lookup result: with a default configured no path returns nil. (R12) on the success return of splitHostPortGraceful that does not come from net.SplitHostPort the host is not the raw argument on every path. (R13) the result of ParseToVariableMatchItem is stored only on its non-nil edge. (R14) every store into RPCRouteRuleImpl.fastmatch lies behind the false edge of the matcher's Regex flag.",
	"C05": " (R10) the balancer a snapshot publishes is built from the host set the same snapshot publishes. (R4) a retry loop over a scheduler may be bounded by k x Size(), k >= 1.",
	"C06": " (R7) as C05.R10, including the weights. (R2) the clusterWeight stored for a name is Weight plus the looked-up entry's clusterWeight (phi of Weight on the miss edge and the sum, or the sum over the zero value). (R8) the loop around scheduler.NextAndPush is bounded by k x Size() with k >= MaxHostWeight/MinHostWeight.",
	"C08": " (B11) for every error MFramer.ReadFrame passes on from a frame parser or from readMetaFrame: no path from the failing call to the return avoids both Drain and the false edge of a StreamError type test of that error.",
	"C10": " (DECODE) downStream.receive is statically reachable from OnReceive and from OnDecodeError (closures included). (RESET) no ResetStream/DestroyStream call in pkg/stream/xprotocol is reachable from a Lock of clientMutex/serverMutex without passing its Unlock.",
	"C11": " (O14) no bytes.NewBuffer over a MakeSlice of non-zero length is afterwards written to (Write*, ReadFrom, io.Copy destination). (O15) every IsUnspecified asked of the configured listener IP in ParseListenerConfig (or in a package helper given that IP) is evaluated only where len(ip) != 0.",
	"C12": " (R4) RemoveListeners drops the listener and calls, in the same block and with the same name, a configmanager function that deletes from conf.Listener. (R8) for an existing listener no error return of AddOrUpdateListener is reachable from a call that replaces the listener's filter factories.",
	"C13": " (R15) the index argument of NewProvider inside the loops over a listener's contexts depends on a loop-carried value.",
	"C14": " (R9) from the store that consumes directResponse in processError every path to a return stores InitPhase into receiverFiltersAgainPhase (or such a store dominates the consumption).",
	"C15": " (R15) at every call of doMetadataCombination the facts of the dominating guards prove idx < len(keys) (or the callee tests it itself).",
	"C16": " (R5) in the receive case of the timeout channel a condition computed from the received value lies between the receive and HandleFailure (or a non-blocking receive drains the channel elsewhere).",
	"C17": " (R15) the store of NumRetries() into retiesRemaining is conditional only on comparisons of NumRetries() with 0. (R16) every declared FinalizeRequestHeaders of a type embedding RouteRuleImplBase reaches RouteRuleImplBase.finalizeRequestHeaders. (R17) a rule type whose Match uses strings.EqualFold hands finalizePathHeader a value that can come from variable.GetString. (R7) a retry may reach the global-timer arming only through a call guarded by the false edge of upstreamRequestSent into the function that sets that flag.",
	"C18": " (W15) the edge of parseHeadersFrame that leads only to streamError returns implies fragment length <= -1 (linear facts). (W16) SetMaxDynamicTableSize is reachable, guarded by ID == SettingHeaderTableSize, from MClientConn.processSettings and serverConn.processSetting.",
	"C19": " (R13) every field of v2.ClusterManagerConfigJson other than the cluster lists is stored from the same field of the argument in SetMosnConfig (into the rebuilt section or a same-named field of the stored config).",
	"C20": " (R6) every []v2.ExtendConfig arm of getMOSNConfigRedacted and the ExtendConfigs field of redactedCopy's result take the result of a function from which a \"private_key\" key comparison and a placeholder store are reachable. (R3) a write through a tree handed in as a parameter is lifted to the call sites; a local interface value filled only by encoding/json is fresh.",
}

// Clauses added with the second wave of repairs (round 11).
var round11bExplanations = map[string]string{
	"C01": " (R14) the store of Response.SkipBody in the HTTP/1 client loop lies behind IsHead() of the stream's own request. (R15) every phi edge forcing the HTTP/2 content length to \"0\" is guarded by Method == \"HEAD\" being false. (R16) along edges consistent with messageType == ONEWAY decodeMessage reaches the store of EventRequest; Frame.GetStreamType can return api.RequestOneWay.",
	"C04": " (R15) the insertion into the inner map of the key/value route index lies behind the miss edge of a comma-ok lookup of that map.",
	"C07": " (B2d, wave 2) ctxManager.Next() lies on every way from handleFrame and from handleError back to Decode.",
	"C08": " (B12) every invoke on streamConn.serverCallbacks in the frame handlers is dominated by a non-nil test. (B13) along edges consistent with status == PACKAGE_ERROR no (nil,nil) return of tars Decode is reachable. (B6) behind handleError the loop goes on only through an edge that proves Len() decreased since before this Decode.",
	"C10": " (ONEWAY) cleanStream's resetStream call is not dominated by oneway == false. (OVF counter-step-exact) every path of resource.Increase/Decrease moves the counter by one, no exception for max == 0. (WINDOW) in NewStream of the three xprotocol pools codecClient.NewStream and AddEventListener run under one uninterrupted hold of clientMux/streamMux.",
	"C11": " (O16) the processHeaders return that depends on inGoAway also lies behind getStream(id) == nil. (O17) every (*net.UnixListener).File() in pkg/network is dominated by SetUnlinkOnClose(false) on the same listener. (O18) a pool's Shutdown calls a client method from which a Lock of clientMux is reachable only with clientMux released. (O19) the counter read by activeStreamSize does not come from a pkg/metrics constructor that can return the no-op metrics.",
	"C13": " (R16) the manager returned by NewTLSClientContextManager reaches clusterInfo.tlsMng only over edges with a nil error. (R17) match keys built from CommonName, DNSNames and serverName pass strings.ToLower. (R18) every hand-back of the untouched TCP connection by serverContextManager.Conn lies behind inspector or len(providers) == 0 (two-atom path search).",
	"C14": " (R10) before the first filter invocation the cursor is reset under receiverFiltersPhase[cursor] != phase. (R11) along edges consistent with status Stop/termination no store to the cursor is reachable after the status handler call. (R5, restated) per status value over status-consistent edges: Stop/termination reach a return only behind a reset, the re-run statuses reach one without.",
	"C17": " (R18) the store of regexRewrite is not guarded by len(pattern) > k with k >= 1.",
	"C20": " (R6, static resources) redactedMosnConfig replaces RawStaticResources by the result of a redactor. (R7) a redaction placeholder is mentioned by some function reachable from conv.EnvoyConfigDump.",
}

// Clauses added in seeding round 12.
var round12Explanations = map[string]string{
	"C01": " (R17) the Reset of the bolt/boltv2 buffer contexts zeroes the pooled struct and restores no field from its old content.",
	"C02": " (R19) every hijack API writes headers, data and trailers of the stored response on every path.",
	"C03": " (R15) the receiver of OnResetStream(UpstreamGlobalTimeout) is loaded from downStream.upstreamRequest in the handler. (R16) proxy.onDownstreamEvent calls into the streams of the active list only with asMux held.",
	"C05": " (R11) RemoveClusterHosts' binary search predicate is AddressString() >= addr and the Less it sorts with is AddressString() < AddressString().",
	"C07": " (B2p) behind the store of the peeked byte into b[0] every return of mtls.Conn.Read counts it (per-path evaluation).",
	"C10": " (TIMER) as C03.R15.",
	"C11": " (O20) Mosn.TransferConnection calls network.SetTransferTimeout with the graceful timeout on every path.",
	"C12": " (R15) the host list of a load assignment is built only by appending ConvertEndpointsConfig of each locality on every iteration of the loop over the localities.",
	"C13": " (R19) the receiver of every x509 Verify under pkg/mtls is element 0 of the presented chain.",
	"C14": " (R12) the filter and phase slices of a chain are only assigned append(itself, ..), an empty list or nil; no element is stored over.",
	"C15": " (R16) the HostSet.Range callbacks of the subset builders return true on every path.",
	"C17": " (R19) every Regexp.Replace* on the rewrite pattern within reach of finalizePathHeader is ReplaceAllString.",
	"C18": " (W17) ordering comparisons of a size with dynamicTable.maxSize are > or <= only.",
	"C19": " (R14) as C12.R7: every configured virtual host is appended in configuration order and the index recorded for its domains is its configuration position.",
	"C20": " (R8) every result of redactRawJSON is its parameter, a constant or the output of json.Marshal.",
}

var round13Explanations = map[string]string{
	"C01": " (R18) in every Clone of an xprotocol frame type a non-nil store into the copy's rawData is guarded by r.rawData != nil. (R19) both tars encoders return the non-nil result of a call that takes the frame's rawData, and that call dominates every WriteTo. (R13, http2) the server side does not set the query variable under RawQuery != \"\" alone; URL.ForceQuery of the client side derives from the error of the variable lookup.",
	"C03": " (R17) every return of processError under directResponse diverts the phases or returns a nil error. (R18) no path from the exit of the counted phase loop of OnReceive to the end of the task avoids receive / cleanStream (phase == End and foreign-id edges excluded); after a receive outside the loop a non-End result reaches cleanStream. (R5) the default global timeout is guarded by a test that holds for every value <= 0.",
	"C04": " (R16) the error edge of every Compile call in pkg/router leaves the function with nil / an error and never reaches the loop header again; the result of parseConfigToDslExpression is stored only on its non-nil edge.",
	"C06": " (R9) every value flowing into the returned weight total is a 64-bit integer, the draw range is a 64-bit field and the draw is dominated by total != 0.",
	"C10": " (PAIR, http2 idiom) the close-site call of deleteActiveClient is under activeClient == the closing client, where the helper clears that slot; a go-away flag as that guard is refused.",
	"C12": " (R16) every lc field handed to a Set* method of the live listener or stored into an activeListener field in AddOrUpdateListener is also stored into the same field of listener.Config().",
	"C13": " (R20) clientContextManager.Enabled calls no Ready(); tls.Client is called only under Ready() and the not-ready edge returns (nil, error). (R21) the error edge of NewTLSClientContextManager in UpdateTLSManager reaches tlsMng.Store on every path. (R22) GenerateHashValue loads InsecureSkipVerify, RootCAs, ServerName and VerifyPeerCertificate.",
	"C15": " (R17) convertTypesStruct and the envoy.lb arm of convertMeta store GetStringValue results; every other store of convertMeta is guarded by key != \"envoy.lb\".",
	"C16": " (R6) no path that is feasible for the boolean locals leads from the atomic add on checkID back to it without HandleSuccess / HandleFailure.",
	"C17": " (R12, corrected table) the response status is consulted only when there is no reset reason. (R17) also for rule types whose Match uses a regexp method.",
	"C18": " (W18) the default arm of the frame type switch in both HandleFrame functions merges into the function's error with a nil constant.",
}

var round14Explanations = map[string]string{
	"C04": " (R17) every type assertion on an Evaluate result in a Match method of pkg/router is the comma-ok form.",
	"C01": " (R20) no fasthttp.Request.Read / ReadLimitBody / MultipartForm call in pkg/stream/http and every ContinueReadBody gets preParseMultipartForm=false. (R21) the dubbothrift encoder's WriteByte argument derives from frame.Version and the decoder stores that field.",
	"C02": " (R20) Dispatch's retire branch is under atomic.Load(&conn.F) == 0; endStream stores 1 to F before doSend; serve stores 0 to F between Response.Read and handleResponse. (R21) as C09.R9.",
	"C07": " (AUTO) SelectStreamFactoryProtocol has no range over a map; RegisterProtocolStreamFactory appends the name to a package-level list.",
	"C09": " (R11) Shutdown stores true into a pool field; no re-pool site of onStreamDestroy / activeClientPingPong.Close is reachable with that flag set and the client open, or with the flag untested. (R9) form (b) removed.",
	"C11": " (O21) no IsLoopback call in StartService / ParseListenerConfig; the take of an inherited listener in StartService is under Port == Port and a call comparing two net.IP; ResolveTCPAddr of an inherited address is under l.(*net.TCPListener).",
	"C12": " (R17) in UpdateCluster, UpdateHosts and RemovePrimaryCluster a Lock of a manager mutex dominates every clustersMap.Load and is released by a deferred Unlock, the same mutex in all three (with RemovePrimaryCluster); Append/Remove/UpdateClusterHosts reach UpdateHosts.",
	"C13": " (R23) no store of false into Status in convertTLS dominated by a read of CertChain / PrivateKey. (R24) the serverName map update of buildMatch is under serverName != \"\".",
	"C14": " (R13) every onUpstreamReset call in processError is on the false edge of directResponse; the direct-response branch stores false into upstreamRequest.setupRetry.",
	"C19": " (R15) the path written in the directory-mode loops derives from a package function that looks up and adds to a map allocated outside the loop.",
	"C20": " (R9) redactRawJSON returns its parameter only under a decode error or on the false edge of a package function that reads the parameter with json.Decoder.Token.",
}

var round15Explanations = map[string]string{
	"C01": " (R22) as C07.B2k. (R23) as C02.R17.",
	"C02": " (R22) a plain DestroyStream call dominates the receiver's OnReceive in clientStreamReceiverWrapper.OnReceive. (R18) as C09.R12.",
	"C03": " (R19) the sends of body and trailers in downStream.receive are guarded, as far as the message is concerned, by the nil test of their buffer only. (R20) as C10.END.",
	"C06": " (R10) every function storing EdfLoadBalancer.scheduler is called by newEdfLoadBalancer only, before its returns.",
	"C07": " (B2k) no IoBuffer field of a decoded frame holds a Clone() of the decoder's buffer parameter.",
	"C08": " (B14) no nil return of Framer.checkFrameOrder is reachable without the header block established closed or the frame established CONTINUATION.",
	"C09": " (R12) on every path of clientStreamConnection.serve that keeps the connection both br.Buffered() == 0 and unread <= 0 are established (branch facts, also through sound helpers; the resetConn flag's values are tracked). (R13) as C02.R22.",
	"C10": " (END) downStream.receive returns the constant End only where no guard pins the phase to another constant.",
	"C11": " (O22) ParseListenerConfig stores nil into elements of its inherited-listener parameters (three sites) and never appends onto them.",
	"C12": " (R18) in DumpConfig an atomic lowering of the dump mark dominates transferConfig and none is reachable behind it.",
	"C13": " (R25) each pool's TLSHashValue returns a receiver field no method of the pool stores.",
	"C15": " (R18) as C12.R10.",
	"C17": " (R20) as C03.R8.",
	"C18": " (W19) inside a loop with awaitFlowControl the END_STREAM argument of writeData is constant false or derives from the grant.",
	"C19": " (R16) as C12.R18.",
}

var round16Explanations = map[string]string{
	"C01": " (R24) in every Clone of a codec frame, each map field inside a struct value copied from the receiver is overwritten by a MakeMap (or a Clone() result) that the copy dominates; no map loaded from the receiver is stored into the clone.",
	"C03": " (R21) onResponseTimeout atomically stores 1 into a downStream field that no function of pkg/proxy stores 0 into or CASes to 0, before its OnResetStream call; doRetry loads that field behind time.Sleep and, on the edge guarded by it, atomically stores upstreamReset with neither initializeUpstreamConnectionPool nor appendHeaders reachable.",
	"C04": " (R18) httpHeaderMatcherImpl.variables is not a map; every value appended onto it in CreateHTTPHeaderMatcher derives from a NewKeyValueData call. (R7) the comparison of a variable condition is a string comparison or a Value.Matches call.",
	"C07": " (CRC) in boltv2Protocol.Decode an If on (Bytes()[11] & const) one edge of which cannot reach decodeRequest/decodeResponse lies before every such call.",
	"C08": " (CRC) as C07.CRC.",
	"C10": " (LOCKED) every Increase/Inc(1) of poolPingPong.NewStream is reachable from a Lock of clientMux without an Unlock and from no Unlock. (EARLY) in streamproxy onUpstreamEvent an If on upstreamAccounted (read under upstreamMux, on the IsClose() edge) whose other edge stores upstreamEarlyClose and cannot reach finalizeUpstreamConnectionStats lies before the decrements of the closing events' switch arms; initializeUpstreamConnection stores upstreamAccounted=true after Connections().Increase() and calls onUpstreamEvent behind it. (PHASES) OnResetStream: the success edge of CAS(phasesState,0,2) reaches ResetStream (also in a closure made there); OnReceive / OnDecodeError: receive / Schedule / GoWithRecover / sendHijackReply only on the success edge of CAS(phasesState,0,1). (TERM) processError calls upstreamRequest.resetStream() in the branch guarded by directResponse.",
	"C12": " (R19) AddOrUpdateRouters: a Lock of a routersManagerImpl mutex dominates routersWrapperMap.Load and is released by a deferred Unlock only; the SetRouter call that follows the store into a live wrapper's routers is made while rw.mux may be held.",
	"C13": " (R26) GetX509Pool stores into a hooks field a value derived from pem.Block.Bytes; GenerateHashValue writes a value derived from that field under a condition on RootCAs. (R27) sdsProvider.update stores Validation from CACert under a condition on NoValidation with newTLSContext reachable behind it; validation.expectedEmpty is stored from (ValidationConfig == nil), from no string comparison.",
	"C14": " (R16) in doRetry an atomic load of upstreamResponseReceived is dominated by time.Sleep, and initializeUpstreamConnectionPool / appendHeaders are guarded by a condition derived from it. (R17) in the directResponse branch of processError a RemoveEventListener or upstreamRequest.resetStream call exists, and a CAS/Store on upstreamReset is dominated by one.",
	"C17": " (R21) convertRetryPolicy stores StatusCodes from a value derived from GetRetriableStatusCodes() and RetryOn from a same-package callee that compares with the condition names 5xx, gateway-error, retriable-status-codes. (R22) the functions statically reachable from convertDirectResponseAction type-assert (or call the generated getter of) every DataSource_* type the go-control-plane core package declares. (R23) as C03.R21.",
	"C20": " (R10) for every json.RawMessage field of v2.MOSNConfig outside the frozen no-key table (Node), redactedMosnConfig stores the result of a redactor into the copy.",
}

var round17Explanations = map[string]string{
	"C01": " (R25) the IoBuffer parameter of http clientStream.AppendData is used only as receiver of Bytes/Len/Cap/String/Peek/Count/Clone.",
	"C02": " (R23) in connection.writeDirectly no return is reachable from the doWrite call without passing the `err != nil` test that guards Close(..., OnWriteTimeout).",
	"C03": " (R22) nothing setupRetry runs (same-package callees, depth 3) calls Stop on, or stores nil into, downStream.responseTimer; (R5) cleanUp stops and clears both timers, also through helpers.",
	"C04": " (R19) simpleHandler.IsAvailable returns a status other than HandlerAvailable only under route == nil; DefaultMakeHandler stores the MatchRoute result as the handler's route.",
	"C06": " (R11) every return of WRRLoadBalancer.hostWeight derives from a Weight() call and lies under no condition derived from Health()/HealthFlag.",
	"C07": " (B3s, again-always-waits) every Return reachable from the true edge of `err == EAGAIN` in proxy.OnData returns the constant the waiting return returns.",
	"C11": " (O23) no Delete/LoadAndDelete/CompareAndDelete/Swap/Clear on a *sync.Map parameter in the functions statically reachable from transferHandler; at least one Load.",
	"C12": " (R20) the MapUpdate of routerConfigPath in SetRouter stores a value derived from the RouterConfigPath of the parameter and no path from entry to a return avoids it.",
	"C13": " (R28) every path of sdsProvider.updateConfig that avoids update() is guarded by a same-package call with two *v2.TLSConfig parameters whose reach reads every TLSConfig field that the reach of newTLSContext (through the config hooks' implementers) reads.",
	"C14": " (R18) in every CreateFilterChain of the module the argument of AddStreamReceiverFilter / AddStreamSenderFilter does not derive from a load of a field of the receiver, also not through a method called on the receiver (parameters spilled for closures are seen through).",
	"C15": " (R19) a store of NewMetadataMatchCriteriaImpl(...) into weightedClusterEntry.clusterMetadataMatchCriteria dominates every MapUpdate of getWeightedClusterEntry.",
	"C17": " (R24) as C03.R22. (R25) getHeaderPair stores into no element of a []*headerPair; from every headerPair allocation neither the loop header nor a return is reachable without an append.",
	"C18": " (W20) every store into flow.n in pkg/module/http2 lies in a method whose receiver is flow.",
	"C19": " (R17) no call into package sort reachable from transferConfig/DumpJSON/DumpConfig gets a slice of ExtendConfig, Filter, FilterChain, Router, VirtualHost, WeightedCluster, Host or HeaderMatcher (frozen table, one reason each).",
}

var round18Explanations = map[string]string{
	"C03": " (R23) in the closures of onUpstreamRequestSent an atomic store of 1 into the flag doRetry loads dominates the CAS on upstreamResponseReceived.",
	"C04": " (R20) NewRouteBase calls regexp.Compile on a HeaderMatcher value and a return with a non-nil error is guarded by that call's error.",
	"C07": " (CODE) as C08.CODE.",
	"C08": " (CODE) in bolt and boltv2 Decode an If comparing Bytes()[0] with the package's ProtocolCode, whose foreign-code edge cannot reach decodeRequest/decodeResponse, lies before every such call.",
	"C09": " (R14) in every newActiveClient whose Connect() dominates NewStreamClient, an OnEvent with the Connected constant on that client is dominated by it. (R15) the delete in activeClientBinding.removeFromPool and the sync.Map Delete in poolMultiplex.onConnectionEvent are guarded by an equality of a value with the client itself.",
	"C10": " (SLOT) as C09.R15. (GOAWAY) the atomic word loaded in the guard of codecClient.Close() in activeClientMultiplex.OnDestroyStream is stored by OnGoAway and by no atomic Store/CAS of CheckAndInit or init.",
	"C11": " (O24) every (*sync.WaitGroup).Done on StageManager.wg is guarded by the true edge of an atomic CompareAndSwap.",
	"C13": " (R29) the value appended onto NextProtos in tlsConfigTemplate derives from strings.ToLower and strings.TrimSpace.",
	"C14": " (R19) a SendHijackReply in IPAccessFilter.OnReceive is guarded by the error result of IsAllow being non-nil and by IsDenyAction().",
	"C17": " (R26) as C03.R23. (R28) stores into RouterConfigurationConfig/VirtualHost.RequestHeadersToRemove, RouterActionConfig.{Request,Response}HeadersTo{Add,Remove} and HostRewrite in the conv package derive from the xDS getters of the same meaning. (R29) finalizePathHeader is statically reachable from FinalizeRequestHeaders of every *RouteRuleImpl type embedding the base rule.",
	"C20": " (R11) redactTLSConfig stores a fresh Alloc into TLSConfig.SdsConfig whose CertificateConfig and ValidationConfig are results of a callee that reaches redactRawJSON.",
}

var round19Explanations = map[string]string{
	"C01": " (R26) in ClientConn.encodeHeaders no call of a function value with (name, value string) gets a Slice as value.",
	"C03": " (R24) no function statically reachable from doRetry (the reply installers excepted) stores into a downstreamResp* field.",
	"C04": " (R21) the *Attributes constructor of pkg/cel/extract called by DslExpressionRouteRuleImpl.Match returns an Alloc on every path and reaches no (*sync.Pool).Get.",
	"C06": " (R12) every store into RouteRuleImplBase.defaultCluster is a composite literal whose clusterName derives from the route action's ClusterName.",
	"C11": " (O25) no return of streamConn.handleRequest is guarded by a condition derived from a field GoAway() stores.",
	"C12": " (R21) the NewTLSServerContextManager call of the update branch of AddOrUpdateListener is guarded by no DeepEqual/equality of TLS fields unless the comparison also reads Inspector.",
	"C13": " (R30) as C12.R21. (R31) the x509 Verify call of Conn.processCertsFromClient is guarded by no condition derived from a call named load/cache/lookup/verified.",
	"C14": " (R21) as C03.R24. (R20) every store into grpcStreamFilterChain.err in the Send* methods of the grpc filter handlers is the result of errors.New or fmt.Errorf.",
	"C15": " (R20) stores into simpleCluster.lbInstance / hostSet occur only in UpdateHosts and the constructors (frozen table).",
	"C16": " (R7) no field of the sessionChecker newChecker builds is the result of a same-package call that reaches a package-level variable; (R3) the counters may live in any struct of the checker.",
	"C17": " (R30) every return of setupRetry reachable from the store upstreamRequest.setupRetry = true returns the constant true.",
	"C18": " (W21) the Wait() of both awaitFlowControl functions is guarded by available() <= 0 (directly, or through a grant helper called with available() all of whose `return 0` lie under param0 <= 0).",
	"C19": " (R18) C20.R3 evaluated for this property.",
	"C20": " (R12) neither v2.TLSConfig nor *v2.TLSConfig has a method UnmarshalJSON. (R3) a MakeMap whose reference-typed elements were ranged or looked up out of a non-fresh container is not fresh when it is handed to a callee that writes through the parameter.",
}

var round20Explanations = map[string]string{
	"C03": " (R25) in onUpstreamHeaders no path restricted to the edges on which the retry check equals ShouldRetry reaches the setupRetry call without a nil store into downStream.downstreamRespHeaders (or setupRetry clears the field before every return true).",
	"C08": " (SERVE) every utils.GoWithRecover of pkg/stream/http whose body calls serve() has a handler function from which a two-argument Close is statically reachable.",
	"C09": " (R16) sendKeepAlive stores the result of GetStream() into keepAliveTimeout.stream before kp.store; HandleTimeout calls ResetStream on the stream field of the value loadAndDelete returned.",
	"C11": " (O26) for every method of StageManager with a value receiver: no Store through, no method call on a field of, and no pointer-method call on the receiver cell.",
	"C14": " (R22) the key of every MapUpdate / Lookup on IpList.ips derives from a (net.IP).String call.",
	"C16": " (R8) no ssa.Send on a sessionChecker channel field; every blocking ssa.Select with a send state on such a field also has a receive state on the stop field.",
	"C17": " (R28) extended by RouterActionConfig.AutoHostRewriteHeader <- GetHostRewriteHeader.",
	"C18": " (W22) the value of every (*MFramer).writeData call derives into a Return operand of its function (or is stored into the result cell the return loads). (W23) every MakeInterface of ConnectionError(ErrCodeFlowControl) in MServerConn/MClientConn.processWindowUpdate lies under a dominating edge on which the pointer to the struct with the flow field is nil. (W24) every MakeInterface of a streamError(id, code != ErrCodeFlowControl) call in MServerConn.processData is dominated by a sendWindowUpdate / sendWindowUpdate32 call whose stream argument is nil.",
}
