package main

import (
	"fmt"
	"go/token"
	"sort"
	"strings"

	"golang.org/x/tools/go/ssa"
)

// C12 — runtime updates are coherent and reproducible from the dumped config (structural clauses).

func init() {
	register(&PropSpec{
		ID:       "C12",
		Patterns: []string{"./pkg/router", "./pkg/upstream/cluster", "./pkg/configmanager", "./pkg/server", "./istio/istio1106/xds/conv", "./pkg/streamfilter"},
		Explanation: "(R1) live update => config record: for every mutator of live state (routers, single routes, clusters, hosts, cluster removal, cluster-manager TLS, listeners) every path that performs the live store and returns success also calls the matching configmanager recorder with the very value made live; " +
			"(R2) build aside, swap once: RoutersWrapper.routers/routersConfig are written together in one critical section and read under the lock, the new route table is built before the lock is taken; the effective-config maps are touched only with configLock held, writes under the write lock; " +
			"(R3) no last-writer-wins loop: a replace-semantics update (TriggerClusterHostUpdate / UpdateClusterHosts / AddOrUpdateRouters) must not sit in a loop whose iterations share the key while the value is produced inside the loop; " +
			"(R4) removal really removes: the live entry is deleted and the removal recorded for the same name; RemoveAllRoutes clears both the route list and its index. (R5) every exported configmanager.Set* recorder writes the value it was given into the model on every path; only a nil parameter, a missing key or a whole-value reflect.DeepEqual may skip it. (R6) in UpdateCluster no call through the update handler receives the new cluster after clustersMap.Store made it visible, and the stored object is the one built from the new configuration. (R7) NewRouters appends every configured virtual host (no path around the append inside the loop over routerConfig.VirtualHosts) and hands generateHostWithPortConfig the range index of that loop. (R1 recorded-hosts) every []v2.Host passed from pkg/upstream/cluster to pkg/configmanager is built from host.Config() of the live set and does not derive from a parameter. (R8) in every update function that returns an error no CFG path leads from a configmanager.Set* call to an error exit and no recorder is deferred ahead of one. (R9) for every sort.Search whose predicate reads a slice variable a sort of that variable dominates the search, and no element store, append or replacement of the variable can reach the search without another sort. (R10) setFinalHost skips addresses it has seen; in AppendSimpleHostHandler every append of NewSimpleHost(hostConfigs[i]) precedes the Range over the existing hosts and none follows it.",
		Run: runC12,
	})
}

// naturalLoops: header -> body blocks, from back edges t->h with h dominating t.
func naturalLoops(fn *ssa.Function) map[*ssa.BasicBlock]map[*ssa.BasicBlock]bool {
	loops := map[*ssa.BasicBlock]map[*ssa.BasicBlock]bool{}
	for _, t := range fn.Blocks {
		for _, h := range t.Succs {
			if !h.Dominates(t) {
				continue
			}
			body := loops[h]
			if body == nil {
				body = map[*ssa.BasicBlock]bool{h: true}
				loops[h] = body
			}
			work := []*ssa.BasicBlock{t}
			for len(work) > 0 {
				x := work[len(work)-1]
				work = work[:len(work)-1]
				if body[x] {
					continue
				}
				body[x] = true
				for _, p := range x.Preds {
					work = append(work, p)
				}
			}
		}
	}
	return loops
}

func definedIn(v ssa.Value, body map[*ssa.BasicBlock]bool) bool {
	in, ok := v.(ssa.Instruction)
	if !ok {
		return false // parameters, constants, globals
	}
	return body[in.Block()]
}

// dependsOnLoop: v (or something it is computed from) is defined inside the loop body.
func dependsOnLoop(v ssa.Value, body map[*ssa.BasicBlock]bool, seen map[ssa.Value]bool, depth int) bool {
	if seen[v] || depth > 8 {
		return false
	}
	seen[v] = true
	if definedIn(v, body) {
		return true
	}
	return false
}

func runC12(c *Ctx) {
	c.Rule("C12.R12", "no address of a (go 1.18) loop variable escapes its iteration in the update and dump code", 1)
	c.Rule("C12.R14", "an update of a listener's stream filters is always installed", 1)
	defer c12FilterUpdateInstalled(c)
	c.Rule("C12.R13", "a route lookup concurrent with a single-route update walks entirely the old or entirely the new list: the list read under vh.mutex is not used after the lock is released", 3)
	defer c04NoEscapeRule(c, "pkg/router", "C12.R13")
	defer loopVarEscapes(c, "C12.R12", []string{"pkg/configmanager", "pkg/router", "pkg/upstream/cluster", "pkg/server"})
	c.Rule("C12.R11", "frozen lockset: a router wrapper's table and stored config, and a cluster's host set and health checker, are only touched under their mutex", 8)
	defer runLockTables(c, "C12", nil)
	c.Assumptions = append(c.Assumptions, "sync.Mutex / sync.RWMutex / sync.Map / atomic.Value semantics", "xDS delivers one assignment per callback invocation")
	c.Rule("C12.R1", "every live-state mutator records the configuration it made live on every success path", 9)
	c.Rule("C12.R2", "route tables and effective-config maps: build aside, swap under the lock", 20)
	c.Rule("C12.R3", "no replace-style update inside a loop over the parts of one assignment", 3)
	c.Rule("C12.R4", "removal deletes the live entry and records the removal for the same name", 3)
	c.Rule("C12.R5", "recorders store what they are given on every path (skips only for nil, missing key, DeepEqual)", 7)
	c.Rule("C12.R6", "a new cluster is published in the live registry only after the update handler filled it", 2)
	c.Rule("C12.R10", "appending a host that is already known updates it (appended hosts precede existing ones; de-duplication keeps the first)", 2)
	c.Rule("C12.R9", "a binary search in an update path runs on a slice that is still sorted (removed objects are really found)", 1)
	c.Rule("C12.R8", "a rejected update leaves the stored configuration alone: no recorder runs on a path that ends in an error", 4)
	c.Rule("C12.R7", "live virtual-host positions equal configuration positions (no virtual host skipped; recorded index = config index)", 2)
	c.NotDecided = append(c.NotDecided, "observational equivalence of the live state with a MOSN restarted from the dump (needs running both)", "xDS conversion of individual fields")

	isNilErrReturn := func(in ssa.Instruction) bool {
		ret, ok := in.(*ssa.Return)
		if !ok || len(ret.Results) == 0 {
			return ok
		}
		last := unspill(ret, len(ret.Results)-1)
		if last.Type().String() != "error" {
			return true
		}
		return isNilConst(last)
	}
	named := func(n string) func(cc *ssa.CallCommon) bool {
		return func(cc *ssa.CallCommon) bool { return methodName(cc) == n }
	}
	// mustRecord: from every live store, every success return passes the recorder (or the recorder dominates the store)
	mustRecord := func(fn *ssa.Function, what string, live func(in ssa.Instruction) bool, recorder string) {
		fk := funcKey(fn)
		recs := callsIn(fn, false, func(cc *ssa.CallCommon) bool {
			return methodName(cc) == recorder
		})
		lives := instrsWhere(fn, live)
		if len(lives) == 0 {
			c.Fail("C12.R1", fk+":live-store", fn.Pos(), "live store of "+what+" not found")
			return
		}
		if len(recs) == 0 {
			c.Fail("C12.R1", fk+":records", fn.Pos(), fmt.Sprintf("%s makes %s live but never calls %s: the change is lost on restart and invisible in the dump", fn.Name(), what, recorder))
			return
		}
		isRec := func(in ssa.Instruction) bool {
			for _, r := range recs {
				if r.Instr == in {
					return true
				}
			}
			return false
		}
		ok := true
		for _, l := range lives {
			dominated := false
			for _, r := range recs {
				if instrDominates(r.Instr, l) {
					dominated = true
				}
			}
			if dominated {
				continue
			}
			if existsPath(fn, l, isNilErrReturn, isRec) != nil {
				ok = false
			}
		}
		c.Check("C12.R1", fk+":records", fn.Pos(), ok, "every success path that makes "+what+" live also calls "+recorder, fmt.Sprintf("a success path of %s makes %s live without calling %s: the running state and the persisted/dumped configuration diverge", fn.Name(), what, recorder))
	}
	storeToField := func(typ, field string) func(in ssa.Instruction) bool {
		return func(in ssa.Instruction) bool {
			st, ok := in.(*ssa.Store)
			if !ok {
				return false
			}
			t, f, _, ok := fieldAddrInfo(st.Addr)
			return ok && f == field && strings.HasSuffix(t, "."+typ)
		}
	}
	callTo := func(name string) func(in ssa.Instruction) bool {
		return func(in ssa.Instruction) bool {
			ci, ok := in.(ssa.CallInstruction)
			if !ok {
				return false
			}
			if _, isDefer := in.(*ssa.Defer); isDefer {
				return false
			}
			return methodName(ci.Common()) == name
		}
	}
	_ = callTo
	or := func(a, b func(in ssa.Instruction) bool) func(in ssa.Instruction) bool {
		return func(in ssa.Instruction) bool { return a(in) || b(in) }
	}

	rp := "pkg/router"
	if fn := c.M(rp, "routersManagerImpl", "AddOrUpdateRouters"); fn != nil {
		mustRecord(fn, "the route table", or(storeToField("RoutersWrapper", "routers"), func(in ssa.Instruction) bool {
			ci, ok := in.(ssa.CallInstruction)
			return ok && calleeName(ci.Common()) == "(*sync.Map).Store"
		}), "SetRouter")
		// the recorded value is the configuration that was made live
		okVal := false
		for _, cs := range callsIn(fn, false, named("SetRouter")) {
			if u, ok := cs.Instr.Common().Args[0].(*ssa.UnOp); ok && sameParam(u.X, fn.Params[1]) {
				okVal = true
			}
		}
		c.Check("C12.R1", funcKey(fn)+":records-live-value", fn.Pos(), okVal, "SetRouter(*routerConfig) records the configuration just installed", "the router configuration recorded is not the one made live")
	} else {
		c.Unresolved("C12.R1", "routersManagerImpl.AddOrUpdateRouters")
	}
	for _, m := range []string{"AddRoute", "RemoveAllRoutes"} {
		fn := c.M(rp, "routersManagerImpl", m)
		if fn == nil {
			c.Unresolved("C12.R1", "routersManagerImpl."+m)
			continue
		}
		mustRecord(fn, "the changed routes", func(in ssa.Instruction) bool {
			ci, ok := in.(ssa.CallInstruction)
			return ok && ci.Common().IsInvoke() && ci.Common().Method.Name() == m
		}, "SetRouter")
		// the config recorded is the one stored back into the wrapper
		okVal := false
		for _, cs := range callsIn(fn, false, named("SetRouter")) {
			if u, ok := cs.Instr.Common().Args[0].(*ssa.UnOp); ok {
				for _, st := range instrsWhere(fn, storeToField("RoutersWrapper", "routersConfig")) {
					if st.(*ssa.Store).Val == u.X {
						okVal = true
					}
				}
			}
		}
		c.Check("C12.R1", funcKey(fn)+":records-live-value", fn.Pos(), okVal, "the modified configuration is stored in the wrapper and recorded", m+" records a configuration that is not the one it stored as live")
	}
	cp := "pkg/upstream/cluster"
	if fn := c.M(cp, "clusterManager", "UpdateCluster"); fn != nil {
		isMapStore := func(in ssa.Instruction) bool {
			ci, ok := in.(ssa.CallInstruction)
			return ok && calleeName(ci.Common()) == "(*sync.Map).Store"
		}
		mustRecord(fn, "the cluster", isMapStore, "SetClusterConfig")
		mustRecord(fn, "the cluster's hosts", isMapStore, "refreshHostsConfig")
		// the value recorded / refreshed is the one stored
		okVal := false
		for _, cs := range callsIn(fn, false, named("SetClusterConfig")) {
			if sameParam(cs.Instr.Common().Args[0], fn.Params[1]) || sameThroughSpill(cs.Instr.Common().Args[0], fn.Params[1]) {
				okVal = true
			}
		}
		okRef := false
		for _, cs := range callsIn(fn, false, named("refreshHostsConfig")) {
			for _, st := range instrsWhere(fn, isMapStore) {
				a := st.(ssa.CallInstruction).Common().Args
				if stripIface(a[len(a)-1]) == stripIface(cs.Instr.Common().Args[0]) {
					okRef = true
				}
			}
		}
		c.Check("C12.R1", funcKey(fn)+":records-live-value", fn.Pos(), okVal && okRef, "the cluster config recorded and the hosts refreshed belong to the cluster just stored", "UpdateCluster records/refreshes something other than the cluster it made live")
	} else {
		c.Unresolved("C12.R1", "clusterManager.UpdateCluster")
	}
	if fn := c.M(cp, "clusterManager", "UpdateHosts"); fn != nil {
		// the handler call is the live mutation
		mustRecord(fn, "the host set", func(in ssa.Instruction) bool {
			call, ok := in.(*ssa.Call)
			if !ok || call.Common().IsInvoke() || call.Common().StaticCallee() != nil {
				return false
			}
			_, isParam := call.Common().Value.(*ssa.Parameter)
			return isParam
		}, "refreshHostsConfig")
	} else {
		c.Unresolved("C12.R1", "clusterManager.UpdateHosts")
	}
	if fn := c.F(cp, "refreshHostsConfig"); fn != nil {
		// reads hosts back from the NEW snapshot of the cluster and records them under that cluster's name
		sh := callsIn(fn, false, named("SetHosts"))
		snap := callsIn(fn, false, named("Snapshot"))
		ok := len(sh) == 1 && len(snap) >= 1
		for _, s := range snap {
			if stripIface(s.Instr.Common().Value) != ssa.Value(fn.Params[0]) {
				ok = false
			}
		}
		c.Check("C12.R1", funcKey(fn)+":hosts-from-new-snapshot", fn.Pos(), ok, "hosts are read back from the cluster's current snapshot and recorded with SetHosts", "refreshHostsConfig no longer records the hosts of the cluster's current snapshot")
	} else {
		c.Unresolved("C12.R1", "cluster.refreshHostsConfig")
	}
	if fn := c.M(cp, "clusterManager", "UpdateTLSManager"); fn != nil {
		mustRecord(fn, "the cluster-manager TLS context", func(in ssa.Instruction) bool {
			ci, ok := in.(ssa.CallInstruction)
			return ok && calleeName(ci.Common()) == "(*sync/atomic.Value).Store"
		}, "SetClusterManagerTLS")
	} else {
		c.Unresolved("C12.R1", "clusterManager.UpdateTLSManager")
	}
	// listeners: whoever starts/updates an active listener records its config
	nl := 0
	for _, fn := range c.PkgFuncs("pkg/server") {
		if len(callsIn(fn, false, named("SetListenerConfig"))) > 0 {
			nl++
			c.FuncsSeen[fn.String()] = true
		}
	}
	if ao := c.M("pkg/server", "connHandler", "AddOrUpdateListener"); ao != nil {
		// AddOrUpdateListener (or a function it always calls on success) records the listener
		rec := map[*ssa.Function]bool{}
		for _, fn := range c.PkgFuncs("pkg/server") {
			if len(callsIn(fn, false, named("SetListenerConfig"))) > 0 {
				rec[fn] = true
			}
		}
		isRec := func(in ssa.Instruction) bool {
			ci, ok := in.(ssa.CallInstruction)
			if !ok {
				return false
			}
			if methodName(ci.Common()) == "SetListenerConfig" {
				return true
			}
			callee := ci.Common().StaticCallee()
			return callee != nil && rec[callee]
		}
		// success returns: (listener, nil)
		bad := existsPath(ao, nil, isNilErrReturn, isRec)
		c.Check("C12.R1", funcKey(ao)+":records", ao.Pos(), bad == nil && nl >= 1, "every successful AddOrUpdateListener records the listener configuration", "a successful listener add/update does not record the listener configuration")
	} else {
		c.Unresolved("C12.R1", "connHandler.AddOrUpdateListener")
	}

	// R2
	ord := ordCounter{}
	if fn := c.M(rp, "routersManagerImpl", "AddOrUpdateRouters"); fn != nil {
		fk := funcKey(fn)
		var s1, s2 *ssa.Store
		for _, in := range instrsWhere(fn, storeToField("RoutersWrapper", "routers")) {
			st := in.(*ssa.Store)
			if _, fresh := st.Addr.(*ssa.FieldAddr).X.(*ssa.Alloc); !fresh {
				s1 = st
			}
		}
		for _, in := range instrsWhere(fn, storeToField("RoutersWrapper", "routersConfig")) {
			st := in.(*ssa.Store)
			if _, fresh := st.Addr.(*ssa.FieldAddr).X.(*ssa.Alloc); !fresh {
				s2 = st
			}
		}
		ok := s1 != nil && s2 != nil && lockHeld(s1, "mux") && lockHeld(s2, "mux") && s1.Block() == s2.Block()
		c.Check("C12.R2", fk+":swap-under-lock", fn.Pos(), ok, "routers and routersConfig are replaced together inside one mux critical section", "the live route table and its configuration are not swapped together under the wrapper's lock: a lookup could pair a new table with an old config (or read a half-written wrapper)")
		// built aside: the stored routers is a NewRouters result computed before the lock
		aside := false
		if s1 != nil {
			if ex, ok := s1.Val.(*ssa.Extract); ok {
				if call, ok := ex.Tuple.(*ssa.Call); ok && methodName(call.Common()) == "NewRouters" && !lockHeld(call, "mux") {
					aside = true
				}
			}
		}
		c.Check("C12.R2", fk+":built-aside", fn.Pos(), aside, "the new table is built by NewRouters before the lock is taken", "the live route table is not a freshly built NewRouters result (it would be mutated in place, or built while holding the lock)")
	}
	// all other accesses of the wrapper's fields are under the lock
	nacc := 0
	for _, fn := range c.PkgFuncs(rp) {
		for _, fld := range []string{"routers", "routersConfig"} {
			for _, acc := range fieldAccesses(fn, ".RoutersWrapper", fld, false) {
				fa, _ := acc.(*ssa.FieldAddr)
				if fa != nil {
					if _, fresh := fa.X.(*ssa.Alloc); fresh {
						continue
					}
				}
				nacc++
				c.Check("C12.R2", ord.next(fn, "wrapper-"+fld), nearestPos(acc), lockHeld(acc, "mux"), "under RoutersWrapper.mux", "RoutersWrapper."+fld+" accessed without its lock")
			}
		}
	}
	if nacc < 6 {
		c.Unresolved("C12.R2", fmt.Sprintf("RoutersWrapper field accesses (found %d)", nacc))
	}
	// configmanager: conf.* under configLock; writes under the write lock
	cmp := "pkg/configmanager"
	nconf := 0
	for _, fn := range c.PkgFuncs(cmp) {
		if strings.HasPrefix(fn.Name(), "init") || fn.Name() == "tryDump" {
			continue
		}
		forEachInstr(fn, false, func(f *ssa.Function, in ssa.Instruction) {
			fa, ok := in.(*ssa.FieldAddr)
			if !ok {
				return
			}
			g, ok := fa.X.(*ssa.Global)
			if !ok || g.Name() != "conf" {
				return
			}
			nconf++
			key := ord.next(f, "conf-"+derefStruct(fa.X.Type()).Field(fa.Field).Name())
			isWrite := false
			for _, r := range refs(fa) {
				switch x := r.(type) {
				case *ssa.Store:
					if x.Addr == ssa.Value(fa) {
						isWrite = true
					}
				case *ssa.UnOp:
					// map loaded then updated / deleted
					for _, r2 := range refs(x) {
						if _, ok := r2.(*ssa.MapUpdate); ok {
							isWrite = true
						}
						if ci, ok := r2.(ssa.CallInstruction); ok {
							if b, ok := ci.Common().Value.(*ssa.Builtin); ok && b.Name() == "delete" {
								isWrite = true
							}
						}
					}
				case *ssa.FieldAddr:
					for _, r2 := range refs(x) {
						if s2, ok := r2.(*ssa.Store); ok && s2.Addr == ssa.Value(x) {
							isWrite = true
						}
					}
				}
			}
			w, rd := globalLockHeld(in, "configLock")
			switch {
			case isWrite && w:
				c.Pass("C12.R2", key, nearestPos(in), "write under configLock.Lock")
			case !isWrite && (w || rd):
				c.Pass("C12.R2", key, nearestPos(in), "read under configLock")
			case calledOnlyUnderLock(c, f, cmp, isWrite):
				c.Pass("C12.R2", key, nearestPos(in), "helper called only with configLock held")
			case isWrite:
				c.Fail("C12.R2", key, nearestPos(in), "the effective configuration is written without configLock.Lock (a read lock or no lock): a concurrent dump or update sees a torn model")
			default:
				c.Fail("C12.R2", key, nearestPos(in), "the effective configuration is read without configLock")
			}
		})
	}
	if nconf < 15 {
		c.Unresolved("C12.R2", fmt.Sprintf("accesses of the effective config (found %d)", nconf))
	}

	c12Recorders(c)
	c12PublishAfterInit(c)
	c12IndexAligned(c)
	c12RecordOnlyOnSuccess(c)
	c12SearchOnSorted(c)
	c12AppendLastWins(c)
	recordedHostsReadBack(c, "C12.R1")

	// R3
	replace := map[string]int{"TriggerClusterHostUpdate": 0, "UpdateClusterHosts": 0, "AddOrUpdateRouters": 0}
	nrep := 0
	for _, pkg := range []string{"istio/istio1106/xds/conv", "pkg/server", "pkg/upstream/cluster"} {
		for _, fn := range c.PkgFuncs(pkg) {
			loops := naturalLoops(fn)
			for _, cs := range callsIn(fn, false, func(cc *ssa.CallCommon) bool { _, ok := replace[methodName(cc)]; return ok }) {
				nrep++
				key := ord.next(fn, "replace-"+methodName(cs.Instr.Common()))
				args := argsOf(cs.Instr.Common())
				// innermost loop containing the call
				var inner map[*ssa.BasicBlock]bool
				for _, body := range loops {
					if body[cs.Instr.Block()] && (inner == nil || len(body) < len(inner)) {
						inner = body
					}
				}
				if inner == nil || len(args) < 1 {
					c.Pass("C12.R3", key, cs.Instr.Pos(), "not inside a loop")
					continue
				}
				keyInv := !definedIn(args[0], inner) && !keyFromLoop(args[0], inner)
				valIn := len(args) > 1 && (definedIn(args[1], inner) || valueFromLoop(args[1], inner))
				if keyInv && valIn {
					c.Fail("C12.R3", key, cs.Instr.Pos(), fmt.Sprintf("%s replaces the whole entry but is called in a loop whose iterations share the key while the value is produced per iteration: only the last part survives (an assignment must yield the union of its parts)", methodName(cs.Instr.Common())))
				} else {
					c.Pass("C12.R3", key, cs.Instr.Pos(), "each iteration of the enclosing loop updates a different key (or the value is accumulated outside the loop)")
				}
			}
		}
	}
	if nrep < 3 {
		c.Unresolved("C12.R3", fmt.Sprintf("replace-style update call sites (found %d)", nrep))
	}

	// R4
	if fn := c.M(cp, "clusterManager", "RemovePrimaryCluster"); fn != nil {
		del := callsIn(fn, false, func(cc *ssa.CallCommon) bool { return calleeName(cc) == "(*sync.Map).Delete" })
		rec := callsIn(fn, false, named("SetRemoveClusterConfig"))
		ok := len(del) == 1 && len(rec) == 1 && del[0].Instr.Block() == rec[0].Instr.Block()
		if ok {
			k1 := stripIface(del[0].Instr.Common().Args[len(del[0].Instr.Common().Args)-1])
			k2 := rec[0].Instr.Common().Args[0]
			ok = k1 == k2
		}
		c.Check("C12.R4", funcKey(fn)+":delete-and-record", fn.Pos(), ok, "the cluster is deleted from the live map and its removal recorded for the same name", "removing a cluster does not both delete the live entry and record the removal under the same name")
	} else {
		c.Unresolved("C12.R4", "clusterManager.RemovePrimaryCluster")
	}
	if fn := c.M(rp, "VirtualHostImpl", "RemoveAllRoutes"); fn != nil {
		r := len(instrsWhere(fn, storeToField("VirtualHostImpl", "routes")))
		f := len(instrsWhere(fn, storeToField("VirtualHostImpl", "fastIndex")))
		c.Check("C12.R4", funcKey(fn)+":clears-both", fn.Pos(), r == 1 && f == 1, "both the route list and the fast index are cleared", "RemoveAllRoutes leaves the route list or the fast index populated: removed routes would still be served")
	} else {
		c.Unresolved("C12.R4", "VirtualHostImpl.RemoveAllRoutes")
	}
	if fn := c.F(cmp, "SetRemoveClusterConfig"); fn != nil {
		d := 0
		forEachInstr(fn, false, func(_ *ssa.Function, in ssa.Instruction) {
			if ci, ok := in.(ssa.CallInstruction); ok {
				if b, ok := ci.Common().Value.(*ssa.Builtin); ok && b.Name() == "delete" {
					d++
				}
			}
		})
		c.Check("C12.R4", funcKey(fn)+":deletes-config", fn.Pos(), d >= 1, "the removed cluster is deleted from the effective config", "SetRemoveClusterConfig no longer deletes the cluster from the effective config: the dump would resurrect it")
	} else {
		c.Unresolved("C12.R4", "configmanager.SetRemoveClusterConfig")
	}
	_ = token.NoPos
	_ = sort.Strings
}

// keyFromLoop: the key argument is read from the loop's own range variable.
func keyFromLoop(v ssa.Value, body map[*ssa.BasicBlock]bool) bool {
	for i := 0; i < 8; i++ {
		switch x := v.(type) {
		case *ssa.UnOp:
			if definedIn(x, body) {
				return true
			}
			v = x.X
		case *ssa.FieldAddr:
			if definedIn(x, body) {
				return true
			}
			v = x.X
		default:
			return definedIn(v, body)
		}
	}
	return false
}

// valueFromLoop: the value is (a phi fed by) something produced inside the loop while not accumulated: a value that
// is an append accumulator carried around the loop counts as accumulated only if the call is OUTSIDE the loop.
func valueFromLoop(v ssa.Value, body map[*ssa.BasicBlock]bool) bool {
	return definedIn(v, body)
}

// globalLockHeld: package-level mutex `name` is held for writing / reading at `in`.
func globalLockHeld(in ssa.Instruction, name string) (write, read bool) {
	fn := in.Parent()
	isOp := func(x ssa.Instruction, op string) bool {
		ci, ok := x.(ssa.CallInstruction)
		if !ok {
			return false
		}
		cc := ci.Common()
		if methodName(cc) != op || len(cc.Args) == 0 {
			return false
		}
		g, ok := cc.Args[0].(*ssa.Global)
		return ok && g.Name() == name
	}
	for _, b := range fn.Blocks {
		for _, x := range b.Instrs {
			for _, mode := range []string{"Lock", "RLock"} {
				if _, isDefer := x.(*ssa.Defer); isDefer || !isOp(x, mode) || !instrDominates(x, in) {
					continue
				}
				un := "Unlock"
				if mode == "RLock" {
					un = "RUnlock"
				}
				// no explicit (non-deferred) unlock between
				released := false
				for _, bb := range fn.Blocks {
					for _, y := range bb.Instrs {
						if _, isDefer := y.(*ssa.Defer); isDefer {
							continue
						}
						if isOp(y, un) && instrDominates(x, y) && existsPath(fn, y, func(z ssa.Instruction) bool { return z == in }, func(z ssa.Instruction) bool { return z == x }) != nil {
							released = true
						}
					}
				}
				if !released {
					if mode == "Lock" {
						write = true
					} else {
						read = true
					}
				}
			}
		}
	}
	return
}

// calledOnlyUnderLock: every call site of fn inside the package holds configLock (write lock when needWrite).
func calledOnlyUnderLock(c *Ctx, fn *ssa.Function, pkg string, needWrite bool) bool {
	n := 0
	for _, f := range c.PkgFuncs(pkg) {
		for _, cs := range callsIn(f, true, func(cc *ssa.CallCommon) bool { return cc.StaticCallee() == fn }) {
			n++
			w, r := globalLockHeld(cs.Instr, "configLock")
			if needWrite && !w {
				return false
			}
			if !needWrite && !(w || r) {
				return false
			}
		}
	}
	if n == 0 && !token.IsExported(fn.Name()) {
		return true // unreferenced unexported helper: nothing can reach it
	}
	return n > 0
}

// c12FilterUpdateInstalled (R14): an update of a listener's stream filters always takes effect.
// connHandler.AddOrUpdateListener records the new listener configuration (R1) and hands the stream filter list to
// StreamFilterManager -> StreamFilterFactoryImpl.UpdateFactory. Clause (must-pass-through): every path of UpdateFactory stores
// the factories built from the new configuration (`factories.Store`); no early return keeps the previous ones. An update
// that is skipped "because nothing could be built" also skips the update that removes the last filter: the dump says the
// listener has no stream filters while every new stream still gets the old ones.
func c12FilterUpdateInstalled(c *Ctx) {
	fn := c.M("pkg/streamfilter", "StreamFilterFactoryImpl", "UpdateFactory")
	if fn == nil {
		c.Unresolved("C12.R14", "StreamFilterFactoryImpl.UpdateFactory")
		return
	}
	isStore := func(in ssa.Instruction) bool {
		call, ok := in.(*ssa.Call)
		if !ok || methodName(call.Common()) != "Store" || len(call.Common().Args) == 0 {
			return false
		}
		_, f, _, okf := fieldAddrInfo(call.Common().Args[0])
		return okf && f == "factories"
	}
	bad := existsPath(fn, nil, isReturn, isStore)
	pos := fn.Pos()
	if bad != nil {
		pos = nearestPos(bad)
	}
	c.Check("C12.R14", funcKey(fn)+":filter-update-installed", pos, bad == nil, "every path stores the factories built from the new configuration", "UpdateFactory can return without installing the factories of the new configuration: the recorded listener configuration and the filters that run on new streams differ (an update that removes the last stream filter is ignored)")
}
