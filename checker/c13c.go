package main

import (
	"fmt"
	"go/types"
	"sort"
	"strings"

	"golang.org/x/tools/go/ssa"
)

// c13ClockPerHandshake (R12): the validity period of a peer certificate is checked against the time of the handshake.
// With a custom verifier installed (VerifyPeerCertificate + InsecureSkipVerify) nothing but the x509.VerifyOptions the
// verifier builds decides whether an expired - or not yet valid - certificate is accepted. Clause: for every
// (*x509.Certificate).Verify(opts) call under pkg/mtls, opts.CurrentTime is left zero (x509 then reads the clock itself)
// or is the result of a clock read (time.Now(), tls.Config.Time(), Config.time()) executed per handshake: the read sits
// in the function that calls Verify or in a function statically reachable from a handshake callback (signature
// func([][]byte, [][]*x509.Certificate) error). The value is followed through locals, phis, struct copies, parameters
// (to every call site) and helper results; a value captured by the callback when the hook was created (a free variable)
// is the violation: the clock is frozen at the time the TLS context was built.
func c13ClockPerHandshake(c *Ctx) {
	inScope := func(f *ssa.Function) bool {
		return f != nil && f.Pkg != nil && strings.Contains(f.Pkg.Pkg.Path(), "/pkg/mtls")
	}
	var scope []*ssa.Function
	for fn := range c.all {
		if inScope(fn) && len(fn.Blocks) > 0 && fn.Synthetic == "" {
			scope = append(scope, fn)
		}
	}
	sort.Slice(scope, func(i, j int) bool { return scope[i].String() < scope[j].String() })
	isCallback := func(f *ssa.Function) bool {
		sig := f.Signature
		if sig.Params().Len() != 2 || sig.Results().Len() != 1 {
			return false
		}
		return sig.Params().At(0).Type().String() == "[][]byte" && strings.HasSuffix(sig.Params().At(1).Type().String(), "x509.Certificate") && sig.Results().At(0).Type().String() == "error"
	}
	perHandshake := map[*ssa.Function]bool{}
	var work []*ssa.Function
	for _, f := range scope {
		if isCallback(f) {
			work = append(work, f)
		}
	}
	for len(work) > 0 {
		f := work[len(work)-1]
		work = work[:len(work)-1]
		if perHandshake[f] || !inScope(f) || len(f.Blocks) == 0 {
			continue
		}
		perHandshake[f] = true
		forEachInstr(f, false, func(_ *ssa.Function, in ssa.Instruction) {
			if ci, ok := in.(ssa.CallInstruction); ok {
				if callee := ci.Common().StaticCallee(); callee != nil {
					work = append(work, callee)
				}
			}
		})
	}
	callers := func(f *ssa.Function) []ssa.CallInstruction {
		var out []ssa.CallInstruction
		for _, g := range scope {
			forEachInstr(g, false, func(_ *ssa.Function, in ssa.Instruction) {
				if ci, ok := in.(ssa.CallInstruction); ok && ci.Common().StaticCallee() == f {
					out = append(out, ci)
				}
			})
		}
		return out
	}
	isClock := func(call *ssa.Call) bool {
		cc := call.Common()
		if f := cc.StaticCallee(); f != nil {
			if f.Pkg != nil && f.Pkg.Pkg.Path() == "time" && f.Name() == "Now" {
				return true
			}
			return f.Name() == "time" && f.Signature.Recv() != nil && f.Signature.Results().Len() == 1 && f.Signature.Results().At(0).Type().String() == "time.Time"
		}
		if cc.IsInvoke() {
			return false
		}
		_, fld, _, ok := loadedField(cc.Value)
		return ok && (fld == "Time" || fld == "time")
	}
	type site struct {
		call *ssa.Call
		fn   *ssa.Function
	}
	var sites []site
	for _, f := range scope {
		forEachInstr(f, false, func(_ *ssa.Function, in ssa.Instruction) {
			call, ok := in.(*ssa.Call)
			if !ok {
				return
			}
			callee := call.Common().StaticCallee()
			if callee == nil || callee.Name() != "Verify" || callee.Signature.Recv() == nil || !strings.HasSuffix(callee.Signature.Recv().Type().String(), "x509.Certificate") {
				return
			}
			sites = append(sites, site{call, f})
		})
	}
	ord := ordCounter{}
	for _, s := range sites {
		verifyFn := s.fn
		var why string
		seen := map[ssa.Value]bool{}
		var timeVal, optsVal func(v ssa.Value, d int) bool
		fail := func(msg string) bool {
			if why == "" {
				why = msg
			}
			return false
		}
		param := func(p *ssa.Parameter, d int, next func(ssa.Value, int) bool) bool {
			f := p.Parent()
			idx := -1
			for i, q := range f.Params {
				if q == p {
					idx = i
				}
			}
			cs := callers(f)
			if len(cs) == 0 || d > 4 {
				return fail("parameter " + p.Name() + " of " + f.Name() + " has no resolvable call site")
			}
			for _, ci := range cs {
				if idx >= len(ci.Common().Args) || !next(ci.Common().Args[idx], d+1) {
					return false
				}
			}
			return true
		}
		allocStores := func(a *ssa.Alloc) (whole []ssa.Value, field []ssa.Value, other bool) {
			for _, r := range refs(a) {
				switch x := r.(type) {
				case *ssa.Store:
					if x.Addr == ssa.Value(a) {
						whole = append(whole, x.Val)
					}
				case *ssa.FieldAddr:
					if _, fld, _, _ := fieldAddrInfo(x); fld == "CurrentTime" {
						for _, rr := range refs(x) {
							if st, ok := rr.(*ssa.Store); ok && st.Addr == ssa.Value(x) {
								field = append(field, st.Val)
							}
						}
					}
				}
			}
			return
		}
		timeVal = func(v ssa.Value, d int) bool {
			if seen[v] {
				return true
			}
			seen[v] = true
			switch x := v.(type) {
			case *ssa.Const:
				return true
			case *ssa.Call:
				if isClock(x) {
					if f := x.Parent(); f == verifyFn || perHandshake[f] || (f.Parent() != nil && perHandshake[f.Parent()]) {
						return true
					}
					return fail("the clock is read in " + x.Parent().Name() + " (" + shortPos(c, x.Pos()) + "), which does not run per handshake")
				}
				if h := x.Common().StaticCallee(); h != nil && len(h.Blocks) > 0 && inScope(h) && d <= 4 {
					for _, rs := range returnSites(h, 0) {
						if !timeVal(rs.val, d+1) {
							return false
						}
					}
					return true
				}
				return fail("time value produced by " + calleeName(x.Common()))
			case *ssa.Phi:
				for _, e := range x.Edges {
					if !timeVal(e, d) {
						return false
					}
				}
				return true
			case *ssa.Parameter:
				return param(x, d, timeVal)
			case *ssa.FreeVar:
				return fail("the time is a value captured when the verifier was created (" + x.Name() + " in " + x.Parent().Name() + ")")
			case *ssa.UnOp:
				if a, ok := x.X.(*ssa.Alloc); ok {
					for _, r := range refs(a) {
						if st, ok := r.(*ssa.Store); ok && st.Addr == ssa.Value(a) && !timeVal(st.Val, d) {
							return false
						}
					}
					return true
				}
				if _, fld, base, ok := fieldAddrInfo(x.X); ok && fld == "CurrentTime" {
					return optsVal(base, d)
				}
				if fv, ok := x.X.(*ssa.FreeVar); ok {
					return fail("the time is read from a variable captured when the verifier was created (" + fv.Name() + ")")
				}
			case *ssa.Field:
				if _, fld, base, ok := fieldAddrInfo(x); ok && fld == "CurrentTime" {
					return optsVal(base, d)
				}
			}
			return fail(fmt.Sprintf("time value of unrecognised origin (%T at %s)", v, shortPos(c, v.Pos())))
		}
		// optsVal: v is a VerifyOptions value or a pointer to one
		optsVal = func(v ssa.Value, d int) bool {
			if seen[v] {
				return true
			}
			seen[v] = true
			switch x := v.(type) {
			case *ssa.Const:
				return true
			case *ssa.Alloc:
				whole, field, _ := allocStores(x)
				for _, w := range whole {
					if !optsVal(w, d) {
						return false
					}
				}
				for _, f := range field {
					if !timeVal(f, d) {
						return false
					}
				}
				return true
			case *ssa.UnOp:
				if fv, ok := x.X.(*ssa.FreeVar); ok {
					return fail("the verify options are a value captured when the verifier was created (" + fv.Name() + " in " + fv.Parent().Name() + ")")
				}
				return optsVal(x.X, d)
			case *ssa.Phi:
				for _, e := range x.Edges {
					if !optsVal(e, d) {
						return false
					}
				}
				return true
			case *ssa.Parameter:
				return param(x, d, optsVal)
			case *ssa.FreeVar:
				return fail("the verify options are a value captured when the verifier was created (" + x.Name() + " in " + x.Parent().Name() + ")")
			case *ssa.Call:
				if h := x.Common().StaticCallee(); h != nil && len(h.Blocks) > 0 && inScope(h) && d <= 4 {
					for _, rs := range returnSites(h, 0) {
						if !optsVal(rs.val, d+1) {
							return false
						}
					}
					return true
				}
			}
			if _, isStruct := v.Type().Underlying().(*types.Struct); isStruct {
				return fail(fmt.Sprintf("verify options of unrecognised origin (%T at %s)", v, shortPos(c, v.Pos())))
			}
			return fail(fmt.Sprintf("verify options of unrecognised origin (%T at %s)", v, shortPos(c, v.Pos())))
		}
		args := s.call.Common().Args
		ok := optsVal(args[len(args)-1], 0)
		c.Check("C13.R12", ord.next(s.fn, "clock-per-handshake"), s.call.Pos(), ok, "CurrentTime is zero or a clock read made during the handshake", "the time a peer certificate's validity period is checked against is not read during the handshake ("+why+"): an upstream or client certificate that expired after the TLS context was built is still accepted, one that became valid later is rejected")
	}
	if len(sites) < 1 {
		c.Unresolved("C13.R12", "(*x509.Certificate).Verify call sites under pkg/mtls")
	}
}

// c13TrustAnchorsOnlyFromConfig (R13): the set of trust anchors is the configured CA and nothing else.
// The *x509.CertPool that hooks.GetX509Pool builds from `ca_cert` becomes both RootCAs and ClientCAs (R3). Everything added
// to that pool afterwards is a trust anchor: a peer whose chain ends there passes verify_client / server verification.
// Clause: under pkg/mtls (the forked crypto excluded) every (*x509.CertPool).AddCert / AppendCertsFromPEM call has a
// receiver that was created by x509.NewCertPool() in the same function - a pool that arrives as a parameter, a field or
// another function's result is somebody's trust pool and is not written; and in GetX509Pool what is appended derives
// from the function's CA parameter only.
func c13TrustAnchorsOnlyFromConfig(c *Ctx) {
	n := 0
	ord := ordCounter{}
	var fns []*ssa.Function
	for fn := range c.all {
		if fn.Pkg != nil && strings.Contains(fn.Pkg.Pkg.Path(), "/pkg/mtls") && !strings.Contains(fn.Pkg.Pkg.Path(), "/crypto/") && len(fn.Blocks) > 0 && fn.Synthetic == "" {
			fns = append(fns, fn)
		}
	}
	sort.Slice(fns, func(i, j int) bool { return fns[i].String() < fns[j].String() })
	var fromParam func(v ssa.Value, fn *ssa.Function, d int) bool
	fromParam = func(v ssa.Value, fn *ssa.Function, d int) bool {
		if d > 6 {
			return false
		}
		switch x := v.(type) {
		case *ssa.Parameter:
			return true
		case *ssa.Convert:
			return fromParam(x.X, fn, d+1)
		case *ssa.ChangeType:
			return fromParam(x.X, fn, d+1)
		case *ssa.Slice:
			return fromParam(x.X, fn, d+1)
		case *ssa.Extract:
			// the content of the file the parameter names
			if call, ok := x.Tuple.(*ssa.Call); ok && strings.HasSuffix(calleeName(call.Common()), ".ReadFile") && len(call.Common().Args) == 1 {
				return fromParam(call.Common().Args[0], fn, d+1)
			}
			return false
		case *ssa.Phi:
			for _, e := range x.Edges {
				if !fromParam(e, fn, d+1) {
					return false
				}
			}
			return true
		}
		return false
	}
	for _, fn := range fns {
		forEachInstr(fn, false, func(f *ssa.Function, in ssa.Instruction) {
			call, ok := in.(*ssa.Call)
			if !ok {
				return
			}
			callee := call.Common().StaticCallee()
			if callee == nil || callee.Signature.Recv() == nil || !strings.HasSuffix(callee.Signature.Recv().Type().String(), "x509.CertPool") {
				return
			}
			if callee.Name() != "AddCert" && callee.Name() != "AppendCertsFromPEM" {
				return
			}
			n++
			recv := call.Common().Args[0]
			// fresh: the result of x509.NewCertPool() in this function (possibly through a load of a local / field of a local literal)
			fresh := false
			var origin func(v ssa.Value, d int) bool
			origin = func(v ssa.Value, d int) bool {
				if d > 6 {
					return false
				}
				switch x := v.(type) {
				case *ssa.Call:
					return strings.HasSuffix(calleeName(x.Common()), "x509.NewCertPool")
				case *ssa.UnOp:
					// load of a field of a local literal: find the store
					if fa, ok := x.X.(*ssa.FieldAddr); ok {
						if _, isAlloc := fa.X.(*ssa.Alloc); isAlloc {
							for _, r := range refs(fa.X) {
								if fa2, ok := r.(*ssa.FieldAddr); ok && fa2.Field == fa.Field {
									for _, rr := range refs(fa2) {
										if st, ok := rr.(*ssa.Store); ok && st.Addr == ssa.Value(fa2) {
											return origin(st.Val, d+1)
										}
									}
								}
							}
						}
					}
				case *ssa.Phi:
					for _, e := range x.Edges {
						if !origin(e, d+1) {
							return false
						}
					}
					return true
				}
				return false
			}
			fresh = origin(recv, 0)
			ok2 := true
			if f.Name() == "GetX509Pool" && callee.Name() == "AppendCertsFromPEM" && len(call.Common().Args) == 2 {
				ok2 = fromParam(call.Common().Args[1], f, 0)
			}
			c.Check("C13.R13", ord.next(f, "trust-anchors-only-from-config"), call.Pos(), fresh && ok2, "the pool written is created here by x509.NewCertPool() (and GetX509Pool feeds it from its CA parameter only)", "certificates are added to a certificate pool that this function did not create (or GetX509Pool adds material other than the configured CA): the pool built from ca_cert is installed as RootCAs and ClientCAs, so everything added to it is a trust anchor - a peer from another hierarchy passes verify_client / server verification")
		})
	}
	if n < 1 {
		c.Unresolved("C13.R13", "CertPool.AddCert / AppendCertsFromPEM calls under pkg/mtls")
	}
}

// c13ProvidersInConfigOrder (R14): the list GetConfigForClient walks is the configured context list, in its order.
// Selection falls back on order ("first matching ALPN", "first ready context", R5), so the result is the configured one
// only if mng.providers is an ordered image of the listener's tls contexts. Clause: in NewTLSServerContextManager the
// append to mng.providers sits in exactly the loops over cfg.FilterChains and its TLSContexts (no further pass around
// them), and inside an iteration every path from its beginning reaches NewProvider - no context is postponed or skipped by
// a condition on its kind (SDS or static). Otherwise a context configured second is consulted first once it is ready,
// and the first context's verify_client / CA is bypassed.
func c13ProvidersInConfigOrder(c *Ctx) {
	fn := c.F("pkg/mtls", "NewTLSServerContextManager")
	if fn == nil {
		c.Unresolved("C13.R14", "NewTLSServerContextManager")
		return
	}
	var app, newProv ssa.Instruction
	forEachInstr(fn, false, func(_ *ssa.Function, in ssa.Instruction) {
		call, ok := in.(*ssa.Call)
		if !ok {
			return
		}
		if b, isB := call.Common().Value.(*ssa.Builtin); isB && b.Name() == "append" {
			if _, f, _, okf := loadedField(call.Common().Args[0]); okf && f == "providers" {
				app = in
			}
		}
		if methodName(call.Common()) == "NewProvider" {
			newProv = in
		}
	})
	if app == nil || newProv == nil {
		c.Unresolved("C13.R14", "append to mng.providers / NewProvider call in NewTLSServerContextManager")
		return
	}
	loops := naturalLoops(fn)
	var enclosing []*ssa.BasicBlock
	for h, body := range loops {
		if body[app.Block()] {
			enclosing = append(enclosing, h)
		}
	}
	c.Check("C13.R14", funcKey(fn)+":providers-built-in-one-pass", app.Pos(), len(enclosing) == 2, "the append sits in the loops over filter chains and their tls contexts only", fmt.Sprintf("mng.providers is filled inside %d nested loops instead of the two configuration loops: the contexts are appended in several passes, so the provider list is not in configuration order - a context configured second is chosen first whenever order decides (first ALPN match, first ready context)", len(enclosing)))
	// every write of the list appends at its end
	atEnd := true
	for _, st := range storesToField(fn, "serverContextManager", "providers", false) {
		call, ok := st.Val.(*ssa.Call)
		okApp := false
		if ok {
			if b, isB := call.Common().Value.(*ssa.Builtin); isB && b.Name() == "append" {
				if _, f, _, okf := loadedField(call.Common().Args[0]); okf && f == "providers" {
					okApp = true
				}
			}
		}
		if !okApp {
			atEnd = false
		}
	}
	c.Check("C13.R14", funcKey(fn)+":providers-appended-at-the-end", app.Pos(), atEnd, "mng.providers only grows by append(mng.providers, provider)", "mng.providers is written other than by appending a provider at its end (prepended, rebuilt): the list is not in configuration order")
	// innermost loop: every path from the start of an iteration reaches NewProvider
	var inner *ssa.BasicBlock
	for _, h := range enclosing {
		if inner == nil || len(loops[h]) < len(loops[inner]) {
			inner = h
		}
	}
	skip := false
	if inner != nil {
		for _, s := range inner.Succs {
			if !loops[inner][s] || s == inner {
				continue
			}
			if existsPathFrom(s, func(in ssa.Instruction) bool { return in.Block() == inner }, func(in ssa.Instruction) bool {
				if in == newProv {
					return true
				}
				// repair 159: an sds context reserves its position (append(mng.providers, nil)) in the loop and is
				// registered, by that position, once every context was accepted - the order is kept
				if call, isC := in.(*ssa.Call); isC {
					if b, isB := call.Common().Value.(*ssa.Builtin); isB && b.Name() == "append" {
						if _, f, _, okf := loadedField(call.Common().Args[0]); okf && f == "providers" {
							return true
						}
					}
				}
				return false
			}) != nil {
				skip = true
			}
		}
	}
	c.Check("C13.R14", funcKey(fn)+":no-context-postponed", newProv.Pos(), inner != nil && !skip, "every iteration creates its provider", "an iteration over the configured tls contexts can go on to the next context without creating this one's provider: contexts are skipped or postponed, the provider list is no longer an ordered image of the configuration")
}
