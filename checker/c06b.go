package main

import (
	"fmt"
	"sort"
	"strings"

	"golang.org/x/tools/go/ssa"
)

// c06DrawSelects (R5): the cluster a request goes to is the one the weighted draw returned.
// The shares of a route's weighted clusters are decided in one place, (*RouteRuleImplBase).ClusterName (C06.R1/R2 decide
// that draw). They reach the request only if nothing downstream of the draw substitutes another cluster of the table:
//
//	(a) in the route handler (simpleHandler.IsAvailable) every ClusterManager.GetClusterSnapshot call - also inside a
//	    closure - looks up the value ClusterName returned, nothing else;
//	(b) ClusterName is the only function of pkg/router that reads the name of a weighted-cluster entry, i.e. the only
//	    place where a member of the table is picked (MetadataMatchCriteria is handed a name and reads the entry's
//	    criteria, not its name).
//
// A "fallback" that picks another entry when the drawn cluster is missing, however sensible, gives a zero-weight
// cluster traffic and moves a whole share to one cluster.
func c06DrawSelects(c *Ctx) {
	pkg := "pkg/router"
	fn := c.M(pkg, "simpleHandler", "IsAvailable")
	if fn == nil {
		c.Unresolved("C06.R5", "simpleHandler.IsAvailable")
		return
	}
	fk := funcKey(fn)
	var fromDraw func(v ssa.Value, seen map[ssa.Value]bool) bool
	fromDraw = func(v ssa.Value, seen map[ssa.Value]bool) bool {
		if seen[v] {
			return true
		}
		seen[v] = true
		switch x := v.(type) {
		case *ssa.Call:
			return methodName(x.Common()) == "ClusterName"
		case *ssa.Phi:
			for _, e := range x.Edges {
				if !fromDraw(e, seen) {
					return false
				}
			}
			return true
		}
		return false
	}
	n := 0
	for _, cs := range callsIn(fn, true, func(cc *ssa.CallCommon) bool { return methodName(cc) == "GetClusterSnapshot" }) {
		n++
		args := argsOf(cs.Instr.Common())
		ok := len(args) > 0 && fromDraw(args[len(args)-1], map[ssa.Value]bool{})
		c.Check("C06.R5", fmt.Sprintf("%s:snapshot-of-the-drawn-cluster#%d", fk, n), cs.Instr.Pos(), ok, "looks up the cluster ClusterName returned", "the route handler looks up a cluster other than the one the weighted draw returned: requests whose draw is replaced go to a cluster chosen without regard to the weights (a zero-weight cluster can receive traffic, the shares are no longer weight/total)")
	}
	if n < 1 {
		c.Unresolved("C06.R5", "GetClusterSnapshot call in simpleHandler.IsAvailable")
	}
	var readers []string
	for _, f := range c.PkgFuncs(pkg) {
		reads := false
		forEachInstr(f, false, func(_ *ssa.Function, in ssa.Instruction) {
			v, ok := in.(ssa.Value)
			if !ok {
				return
			}
			t, fld, _, ok := fieldAddrInfo(v)
			if !ok || fld != "clusterName" || !strings.HasSuffix(t, "weightedClusterEntry") {
				return
			}
			if _, isField := v.(*ssa.Field); isField {
				reads = true
				return
			}
			for _, r := range refs(v) {
				if st, isSt := r.(*ssa.Store); isSt && st.Addr == v {
					continue
				}
				reads = true
			}
		})
		if reads {
			name := f.Name()
			if f.Parent() != nil {
				name = f.Parent().Name() + "$closure"
			}
			readers = append(readers, name)
		}
	}
	sort.Strings(readers)
	c.Check("C06.R5", "pkg/router.weightedClusterEntry.clusterName:picked-only-by-the-draw", fn.Pos(), len(readers) == 1 && readers[0] == "ClusterName", "only ClusterName reads a weighted entry's name", "a member of the weighted-cluster table is picked outside the weighted draw ("+strings.Join(readers, ", ")+"): that choice ignores the configured weights")
}

// oneCriticalSection: a and b both execute with `mutex` held and no explicit Unlock of it lies on a path from a to b.
func oneCriticalSection(fn *ssa.Function, a, b ssa.Instruction, mutex string) bool {
	if !lockHeld(a, mutex) || !lockHeld(b, mutex) {
		return false
	}
	isUnlock := func(in ssa.Instruction) bool {
		ci, ok := in.(*ssa.Call)
		if !ok || len(ci.Common().Args) == 0 {
			return false
		}
		if n := methodName(ci.Common()); n != "Unlock" && n != "RUnlock" {
			return false
		}
		_, f, _, okf := fieldAddrInfo(ci.Common().Args[0])
		return okf && f == mutex
	}
	for _, blk := range fn.Blocks {
		for _, u := range blk.Instrs {
			if !isUnlock(u) {
				continue
			}
			u := u
			if existsPath(fn, a, func(x ssa.Instruction) bool { return x == u }, func(x ssa.Instruction) bool { return x == b }) != nil &&
				existsPath(fn, u, func(x ssa.Instruction) bool { return x == b }, nil) != nil {
				return false
			}
		}
	}
	return true
}

// c06PickAtomic (R6): picking the entry with the earliest deadline and re-queueing it with its new deadline is one
// critical section. The EDF scheduler's fairness argument (each entry is served once per 1/weight of virtual time)
// assumes that the entry whose deadline is advanced is the heap's root *at that moment*. If the scheduler lock is released
// between Peek() and Fix(0) - e.g. to evaluate the weight function outside the lock - a second picker serves and re-queues
// the same entry in the gap; the first picker then advances the deadline of an entry that sits somewhere in the heap,
// fixes an unrelated root, and hands the same host out twice: the shares drift beyond the bounded lag.
func c06PickAtomic(c *Ctx) {
	fn := c.M("pkg/upstream/cluster", "edfScheduler", "NextAndPush")
	if fn == nil {
		c.Unresolved("C06.R6", "edfScheduler.NextAndPush")
		return
	}
	peek := callsIn(fn, false, func(cc *ssa.CallCommon) bool { return methodName(cc) == "Peek" })
	fix := callsIn(fn, false, func(cc *ssa.CallCommon) bool { n := methodName(cc); return n == "Fix" || n == "Push" })
	if len(peek) != 1 || len(fix) < 1 {
		c.Unresolved("C06.R6", fmt.Sprintf("Peek / Fix calls of NextAndPush (found %d / %d)", len(peek), len(fix)))
		return
	}
	for i, f := range fix {
		ok := oneCriticalSection(fn, peek[0].Instr, f.Instr, "lock")
		c.Check("C06.R6", fmt.Sprintf("%s:pick-and-requeue-atomic#%d", funcKey(fn), i+1), f.Instr.Pos(), ok, "Peek and the re-queue run under one hold of the scheduler lock", "the scheduler lock is released between Peek() and the re-queue of the picked entry: a concurrent picker serves the same entry in the gap, its deadline is then advanced while it is no longer the root and the heap is fixed at the wrong position - one host is handed out twice, the weighted shares drift beyond the bounded lag")
	}
}
