package main

import (
	"fmt"
	"sort"
	"strings"

	"golang.org/x/tools/go/ssa"
)

// c06DrawSelects (R5): the cluster a request goes to is the one the weighted draw returned.
// The shares of a route's weighted clusters are decided in one place, (*RouteRuleImplBase).ClusterName (C06.R1/R2 decide
// that draw). They reach the request only if nothing downstream of the draw substitutes another cluster of the table:
//
//	(a) in the route handler (simpleHandler.IsAvailable) every ClusterManager.GetClusterSnapshot call - also inside a
//	    closure - looks up the value ClusterName returned, nothing else;
//	(b) ClusterName is the only function of pkg/router that reads the name of a weighted-cluster entry, i.e. the only
//	    place where a member of the table is picked (MetadataMatchCriteria is handed a name and reads the entry's
//	    criteria, not its name).
//
// A "fallback" that picks another entry when the drawn cluster is missing, however sensible, gives a zero-weight
// cluster traffic and moves a whole share to one cluster.
func c06DrawSelects(c *Ctx) {
	pkg := "pkg/router"
	fn := c.M(pkg, "simpleHandler", "IsAvailable")
	if fn == nil {
		c.Unresolved("C06.R5", "simpleHandler.IsAvailable")
		return
	}
	fk := funcKey(fn)
	var fromDraw func(v ssa.Value, seen map[ssa.Value]bool) bool
	fromDraw = func(v ssa.Value, seen map[ssa.Value]bool) bool {
		if seen[v] {
			return true
		}
		seen[v] = true
		switch x := v.(type) {
		case *ssa.Call:
			return methodName(x.Common()) == "ClusterName"
		case *ssa.Phi:
			for _, e := range x.Edges {
				if !fromDraw(e, seen) {
					return false
				}
			}
			return true
		}
		return false
	}
	n := 0
	for _, cs := range callsIn(fn, true, func(cc *ssa.CallCommon) bool { return methodName(cc) == "GetClusterSnapshot" }) {
		n++
		args := argsOf(cs.Instr.Common())
		ok := len(args) > 0 && fromDraw(args[len(args)-1], map[ssa.Value]bool{})
		c.Check("C06.R5", fmt.Sprintf("%s:snapshot-of-the-drawn-cluster#%d", fk, n), cs.Instr.Pos(), ok, "looks up the cluster ClusterName returned", "the route handler looks up a cluster other than the one the weighted draw returned: requests whose draw is replaced go to a cluster chosen without regard to the weights (a zero-weight cluster can receive traffic, the shares are no longer weight/total)")
	}
	if n < 1 {
		c.Unresolved("C06.R5", "GetClusterSnapshot call in simpleHandler.IsAvailable")
	}
	var readers []string
	for _, f := range c.PkgFuncs(pkg) {
		reads := false
		forEachInstr(f, false, func(_ *ssa.Function, in ssa.Instruction) {
			v, ok := in.(ssa.Value)
			if !ok {
				return
			}
			t, fld, _, ok := fieldAddrInfo(v)
			if !ok || fld != "clusterName" || !strings.HasSuffix(t, "weightedClusterEntry") {
				return
			}
			if _, isField := v.(*ssa.Field); isField {
				reads = true
				return
			}
			for _, r := range refs(v) {
				if st, isSt := r.(*ssa.Store); isSt && st.Addr == v {
					continue
				}
				reads = true
			}
		})
		if reads {
			name := f.Name()
			if f.Parent() != nil {
				name = f.Parent().Name() + "$closure"
			}
			readers = append(readers, name)
		}
	}
	sort.Strings(readers)
	c.Check("C06.R5", "pkg/router.weightedClusterEntry.clusterName:picked-only-by-the-draw", fn.Pos(), len(readers) == 1 && readers[0] == "ClusterName", "only ClusterName reads a weighted entry's name", "a member of the weighted-cluster table is picked outside the weighted draw ("+strings.Join(readers, ", ")+"): that choice ignores the configured weights")
}
