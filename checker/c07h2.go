package main

import (
	"fmt"
	"go/token"
	"go/types"
	"sort"
	"strings"

	"golang.org/x/tools/go/ssa"
)

// C07/C08 for MOSN's own HTTP/2 frame reader (MFramer in pkg/module/http2/mhttp2.go).
//
// MFramer.ReadFrame works on an IoBuffer with an explicit offset instead of a blocking reader (the x/net original), and a
// header block may span HEADERS + CONTINUATION frames. Structural clauses, each necessary for "same frames however the
// bytes are cut" (C07) and for "a few peer bytes cannot hang a reader" (C08):
//   H1 bounds: every byte access in readFrameHeader / ReadFrame / ReadPreface is covered by the length guards (same
//      linear bounds engine as the codecs);
//   H2 progress: a loop that re-reads frames at an offset advances that offset (or drains the buffer) in every iteration;
//      an invariant offset re-parses the same CONTINUATION frame forever, growing the fragment list without bound;
//   H3 all-or-nothing: the buffer is drained once, last, only on the success path, by exactly the size reported to the
//      caller; no error return (in particular "need more data") is reachable after the Drain;
//   H4 decode after arrival: the connection-wide HPACK decoder is fed only after every fragment of the block has been
//      collected - no call that may still answer "need more data" is reachable after hpack Write, otherwise a retry
//      decodes the first fragment twice and shifts the dynamic table for the rest of the connection.

const h2pkg = "pkg/module/http2"

func runC07H2(c *Ctx, ruleB1, ruleH string) {
	rf := c.M(h2pkg, "MFramer", "ReadFrame")
	rh := c.M(h2pkg, "MFramer", "readFrameHeader")
	rp := c.M(h2pkg, "MFramer", "ReadPreface")
	rm := c.M(h2pkg, "MFramer", "readMetaFrame")
	if rf == nil || rh == nil || rp == nil || rm == nil {
		c.Unresolved(ruleH, "MFramer.ReadFrame/readFrameHeader/ReadPreface/readMetaFrame")
		return
	}
	// H1
	if ruleB1 != "" {
		scope := map[*ssa.Function]bool{rf: true, rh: true, rp: true}
		for fn := range scope {
			c.FuncsSeen[fn.String()] = true
		}
		br := newBoundsRun(c, scope)
		// offsets are non-negative: by induction over the call sites (0 from outside the package, off or off+size inside)
		offOK, why := h2OffsetsNonNeg(c, []*ssa.Function{rf, rh, rm})
		c.Check(ruleH, "pkg/module/http2.MFramer:offsets-non-negative", rf.Pos(), offOK, "every call passes 0, the caller's own offset, or that offset plus a frame size", "a frame reader is called with an offset that is not known to be non-negative: "+why)
		if offOK {
			for fn := range scope {
				ba := br.ba(fn)
				if prm := offsetParam(fn); prm != nil {
					for a := range ba.lin(prm).T {
						ba.nonneg[a] = true
					}
				}
			}
		}
		br.runB1(ruleB1)
		// the typed frame parsers (forked from x/net): every index / slice on the frame payload within its length
		pscope := map[*ssa.Function]bool{}
		for _, fn := range c.PkgFuncs(h2pkg) {
			if fn.Parent() != nil {
				continue
			}
			n := fn.Name()
			if (strings.HasPrefix(n, "parse") && strings.HasSuffix(n, "Frame")) || n == "readByte" || n == "readUint32" {
				pscope[fn] = true
				c.FuncsSeen[fn.String()] = true
			}
		}
		if len(pscope) < 8 {
			c.Unresolved(ruleH, fmt.Sprintf("typed HTTP/2 frame parsers (found %d)", len(pscope)))
		} else {
			newBoundsRun(c, pscope).runB1(ruleB1)
		}
	}
	// H2 progress
	n := 0
	for _, fn := range []*ssa.Function{rm, rf} {
		loops := naturalLoops(fn)
		for _, cs := range callsIn(fn, false, func(cc *ssa.CallCommon) bool {
			f := cc.StaticCallee()
			return f != nil && (f == rf || f == rh)
		}) {
			var body map[*ssa.BasicBlock]bool
			for _, bd := range loops {
				if bd[cs.Instr.Block()] && (body == nil || len(bd) < len(body)) {
					body = bd
				}
			}
			if body == nil {
				continue
			}
			n++
			key := fmt.Sprintf("%s:reread-advances#%d", funcKey(fn), n)
			args := cs.Instr.Common().Args
			off := args[len(args)-1]
			buf := args[len(args)-2]
			advances := definedIn(off, body)
			drains := false
			for b := range body {
				for _, in := range b.Instrs {
					if ci, ok := in.(ssa.CallInstruction); ok && ci.Common().IsInvoke() && ci.Common().Value == buf {
						switch ci.Common().Method.Name() {
						case "Drain", "Read", "ReadOnce", "Cut", "Reset":
							drains = true
						}
					}
				}
			}
			c.Check(ruleH, key, cs.Instr.Pos(), advances || drains, "the offset changes (or the buffer is consumed) in every iteration", "a loop re-reads a frame at a loop-invariant offset without consuming the buffer: the same CONTINUATION frame is parsed again and again, the reader never returns and its fragment list grows without bound")
		}
	}
	if n < 1 {
		c.Unresolved(ruleH, "frame re-read loop in readMetaFrame")
	}
	// H3 all-or-nothing in ReadFrame
	allDrains := callsIn(rf, false, func(cc *ssa.CallCommon) bool { return cc.IsInvoke() && cc.Method.Name() == "Drain" })
	// round 16: a Drain from which no successful return can be reached consumes a frame that is being refused (the
	// repair C08.B11 asks for). It is not "the" drain; it must not be followed by another Drain, nor by a return that
	// says "need more data" or success.
	var drains []CallSite
	for _, dcs := range allDrains {
		d := dcs.Instr
		succ := existsPath(rf, d, func(in ssa.Instruction) bool {
			ret, ok := in.(*ssa.Return)
			return ok && isReturn(in) && isNilConst(unspill(ret, len(ret.Results)-1))
		}, nil)
		if succ != nil {
			drains = append(drains, dcs)
			continue
		}
		bad := existsPath(rf, d, func(in ssa.Instruction) bool {
			if ci, isC := in.(ssa.CallInstruction); isC && in != ssa.Instruction(d) && ci.Common().IsInvoke() && ci.Common().Method.Name() == "Drain" {
				return true
			}
			ret, ok := in.(*ssa.Return)
			if !ok || !isReturn(in) {
				return false
			}
			if u, isU := unspill(ret, len(ret.Results)-1).(*ssa.UnOp); isU {
				if g, isG := u.X.(*ssa.Global); isG && g.Name() == "ErrAGAIN" {
					return true
				}
			}
			return false
		}, nil)
		c.Check(ruleH, funcKey(rf)+":refusing-drain-ends-the-read", d.Pos(), bad == nil, "a Drain on a refusing path is followed by an error return only", "ReadFrame drains on a path that can still answer need-more-data or drain again: bytes would be consumed although the frame is read again later")
	}
	if len(drains) != 1 {
		c.Fail(ruleH, funcKey(rf)+":single-drain", rf.Pos(), fmt.Sprintf("expected exactly one Drain in ReadFrame, found %d", len(drains)))
	} else {
		d := drains[0].Instr
		bad := existsPath(rf, d, func(in ssa.Instruction) bool {
			ret, ok := in.(*ssa.Return)
			return ok && !isNilConst(unspill(ret, len(ret.Results)-1))
		}, nil)
		c.Check(ruleH, funcKey(rf)+":drain-last", d.Pos(), bad == nil, "nothing can fail after the buffer was drained", "ReadFrame can return an error after it drained the buffer: bytes are consumed although no frame was delivered")
		// amount drained == size reported on the success return
		same := false
		for _, in := range instrsWhere(rf, isReturn) {
			ret := in.(*ssa.Return)
			if isNilConst(unspill(ret, 2)) && existsPath(rf, d, func(x ssa.Instruction) bool { return x == in }, nil) != nil {
				if unspill(ret, 1) == d.Common().Args[0] || sameSum(unspill(ret, 1), d.Common().Args[0]) {
					same = true
				}
			}
		}
		c.Check(ruleH, funcKey(rf)+":drain-equals-reported-size", d.Pos(), same, "Drain(size+msize) and the size returned are the same value", "the amount drained differs from the frame size reported to the caller")
		// every need-more-data return precedes the drain: no Drain dominates an error return (covered by drain-last);
		// and meta-frame assembly happens before the drain
		meta := callsIn(rf, false, func(cc *ssa.CallCommon) bool { return cc.StaticCallee() == rm })
		okMeta := len(meta) == 1 && existsPath(rf, d, func(x ssa.Instruction) bool { return x == meta[0].Instr }, nil) == nil
		c.Check(ruleH, funcKey(rf)+":assemble-before-drain", d.Pos(), okMeta, "CONTINUATION frames are collected before anything is consumed", "the header block is assembled after the buffer was drained: a block that is not complete yet cannot be retried")
	}
	// H4 hpack fed only after the last possible "need more data"
	writes := callsIn(rm, true, func(cc *ssa.CallCommon) bool {
		f := cc.StaticCallee()
		return f != nil && strings.HasSuffix(f.String(), "hpack.Decoder).Write")
	})
	if len(writes) == 0 {
		c.Unresolved(ruleH, "hpack Decoder.Write in readMetaFrame")
	}
	for i, w := range writes {
		if w.Instr.Parent() != rm {
			continue
		}
		bad := existsPath(rm, w.Instr, func(in ssa.Instruction) bool {
			ci, ok := in.(ssa.CallInstruction)
			return ok && (ci.Common().StaticCallee() == rf || ci.Common().StaticCallee() == rh)
		}, nil)
		c.Check(ruleH, fmt.Sprintf("%s:hpack-after-arrival#%d", funcKey(rm), i+1), w.Instr.Pos(), bad == nil, "the HPACK decoder is fed only after all fragments were collected", "the shared HPACK decoder is fed before the whole header block has arrived: when a later CONTINUATION is incomplete ReadFrame answers need-more-data without consuming anything, and the retry feeds the first fragment again - the dynamic table is shifted for the rest of the connection, so what is decoded depends on how the bytes were segmented")
	}
}

// sameSum: two a+b expressions over the same operands (go/ssa does no common-subexpression elimination).
func sameSum(a, b ssa.Value) bool {
	x, ok1 := a.(*ssa.BinOp)
	y, ok2 := b.(*ssa.BinOp)
	if !ok1 || !ok2 || x.Op != y.Op {
		return false
	}
	return (x.X == y.X && x.Y == y.Y) || (x.X == y.Y && x.Y == y.X)
}

// h2OffsetsNonNeg: every call of the offset-taking frame readers passes a non-negative offset, assuming the callee's own
// `off` parameter is (induction). Accepted: constants >= 0, an `off` parameter of one of these functions, sums of
// accepted values, conversions from unsigned integers, and phis of accepted values.
func h2OffsetsNonNeg(c *Ctx, fns []*ssa.Function) (bool, string) {
	isReader := map[*ssa.Function]bool{}
	for _, f := range fns {
		isReader[f] = true
	}
	assumed := map[*ssa.Phi]bool{} // coinduction: a loop-carried offset is non-negative if its entries are and its updates keep it so
	var nonneg func(v ssa.Value, d int) bool
	nonneg = func(v ssa.Value, d int) bool {
		if d > 8 {
			return false
		}
		switch x := v.(type) {
		case *ssa.Const:
			n, ok := constInt(x)
			return ok && n >= 0
		case *ssa.Parameter:
			return isReader[x.Parent()] && offsetParam(x.Parent()) == x
		case *ssa.BinOp:
			if x.Op.String() == "+" {
				return nonneg(x.X, d+1) && nonneg(x.Y, d+1)
			}
		case *ssa.Convert:
			if b, ok := x.X.Type().Underlying().(*types.Basic); ok && b.Info()&types.IsUnsigned != 0 {
				return true
			}
			return nonneg(x.X, d+1)
		case *ssa.Phi:
			if assumed[x] {
				return true
			}
			assumed[x] = true
			defer delete(assumed, x)
			for _, e := range x.Edges {
				if e != ssa.Value(x) && !nonneg(e, d+1) {
					return false
				}
			}
			return true
		case *ssa.Extract:
			// the size result of ReadFrame (index 1) is a sum of non-negative terms
			if call, ok := x.Tuple.(*ssa.Call); ok && isReader[call.Common().StaticCallee()] && x.Index == 1 {
				return true
			}
		}
		return false
	}
	n := 0
	for fn := range c.all {
		if fn.Blocks == nil {
			continue
		}
		var bad string
		forEachInstr(fn, false, func(_ *ssa.Function, in ssa.Instruction) {
			ci, ok := in.(ssa.CallInstruction)
			if !ok || !isReader[ci.Common().StaticCallee()] {
				return
			}
			n++
			args := ci.Common().Args
			if !nonneg(args[len(args)-1], 0) {
				bad = c.pos(in.Pos())
			}
		})
		if bad != "" {
			return false, bad
		}
	}
	if n < 3 {
		return false, fmt.Sprintf("only %d call sites found", n)
	}
	return true, ""
}

// runHpackBounds (C08.B8): MOSN's HPACK decoder stays inside the received bytes and inside its tables.
//
//	(a) the linear bounds engine on the decoder's own functions (readVarInt, readString, parse*, huffman entry points);
//	(b) every conversion of a peer-controlled unsigned 64-bit integer to a signed or narrower type is preceded by a guard
//	    that bounds it by a value of the target type: without it an index of 2^63+k turns negative, slips through signed
//	    comparisons and indexes far outside the table (panic in the connection's reader).
func runHpackBounds(c *Ctx, rule string, withB1 bool) {
	pkg := "pkg/module/http2/hpack"
	fns := c.PkgFuncs(pkg)
	if len(fns) == 0 {
		c.Unresolved(rule, "package "+pkg)
		return
	}
	if withB1 {
		scope := map[*ssa.Function]bool{}
		for _, fn := range fns {
			switch fn.Name() {
			case "readVarInt", "readString", "parseHeaderFieldRepr", "parseFieldIndexed", "parseFieldLiteral", "parseDynamicTableSizeUpdate", "callEmit", "Write":
				scope[fn] = true
				c.FuncsSeen[fn.String()] = true
			}
		}
		br := newBoundsRun(c, scope)
		br.runB1(rule)
	}
	n := 0
	ord := ordCounter{}
	for _, fn := range fns {
		if fn.Signature.Recv() == nil || !strings.HasSuffix(typeName(fn.Signature.Recv().Type()), ".Decoder") {
			continue
		}
		forEachInstr(fn, false, func(f *ssa.Function, in ssa.Instruction) {
			cv, ok := in.(*ssa.Convert)
			if !ok {
				return
			}
			if _, named := cv.Type().(*types.Named); named {
				return // e.g. InvalidIndexError(idx): the value only decorates an error
			}
			src, okS := cv.X.Type().Underlying().(*types.Basic)
			dst, okD := cv.Type().Underlying().(*types.Basic)
			if !okS || !okD || src.Kind() != types.Uint64 || dst.Info()&types.IsInteger == 0 || dst.Kind() == types.Uint64 {
				return
			}
			n++
			key := ord.next(f, "narrowing")
			bounded := false
			for _, g := range guardsAt(in.Block()) {
				bo, ok := g.Cond.(*ssa.BinOp)
				if !ok {
					continue
				}
				// x <= B / x < B on the true edge, x > B / x >= B on the false edge, with x the converted value
				upper := (bo.X == cv.X && ((g.True && (bo.Op == token.LEQ || bo.Op == token.LSS)) || (!g.True && (bo.Op == token.GTR || bo.Op == token.GEQ)))) ||
					(bo.Y == cv.X && ((g.True && (bo.Op == token.GEQ || bo.Op == token.GTR)) || (!g.True && (bo.Op == token.LSS || bo.Op == token.LEQ))))
				if !upper {
					continue
				}
				other := bo.Y
				if bo.Y == cv.X {
					other = bo.X
				}
				// the bound itself must fit the target type: a constant, or a conversion from a narrower/signed value
				if _, isC := other.(*ssa.Const); isC {
					bounded = true
				}
				if oc, isCv := other.(*ssa.Convert); isCv {
					if ob, ok := oc.X.Type().Underlying().(*types.Basic); ok && ob.Kind() != types.Uint64 {
						bounded = true
					}
				}
			}
			c.Check(rule, key, cv.Pos(), bounded, "the peer-controlled value is bounded by a value of the target type before it is converted", "a peer-controlled uint64 (HPACK integer) is converted to "+dst.Name()+" without an upper bound: values above the target range wrap (2^63+k becomes negative), pass signed comparisons and index outside the table - the decoder panics in the connection's reader")
		})
	}
	if n < 2 {
		c.Unresolved(rule, fmt.Sprintf("uint64 narrowing conversions in the HPACK decoder (found %d)", n))
	}
}

// offsetParam: the read offset of a frame-reader function: its last parameter when that is an int.
func offsetParam(fn *ssa.Function) *ssa.Parameter {
	if len(fn.Params) == 0 {
		return nil
	}
	p := fn.Params[len(fn.Params)-1]
	if b, ok := p.Type().Underlying().(*types.Basic); ok && b.Kind() == types.Int {
		return p
	}
	return nil
}

// runHpackAllocs (C08.B4h): the HPACK decoder allocates for what has arrived, not for what was announced.
// A string literal is preceded by its length; the bytes may follow in later CONTINUATION frames. Memory reserved by the
// announced length lets a peer make the decoder allocate up to the string limit (1 MiB in MOSN's framers) with a header
// block of a few bytes. Clause: in the decoder every explicit reservation - make with a non-constant size, append of a
// made slice, (*bytes.Buffer).Grow - is sized by an expression over len()/cap() of received data and constants only; an
// integer parameter or a decoded integer in the size is reported. (Write/append of received bytes grow by len(p) and are
// not reservations.)
func runHpackAllocs(c *Ctx, rule string) {
	pkg := "pkg/module/http2/hpack"
	n := 0
	ord := ordCounter{}
	var sizeOK func(v ssa.Value, d int) (bool, string)
	sizeOK = func(v ssa.Value, d int) (bool, string) {
		if d > 8 {
			return false, "an expression too deep to follow"
		}
		switch x := v.(type) {
		case *ssa.Const:
			return true, ""
		case *ssa.Convert:
			return sizeOK(x.X, d+1)
		case *ssa.ChangeType:
			return sizeOK(x.X, d+1)
		case *ssa.BinOp:
			if ok, why := sizeOK(x.X, d+1); !ok {
				return false, why
			}
			return sizeOK(x.Y, d+1)
		case *ssa.Call:
			if b, isB := x.Common().Value.(*ssa.Builtin); isB && (b.Name() == "len" || b.Name() == "cap") {
				return true, ""
			}
			if m := methodName(x.Common()); m == "Len" || m == "Cap" {
				return true, ""
			}
			return false, "the result of " + shortCallee(x.Common()) + "()"
		case *ssa.Phi:
			for _, e := range x.Edges {
				if ok, why := sizeOK(e, d+1); !ok {
					return false, why
				}
			}
			return true, ""
		case *ssa.Parameter:
			return false, "the integer parameter " + x.Name() + " (an announced length)"
		case *ssa.Extract:
			return false, "a decoded integer"
		}
		return false, "a value the checker cannot trace to the received bytes"
	}
	for _, fn := range c.PkgFuncs(pkg) {
		if fn.Signature.Recv() == nil || !strings.HasSuffix(typeName(fn.Signature.Recv().Type()), "hpack.Decoder") {
			continue
		}
		forEachInstr(fn, false, func(f *ssa.Function, in ssa.Instruction) {
			var size ssa.Value
			what := ""
			switch x := in.(type) {
			case *ssa.MakeSlice:
				if _, isK := x.Len.(*ssa.Const); !isK {
					size, what = x.Len, "make"
				} else if _, isK := x.Cap.(*ssa.Const); !isK {
					size, what = x.Cap, "make"
				}
			case ssa.CallInstruction:
				if strings.HasSuffix(calleeName(x.Common()), "bytes.Buffer).Grow") {
					size, what = x.Common().Args[len(x.Common().Args)-1], "Buffer.Grow"
				}
			}
			if size == nil {
				return
			}
			n++
			ok, why := sizeOK(size, 0)
			c.Check(rule, ord.next(f, "reservation-by-received-bytes"), in.Pos(), ok, what+" sized by received data", "the HPACK decoder reserves memory ("+what+" in "+f.Name()+") sized by "+why+": a header block of a few bytes that announces a long string makes the decoder allocate up to the string limit before a single byte of it has arrived")
		})
	}
	c.Pass(rule, pkg+":decoder-reservations", 0, fmt.Sprintf("%d explicit reservations in Decoder methods, each sized by received data", n))
}

// c07H2Dispatch (B2d, HTTP/2): the frames extracted from a read do not depend on what an earlier frame meant.
// serverStreamConnection.Dispatch and clientStreamConnection.Dispatch decode frame after frame out of the read buffer.
// What one read delivers is arbitrary, so the loop may stop only for a reason that is about the *bytes*: the decoder
// needs more of them (ErrAGAIN) or could not parse them (a decode error). Clause: every edge that leaves the decode
// loop is taken on a condition over the error result of this iteration's Decode call. A loop that also stops on the
// outcome of handling a frame (a stream-level error such as a valid RST_STREAM) leaves the complete frames that follow
// it in the same read undecoded until more bytes arrive - the same byte stream cut differently is then extracted
// differently.
func c07H2Dispatch(c *Ctx, rule string) {
	pkg := "pkg/stream/http2"
	n := 0
	for _, typ := range []string{"serverStreamConnection", "clientStreamConnection"} {
		fn := c.M(pkg, typ, "Dispatch")
		if fn == nil {
			c.Unresolved(rule, typ+".Dispatch")
			continue
		}
		fk := funcKey(fn)
		dec := callsIn(fn, false, func(cc *ssa.CallCommon) bool { return cc.IsInvoke() && cc.Method.Name() == "Decode" })
		if len(dec) != 1 {
			c.Unresolved(rule, fmt.Sprintf("the single Decode call of %s.Dispatch (found %d)", typ, len(dec)))
			continue
		}
		d := dec[0].Instr
		var body map[*ssa.BasicBlock]bool
		for _, b := range naturalLoops(fn) {
			if b[d.Block()] && (body == nil || len(b) < len(body)) {
				body = b
			}
		}
		c.Check(rule, fk+":decode-in-loop", d.Pos(), body != nil, "Decode is called in a loop (several frames per read)", "Decode is not in a loop: frames after the first in one read would be left undecoded")
		if body == nil {
			continue
		}
		isDecodeErr := func(v ssa.Value) bool {
			ex, ok := v.(*ssa.Extract)
			return ok && ex.Tuple == d.(ssa.Value) && ex.Index == 1
		}
		// a guard "about the bytes": err == <sentinel> taken, or err != nil taken, err being Decode's own result
		byteGuard := func(g Guard) bool {
			bo, ok := g.Cond.(*ssa.BinOp)
			if !ok {
				return false
			}
			var other ssa.Value
			switch {
			case isDecodeErr(bo.X):
				other = bo.Y
			case isDecodeErr(bo.Y):
				other = bo.X
			default:
				return false
			}
			if isNilConst(other) {
				return (bo.Op == token.NEQ && g.True) || (bo.Op == token.EQL && !g.True)
			}
			return bo.Op == token.EQL && g.True
		}
		ord := 0
		var blocks []*ssa.BasicBlock
		for b := range body {
			blocks = append(blocks, b)
		}
		sort.Slice(blocks, func(i, j int) bool { return blocks[i].Index < blocks[j].Index })
		for _, b := range blocks {
			for si, s := range b.Succs {
				if body[s] {
					continue
				}
				ord++
				n++
				ok := false
				if ifi, isIf := b.Instrs[len(b.Instrs)-1].(*ssa.If); isIf {
					for _, g := range normGuard(Guard{Cond: ifi.Cond, True: si == 0, If: ifi}) {
						ok = ok || byteGuard(g)
					}
				}
				for _, g := range guardsAt(b) {
					if body[g.If.Block()] {
						ok = ok || byteGuard(g)
					}
				}
				c.Check(rule, fmt.Sprintf("%s:loop-exit-about-the-bytes#%d", fk, ord), nearestPos(b.Instrs[len(b.Instrs)-1]), ok, "the loop is left on a condition over Decode's own error result", "the decode loop can stop for a reason other than the decoder's verdict on the bytes (need more data / cannot parse): complete frames that follow in the same read stay in the buffer until more bytes arrive, so what is extracted depends on how the byte stream was cut into reads")
			}
		}
		// one stream-level context per frame (the xprotocol clause, C07-8): Get() between two Decode calls, and Decode gets it
		get := callsIn(fn, false, func(cc *ssa.CallCommon) bool {
			return methodName(cc) == "Get" && len(cc.Args) > 0 && strings.HasSuffix(typeName(cc.Args[0].Type()), "ContextManager")
		})
		isGet := func(in ssa.Instruction) bool {
			for _, gc := range get {
				if gc.Instr == in {
					return true
				}
			}
			return false
		}
		freshCtx := len(get) > 0 && existsPath(fn, d, func(in ssa.Instruction) bool { return in == d }, isGet) == nil
		if dargs := argsOf(d.(ssa.CallInstruction).Common()); len(dargs) == 0 || !isGet(instrOf(dargs[0])) {
			freshCtx = false
		}
		n++
		c.Check(rule, fk+":fresh-context-per-frame", d.Pos(), freshCtx, "cm.Get() is executed for every frame and its result is what Decode receives", "a frame can be decoded with the stream context of the previous frame: per-context buffers and stream objects of the previous frame are overwritten")
		// a return from inside the loop is an exit as well
		for _, in := range instrsWhere(fn, isReturn) {
			if !body[in.Block()] {
				continue
			}
			ord++
			n++
			ok := false
			for _, g := range guardsAt(in.Block()) {
				if body[g.If.Block()] {
					ok = ok || byteGuard(g)
				}
			}
			c.Check(rule, fmt.Sprintf("%s:loop-exit-about-the-bytes#%d", fk, ord), nearestPos(in), ok, "the loop is left on a condition over Decode's own error result", "the decode loop returns for a reason other than the decoder's verdict on the bytes: complete frames that follow in the same read stay undecoded")
		}
	}
	if n < 4 {
		c.Unresolved(rule, fmt.Sprintf("exits of the HTTP/2 Dispatch loops (found %d)", n))
	}
}

// c07H2PrefaceRetried (B2h): the HTTP/2 client preface is an incomplete unit like any other.
// serverCodec.Decode consumes the 24 byte client preface before it reads frames. The first read of a connection may bring
// fewer than 24 bytes (ReadPreface then answers ErrAGAIN and consumes nothing). Clause: the flag that makes Decode skip
// ReadPreface is raised only on the success edge of ReadPreface (err == nil) - so a preface that arrived in pieces is
// asked for again on the next Decode. A flag raised before the call (or on its failure) makes the second Decode parse
// `PRI * HTTP/2.0...` as a frame header: the same bytes cut differently close the connection.
func c07H2PrefaceRetried(c *Ctx, rule string) {
	fn := c.M("pkg/protocol/http2", "serverCodec", "Decode")
	if fn == nil {
		c.Unresolved(rule, "http2 serverCodec.Decode")
		return
	}
	rp := callsIn(fn, false, func(cc *ssa.CallCommon) bool { return methodName(cc) == "ReadPreface" })
	if len(rp) != 1 {
		c.Unresolved(rule, fmt.Sprintf("the ReadPreface call of serverCodec.Decode (found %d)", len(rp)))
		return
	}
	call := rp[0].Instr.(*ssa.Call)
	// the flag(s) whose false value leads to the call
	var flags []string
	for _, g := range guardsAt(call.Block()) {
		if _, f, _, ok := loadedField(g.Cond); ok && !g.True {
			flags = append(flags, f)
		}
	}
	if len(flags) == 0 {
		// ReadPreface on every Decode: nothing to skip (ReadPreface itself must then be idempotent; not this code base)
		c.Unresolved(rule, "the flag that guards ReadPreface in serverCodec.Decode")
		return
	}
	ok := true
	why := ""
	for _, fl := range flags {
		for _, st := range storesToField(fn, "serverCodec", fl, false) {
			if b, isB := constBool(st.Val); !isB || !b {
				continue
			}
			onSuccess := false
			if instrDominates(call, st) {
				for _, g := range guardsAt(st.Block()) {
					bo, isBO := g.Cond.(*ssa.BinOp)
					if !isBO || bo.X != ssa.Value(call) || !isNilConst(bo.Y) {
						continue
					}
					if (bo.Op == token.EQL && g.True) || (bo.Op == token.NEQ && !g.True) {
						onSuccess = true
					}
				}
			}
			if !onSuccess {
				ok = false
				why = "serverCodec." + fl + " is raised at " + shortPos(c, st.Pos()) + " without ReadPreface having succeeded"
			}
		}
	}
	c.Check(rule, funcKey(fn)+":preface-asked-for-until-read", call.Pos(), ok, "the skip flag is raised only on ReadPreface's success edge", "the flag that makes Decode skip the client preface is raised although the preface has not been read ("+why+"): when the first read of a connection brings fewer than 24 bytes, the next Decode parses the preface as a frame header and the connection is closed - the same bytes in one read work")
}
