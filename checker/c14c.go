package main

import (
	"fmt"
	"go/token"

	"golang.org/x/tools/go/ssa"
)

// c14ResumeAtAskingFilter (R5, shape-independent part): a pass that a filter suspends (ReMatchRoute / ReChooseHost) is
// resumed at that filter - the filters before it are not run again.
// The receive chain keeps one cursor (receiverFiltersIndex) across the suspended pass. Clause: on every path from the
// invocation of a filter to a return of RunReceiverFilter that is feasible under status == ReMatchRoute or
// status == ReChooseHost (comparisons of the status with constants are decided), the value the cursor holds at the return
// equals the *absolute* position of that filter in d.receiverFilters:
//
//	the filter is receiverFilters[I]            -> position I
//	the filter is (receiverFilters[L:])[I]      -> position L + I          (a re-sliced view)
//
// and the cursor at the return is the last value stored into the field on the path, or - when nothing is stored and I is
// itself a load of the field - I. Equality is decided on linear forms (bounds engine). A cursor stored as the index inside
// a re-sliced view makes the resumed pass start in front of the asking filter: earlier filters run twice.
func c14ResumeAtAskingFilter(c *Ctx) {
	fn := c.M("pkg/streamfilter", "DefaultStreamFilterChainImpl", "RunReceiverFilter")
	if fn == nil {
		c.Unresolved("C14.R5", "DefaultStreamFilterChainImpl.RunReceiverFilter")
		return
	}
	fk := funcKey(fn)
	inv := callsIn(fn, false, func(cc *ssa.CallCommon) bool { return cc.IsInvoke() && cc.Method.Name() == "OnReceive" })
	if len(inv) != 1 {
		c.Unresolved("C14.R5", fmt.Sprintf("the filter invocation of RunReceiverFilter (found %d)", len(inv)))
		return
	}
	call := inv[0].Instr.(*ssa.Call)
	ba := newBA(c, fn)
	// absolute position of the invoked filter
	var abs Lin
	var idx ssa.Value
	okAbs := false
	if ld, ok := stripIface(call.Common().Value).(*ssa.UnOp); ok {
		if ia, ok := ld.X.(*ssa.IndexAddr); ok {
			idx = ia.Index
			switch s := ia.X.(type) {
			case *ssa.Slice:
				if _, f, _, okf := loadedField(s.X); okf && f == "receiverFilters" {
					abs, okAbs = ba.lin(ia.Index), true
					if s.Low != nil {
						abs = abs.add(ba.lin(s.Low), 1)
					}
				}
			default:
				if _, f, _, okf := loadedField(ia.X); okf && f == "receiverFilters" {
					abs, okAbs = ba.lin(ia.Index), true
				}
			}
		}
	}
	if !okAbs {
		c.Unresolved("C14.R5", "the position of the invoked filter in d.receiverFilters (an element of the chain or of a re-sliced view of it)")
		return
	}
	isCursorStore := func(in ssa.Instruction) (*ssa.Store, bool) {
		st, ok := in.(*ssa.Store)
		if !ok {
			return nil, false
		}
		_, f, _, okf := fieldAddrInfo(st.Addr)
		return st, okf && f == "receiverFiltersIndex"
	}
	idxIsCursorLoad := false
	if _, f, _, okf := loadedField(idx); okf && f == "receiverFiltersIndex" {
		idxIsCursorLoad = true
	}
	n := 0
	var bad []string
	for _, status := range []string{"Retry Match Route", "Retry Choose Host"} {
		// enumerate paths from the invocation under this status
		type st struct {
			b    *ssa.BasicBlock
			i    int
			last *ssa.Store
		}
		seen := map[string]bool{}
		work := []st{{call.Block(), instrIndex(call) + 1, nil}}
		for len(work) > 0 {
			cur := work[len(work)-1]
			work = work[:len(work)-1]
			key := fmt.Sprintf("%d|%d|%p", cur.b.Index, cur.i, cur.last)
			if seen[key] {
				continue
			}
			seen[key] = true
			last := cur.last
			ended := false
			for i := cur.i; i < len(cur.b.Instrs); i++ {
				in := cur.b.Instrs[i]
				if s, ok := isCursorStore(in); ok {
					last = s
				}
				if in == ssa.Instruction(call) {
					// went round the loop: the pass was not suspended on this path
					ended = true
					break
				}
				if ret, ok := in.(*ssa.Return); ok && isReturn(in) {
					n++
					switch {
					case last != nil:
						if !ba.lin(last.Val).equal(abs) {
							bad = append(bad, fmt.Sprintf("status %q, return at %s: the cursor holds %s, the asking filter is at %s", status, shortPos(c, nearestPos(ret)), ba.lin(last.Val), abs))
						}
					case !idxIsCursorLoad:
						bad = append(bad, fmt.Sprintf("status %q, return at %s: nothing records the position of the asking filter", status, shortPos(c, nearestPos(ret))))
					}
					ended = true
					break
				}
			}
			if ended {
				continue
			}
			succs := cur.b.Succs
			if ifi, ok := cur.b.Instrs[len(cur.b.Instrs)-1].(*ssa.If); ok {
				if bo, ok := ifi.Cond.(*ssa.BinOp); ok && (bo.Op == token.EQL || bo.Op == token.NEQ) {
					var k string
					var isK bool
					if bo.X == ssa.Value(call) {
						k, isK = constStringVal(bo.Y)
					} else if bo.Y == ssa.Value(call) {
						k, isK = constStringVal(bo.X)
					}
					if isK {
						taken := (k == status) == (bo.Op == token.EQL)
						if taken {
							succs = succs[:1]
						} else {
							succs = succs[1:]
						}
					}
				}
			}
			for _, s := range succs {
				work = append(work, st{s, 0, last})
			}
		}
	}
	if n < 2 {
		c.Unresolved("C14.R5", fmt.Sprintf("returns of RunReceiverFilter reachable after a filter asked for re-match / re-choose (found %d)", n))
		return
	}
	msg := ""
	if len(bad) > 0 {
		msg = bad[0]
	}
	c.Check("C14.R5", fk+":resume-at-the-asking-filter", call.Pos(), len(bad) == 0, "on every suspended path the cursor equals the absolute position of the asking filter", "a suspended pass is not resumed at the asking filter ("+msg+"): the resumed pass starts in front of it and filters that already ran on this request run again")
}
