package main

import (
	"fmt"
	"go/token"
	"go/types"
	"strings"

	"golang.org/x/tools/go/ssa"
)

// Clauses added in seeding round 13 (Cxx-11).

func runRound15(c *Ctx, spec *PropSpec) {
	switch spec.ID {
	case "C03":
		c03EndOfMessageSentByPresence(c)
		receiveEndsOnlyWhereCleaned(c, "C03.R20")
	case "C07":
		retainedBufferIsTheFrame(c, "C07.B2k")
	case "C01":
		retainedBufferIsTheFrame(c, "C01.R22")
		// seed C01-11: C02.R17 / C07.B2h / C18.W6 registered under this property
		c.Rule("C01.R23", "HTTP/2 frame reader: a header block is fed to the connection HPACK decoder once, after all of it arrived", 5)
		runC07H2(c, "", "C01.R23")
	case "C12":
		dumpMarkTakenBeforeSnapshot(c, "C12.R18")
	case "C19":
		dumpMarkTakenBeforeSnapshot(c, "C19.R16")
	case "C18":
		c18EndStreamDecidedAfterTheGrant(c)
	case "C06":
		c06SchedulerBuiltBeforePublication(c)
	case "C13":
		c13PoolReportsTheHashItWasCreatedUnder(c)
	case "C08":
		c08OpenHeaderBlockAdmitsOnlyContinuation(c)
	case "C09":
		http1SurplusDecidedOnCounts(c, "C09.R12", "kept-only-when-nothing-is-left")
		destroyBeforeHandOver(c, "C09.R13")
	case "C02":
		destroyBeforeHandOver(c, "C02.R22")
	case "C10":
		receiveEndsOnlyWhereCleaned(c, "C10.END")
	case "C11":
		c11TakenSocketsMarkedInPlace(c)
	case "C17":
		// seed C17-11: a global timeout that fires while a retry is on its way must still end the request (no retry beyond the
		// configured conditions): C03.R8 registered under this property
		c.Rule("C17.R20", "the retry-in-preparation flag is consumed where the retry decision is taken: a timeout in the retry window is not swallowed", 2)
		c03RetryFlagRule(c, "pkg/proxy", "C17.R20")
	case "C15":
		// seed C15-11: a host published again with new labels through the append path supersedes the old object, otherwise the
		// subsets are built from labels the host no longer has (C12.R10 registered under this property)
		c.Rule("C15.R18", "a host appended again with new metadata supersedes the known one: subset membership follows the labels published last", 2)
		c12AppendLastWinsRule(c, "C15.R18")
	}
}

// C03.R19 (seed C03-11): the end of a message is carried by exactly one of its parts, and which one is decided by presence
// alone. The header part ends the message when neither body nor trailers are present (nil); so the body part must run
// whenever the body is present, and the trailer part whenever the trailers are. In downStream.receive the calls that send
// the body and the trailers of the request and of the response are guarded, as far as the message is concerned, only by a
// nil test of the buffer: a test of its content (Len() > 0) skips the part that had to carry the end of the message for a
// present but empty body, and then nothing ends the upstream request (no timer is armed) or the downstream response.
func c03EndOfMessageSentByPresence(c *Ctx) {
	const rule = "C03.R19"
	c.Rule(rule, "the body and trailer parts of a message are sent whenever they are present (nil test only): the end of the message is never skipped", 4)
	fn := c.M("pkg/proxy", "downStream", "receive")
	if fn == nil {
		c.Unresolved(rule, "downStream.receive")
		return
	}
	isPart := func(v ssa.Value) bool {
		_, f, _, ok := loadedField(v)
		return ok && (strings.HasSuffix(f, "DataBuf") || strings.HasSuffix(f, "Trailers"))
	}
	ord := ordCounter{}
	n := 0
	for _, cs := range callsIn(fn, false, func(cc *ssa.CallCommon) bool {
		m := methodName(cc)
		return m == "receiveData" || m == "receiveTrailers"
	}) {
		n++
		bad := ""
		present := false
		for _, g := range guardsAt(cs.Instr.Block()) {
			if b, ok := g.Cond.(*ssa.BinOp); ok && (b.Op == token.NEQ || b.Op == token.EQL) {
				if (isPart(b.X) && isNilConst(b.Y)) || (isPart(b.Y) && isNilConst(b.X)) {
					if (b.Op == token.NEQ) == g.True {
						present = true
					}
					continue
				}
			}
			if derivesFrom(g.Cond, isPart) {
				bad = "a condition on the content of the part (" + shortPos(c, nearestPos(g.If)) + ")"
			}
		}
		if !present && bad == "" {
			bad = "no nil test of the part"
		}
		c.Check(rule, ord.next(fn, "sent-when-present:"+methodName(cs.Instr.Common())), cs.Instr.Pos(), bad == "", "the part is sent under the nil test of its buffer only",
			"the part is sent under "+bad+": the header part announces more to come whenever the buffer is present, so for a present but empty body this part - the one that had to carry the end of the message - is skipped; the upstream request is never finished (no timer armed, the request waits for ever) or the downstream response is never ended")
	}
	if n < 4 {
		c.Fail(rule, funcKey(fn)+":sent-when-present", fn.Pos(), "fewer than four body/trailer sends found in downStream.receive")
	}
}

// C07.B2k / C01.R22 (seed C07-11): what a decoded frame retains for forwarding is the frame. The decoders get the
// connection's read buffer, which can hold the following frames too; a buffer stored into the frame (the one the encoder's
// unmodified-frame path hands out again) must be built from bytes cut to the frame length, never a Clone() of the whole
// read buffer - that forwards the first frame with its successors appended, and the successors again on their own.
func retainedBufferIsTheFrame(c *Ctx, rule string) {
	c.Rule(rule, "the buffer a decoded frame retains is built from the frame's bytes, never a copy of the whole read buffer", 6)
	n := 0
	ord := ordCounter{}
	for _, pkg := range codecPkgs {
		if c.TypesPkg(pkg) == nil {
			continue
		}
		for _, fn := range c.PkgFuncs(pkg) {
			var bufParams []ssa.Value
			for _, p := range fn.Params {
				if strings.HasSuffix(p.Type().String(), "IoBuffer") {
					bufParams = append(bufParams, p)
				}
			}
			if len(bufParams) == 0 {
				continue
			}
			isWholeCopy := func(v ssa.Value) bool {
				call, ok := v.(*ssa.Call)
				if !ok || !call.Common().IsInvoke() || call.Common().Method.Name() != "Clone" {
					return false
				}
				for _, p := range bufParams {
					if call.Common().Value == p {
						return true
					}
				}
				return false
			}
			forEachInstr(fn, false, func(_ *ssa.Function, in ssa.Instruction) {
				st, ok := in.(*ssa.Store)
				if !ok {
					return
				}
				_, f, _, okF := fieldAddrInfo(st.Addr)
				if !okF || !strings.HasSuffix(st.Val.Type().String(), "IoBuffer") {
					return
				}
				n++
				c.Check(rule, ord.next(fn, "retained-buffer:"+f), st.Pos(), !derivesFrom(st.Val, isWholeCopy), "the retained buffer is not a Clone() of the read buffer",
					"the frame keeps a Clone() of the whole read buffer in "+f+": the read buffer can hold the following frames too, so the buffer the encoder hands out again for an unmodified frame carries their bytes - the frame is forwarded with its successors appended and they are forwarded again on their own")
			})
		}
	}
	if n == 0 {
		c.Fail(rule, "codec:retained-buffer", token.NoPos, "no buffer retained by a decoder found")
	}
}

// C12.R18 / C19.R16 (seeds C12-11, C19-11): an update is persisted by the dump that follows it. Every update raises the
// dump mark; DumpConfig must take the mark (atomically set it back to 0) BEFORE it snapshots the configuration, and nothing
// may lower the mark after the snapshot: an update that arrives while the snapshot is being written finds the mark still
// raised (its own raise is a no-op) and a later lowering wipes it - the file stays at the older state and no further dump
// is scheduled.
func dumpMarkTakenBeforeSnapshot(c *Ctx, rule string) {
	c.Rule(rule, "the dump mark is taken before the configuration is snapshotted and never lowered afterwards: an update during a dump is written by the next one", 2)
	pkg := "pkg/configmanager"
	fn := c.F(pkg, "DumpConfig")
	if fn == nil {
		c.Unresolved(rule, "configmanager.DumpConfig")
		return
	}
	// the mark: the package variable setDump raises
	set := c.F(pkg, "setDump")
	var mark *ssa.Global
	if set != nil {
		for _, cs := range callsIn(set, false, func(cc *ssa.CallCommon) bool { return isAtomicCall(cc, "CompareAndSwap") || isAtomicCall(cc, "Store") }) {
			if g, ok := cs.Instr.Common().Args[0].(*ssa.Global); ok {
				mark = g
			}
		}
	}
	if mark == nil {
		c.Unresolved(rule, "the dump mark raised by configmanager.setDump")
		return
	}
	// lowers(f): f sets the mark to 0 (store, swap or compare-and-swap with new value 0), directly or through a package function
	var lowers func(f *ssa.Function, d int) bool
	lowers = func(f *ssa.Function, d int) bool {
		if f == nil || d > 2 || len(f.Blocks) == 0 {
			return false
		}
		hit := false
		forEachInstr(f, false, func(_ *ssa.Function, in ssa.Instruction) {
			ci, ok := in.(ssa.CallInstruction)
			if !ok {
				return
			}
			cc := ci.Common()
			if (isAtomicCall(cc, "Store") || isAtomicCall(cc, "Swap") || isAtomicCall(cc, "CompareAndSwap")) && len(cc.Args) >= 2 && cc.Args[0] == ssa.Value(mark) {
				if k, isK := constInt(cc.Args[len(cc.Args)-1]); isK && k == 0 {
					hit = true
				}
			}
			if cal := cc.StaticCallee(); cal != nil && cal.Pkg == f.Pkg && cal != f && lowers(cal, d+1) {
				hit = true
			}
		})
		return hit
	}
	snaps := callsIn(fn, false, calledAs("transferConfig"))
	if len(snaps) != 1 {
		c.Fail(rule, funcKey(fn)+":mark-taken-before-snapshot", fn.Pos(), "expected one transferConfig call in DumpConfig")
		return
	}
	snap := snaps[0].Instr
	isLower := func(in ssa.Instruction) bool {
		ci, ok := in.(ssa.CallInstruction)
		if !ok {
			return false
		}
		cc := ci.Common()
		if (isAtomicCall(cc, "Store") || isAtomicCall(cc, "Swap") || isAtomicCall(cc, "CompareAndSwap")) && len(cc.Args) >= 2 && cc.Args[0] == ssa.Value(mark) {
			k, isK := constInt(cc.Args[len(cc.Args)-1])
			return isK && k == 0
		}
		cal := cc.StaticCallee()
		return cal != nil && cal.Pkg == fn.Pkg && lowers(cal, 1)
	}
	before := false
	for _, in := range instrsWhere(fn, isLower) {
		if instrDominates(in, snap) {
			before = true
		}
	}
	c.Check(rule, funcKey(fn)+":mark-taken-before-snapshot", snap.Pos(), before, "the mark is set back to 0 before transferConfig snapshots the configuration",
		"DumpConfig snapshots the configuration while the dump mark is still raised: an update that arrives during the dump raises nothing (the mark is already 1), so whether it is written depends on what happens to the mark afterwards")
	after := existsPath(fn, snap, isLower, nil)
	pos := snap.Pos()
	if after != nil {
		pos = after.Pos()
	}
	c.Check(rule, funcKey(fn)+":mark-not-lowered-after-snapshot", pos, after == nil, "nothing lowers the mark after the snapshot",
		"DumpConfig lowers the dump mark after the configuration was snapshotted: an update made while the snapshot is being written has its mark wiped, the file stays at the state before that update and no further dump is scheduled - a restart or hot upgrade from the file does not reproduce the running proxy")
}

// C18.W19 (seed C18-11): END_STREAM goes out with the last byte of the body, not before. Inside a flow-control loop the
// size of a DATA frame is what awaitFlowControl granted, which can be less than what was asked; so an endStream flag given
// to writeData in such a loop is either the constant false or is computed from the grant (it derives from the value
// awaitFlowControl returned). A flag decided from the intended frame size closes the stream on a partial grant and the
// rest of the body goes out on a half-closed stream.
func c18EndStreamDecidedAfterTheGrant(c *Ctx) {
	const rule = "C18.W19"
	c.Rule(rule, "in a flow-control loop the END_STREAM flag of a DATA frame is false or computed from the grant", 2)
	pkg := "pkg/module/http2"
	n := 0
	ord := ordCounter{}
	for _, fn := range c.PkgFuncs(pkg) {
		grants := callsIn(fn, false, calledAs("awaitFlowControl"))
		if len(grants) == 0 {
			continue
		}
		isGrant := func(v ssa.Value) bool {
			for _, g := range grants {
				if call, ok := g.Instr.(*ssa.Call); ok && v == ssa.Value(call) {
					return true
				}
			}
			return false
		}
		loops := naturalLoops(fn)
		for _, cs := range callsIn(fn, false, calledAs("writeData")) {
			inLoop := false
			for _, body := range loops {
				if !body[cs.Instr.Block()] {
					continue
				}
				for _, g := range grants {
					if body[g.Instr.Block()] {
						inLoop = true
					}
				}
			}
			if !inLoop {
				continue
			}
			n++
			args := argsOf(cs.Instr.Common())
			if len(args) < 3 {
				continue
			}
			flag := args[1]
			ok := false
			if b, isB := constBool(flag); isB && !b {
				ok = true
			} else if derivesFrom(flag, isGrant) {
				ok = true
			}
			c.Check(rule, ord.next(fn, "end-stream-after-grant"), cs.Instr.Pos(), ok, "the END_STREAM flag is false or derives from the grant",
				"the END_STREAM flag of a DATA frame written in a flow-control loop does not depend on what awaitFlowControl granted: when the window allows less than was asked the shortened frame still carries END_STREAM, the stream is half-closed with body bytes left and the peer gets a truncated body")
		}
	}
	if n < 2 {
		c.Fail(rule, pkg+":end-stream-after-grant", token.NoPos, "fewer than two DATA writes in flow-control loops found")
	}
}

// C06.R10 (seed C06-11): a weighted balancer is complete when it is handed out. The EDF scheduler of an EdfLoadBalancer is
// written only on behalf of its constructor: every function that stores the scheduler field is called (statically) by
// newEdfLoadBalancer only, and there the call precedes the return. A scheduler filled in later, by the first pick, leaves
// a window in which concurrent picks find no scheduler and take the unweighted fallback - hosts are served 1:1 whatever
// their weights, after every host update.
func c06SchedulerBuiltBeforePublication(c *Ctx) {
	const rule = "C06.R10"
	c.Rule(rule, "the EDF scheduler is built by the constructor, before the balancer is handed out, and by nobody else", 2)
	pkg := "pkg/upstream/cluster"
	ctor := c.F(pkg, "newEdfLoadBalancer")
	if ctor == nil {
		c.Unresolved(rule, "cluster.newEdfLoadBalancer")
		return
	}
	writers := map[*ssa.Function]bool{}
	for _, fn := range c.PkgFuncs(pkg) {
		if len(storesToField(fn, "EdfLoadBalancer", "scheduler", true)) > 0 {
			writers[fn] = true
		}
	}
	if len(writers) == 0 {
		c.Fail(rule, funcKey(ctor)+":scheduler-built-in-constructor", ctor.Pos(), "no function stores EdfLoadBalancer.scheduler")
		return
	}
	for w := range writers {
		if w == ctor {
			continue
		}
		var others []string
		inCtor := false
		for _, fn := range c.PkgFuncs(pkg) {
			for _, cs := range callsIn(fn, true, func(cc *ssa.CallCommon) bool { return cc.StaticCallee() == w }) {
				if cs.Fn == ctor || fn == ctor {
					// precedes every return of the constructor
					all := true
					for _, r := range instrsWhere(ctor, isReturn) {
						if !instrDominates(cs.Instr, r) {
							all = false
						}
					}
					inCtor = inCtor || all
				} else if fn != w {
					others = append(others, fn.Name())
				}
			}
		}
		c.Check(rule, funcKey(w)+":only-the-constructor-builds", w.Pos(), len(others) == 0, w.Name()+" (which stores the scheduler) is called by the constructor only",
			w.Name()+" stores the EDF scheduler and is called from "+strings.Join(others, ", ")+": the scheduler of a balancer that is already handed out is filled in (or replaced) while other goroutines pick from it - a pick that finds it missing takes the unweighted fallback, so hosts are served 1:1 whatever their weights until the build is finished, after every host update")
		c.Check(rule, funcKey(ctor)+":scheduler-built-in-constructor", ctor.Pos(), inCtor, "the constructor calls "+w.Name()+" before it returns the balancer",
			"newEdfLoadBalancer returns a balancer whose scheduler is not built yet: the first picks (all concurrent ones until the build is done) are unweighted")
	}
}

// C13.R25 (seed C13-11): a connection made under one tls policy is not used under another. The cluster manager replaces a
// pool when the hash the pool reports differs from the hash of the host chosen now; that only works if the pool reports
// the hash it was CREATED under. In every connection pool TLSHashValue returns a field of the pool that only the
// constructor stores - not something looked up at call time from the pool's current host, which after a cluster update
// that keeps the host objects is the very host it is compared with.
func c13PoolReportsTheHashItWasCreatedUnder(c *Ctx) {
	const rule = "C13.R25"
	c.Rule(rule, "every connection pool reports the tls hash captured when it was created (a field only its constructor stores)", 3)
	n := 0
	for _, pkg := range []string{"pkg/stream/http", "pkg/stream/http2", "pkg/stream/xprotocol"} {
		if c.TypesPkg(pkg) == nil {
			c.Unresolved(rule, pkg+" (not loaded)")
			continue
		}
		for _, fn := range c.PkgFuncs(pkg) {
			if fn.Name() != "TLSHashValue" || fn.Signature.Recv() == nil || fn.Synthetic != "" || len(fn.Params) == 0 {
				continue
			}
			n++
			recv := fn.Params[0]
			field := ""
			ok := true
			for _, in := range instrsWhere(fn, isReturn) {
				ret := in.(*ssa.Return)
				if len(ret.Results) != 1 {
					continue
				}
				_, f, base, okF := loadedField(unspill(ret, 0))
				if !okF || rootOfAddr(base) != ssa.Value(recv) {
					ok = false
					continue
				}
				field = f
			}
			c.Check(rule, funcKey(fn)+":captured-hash", fn.Pos(), ok && field != "", "TLSHashValue returns a field of the pool",
				"the pool computes its tls hash at call time (from its current host) instead of reporting the one it was created under: after a cluster update that keeps the host objects the pool's host IS the host it is compared with, the hashes are always equal, the pool is never replaced and its established connections - made under the old policy, e.g. insecure_skip - keep carrying the requests of a cluster that now verifies its upstream")
			if !ok || field == "" {
				continue
			}
			// only functions without the pool as receiver (constructors) store the field
			var writers []string
			for _, g := range c.PkgFuncs(pkg) {
				if len(storesToField(g, shortTypeName(fn.Signature.Recv().Type()), field, true)) == 0 {
					continue
				}
				if g.Signature.Recv() != nil {
					writers = append(writers, g.Name())
				}
			}
			c.Check(rule, funcKey(fn)+":hash-stored-by-constructor-only", fn.Pos(), len(writers) == 0, "the field is stored by the constructor only",
				"the tls hash field of the pool is rewritten by "+strings.Join(writers, ", ")+": a pool that adopts the current hash is never found stale")
		}
	}
	if n < 3 {
		c.Fail(rule, "pkg/stream:captured-hash", token.NoPos, "fewer than three pool TLSHashValue methods found")
	}
}

// C08.B14 (seed C08-11): while a header block is open only a CONTINUATION passes. readMetaFrame asserts the frames that
// follow a HEADERS without END_HEADERS to *ContinuationFrame without a test, "guaranteed by checkFrameOrder"; the guarantee
// is this clause: in checkFrameOrder no path on which the block is open (lastHeaderStream != 0, or the test not made at
// all) and the frame's type is not established to be CONTINUATION returns a nil error. An extension frame (any unknown type
// byte) inside a header block otherwise reaches the assertion and the framer panics on peer bytes.
func c08OpenHeaderBlockAdmitsOnlyContinuation(c *Ctx) {
	const rule = "C08.B14"
	c.Rule(rule, "checkFrameOrder lets only a CONTINUATION through while a header block is open (the unchecked assertion in readMetaFrame relies on it)", 1)
	pkg := "pkg/module/http2"
	fn := c.M(pkg, "Framer", "checkFrameOrder")
	if fn == nil {
		c.Unresolved(rule, "Framer.checkFrameOrder")
		return
	}
	cont, ok := pkgLocalConst(fn, "FrameContinuation")
	if !ok {
		c.Unresolved(rule, "http2.FrameContinuation")
		return
	}
	fieldOf := func(v ssa.Value) string {
		if _, f, _, ok := loadedField(v); ok {
			return f
		}
		if f, ok := v.(*ssa.Field); ok {
			return derefStructField(f)
		}
		return ""
	}
	edgeOK := func(from, to *ssa.BasicBlock) bool {
		ifi, isIf := from.Instrs[len(from.Instrs)-1].(*ssa.If)
		if !isIf || from.Succs[0] == from.Succs[1] {
			return true
		}
		bo, isB := ifi.Cond.(*ssa.BinOp)
		if !isB || (bo.Op != token.EQL && bo.Op != token.NEQ) {
			return true
		}
		takenEq := (from.Succs[0] == to) == (bo.Op == token.EQL)
		k, isK := constInt(bo.Y)
		if !isK {
			return true
		}
		switch fieldOf(bo.X) {
		case "lastHeaderStream":
			if k == 0 && takenEq {
				return false // the block is closed on this edge
			}
		case "Type":
			if k == cont && takenEq {
				return false // the frame is a CONTINUATION on this edge
			}
		}
		// the test-only switch that disables the check
		if fieldOf(ifi.Cond) == "AllowIllegalReads" {
			return from.Succs[0] != to
		}
		return true
	}
	// AllowIllegalReads is a plain bool condition, not a comparison: prune its true edge as well
	edgeOK2 := func(from, to *ssa.BasicBlock) bool {
		if ifi, isIf := from.Instrs[len(from.Instrs)-1].(*ssa.If); isIf && fieldOf(ifi.Cond) == "AllowIllegalReads" && from.Succs[0] == to {
			return false
		}
		return edgeOK(from, to)
	}
	nilReturn := func(in ssa.Instruction) bool {
		ret, ok := in.(*ssa.Return)
		return ok && len(ret.Results) == 1 && isNilConst(unspill(ret, 0))
	}
	w := existsPathEdges(fn, nil, nilReturn, nil, edgeOK2)
	pos := fn.Pos()
	if w != nil {
		pos = w.Pos()
	}
	c.Check(rule, funcKey(fn)+":open-block-admits-only-continuation", pos, w == nil, "every frame that is not established to be a CONTINUATION is refused while a header block is open",
		"checkFrameOrder can return nil for a frame whose type was not established to be CONTINUATION on a path where the header block is open (or its state was not looked at): a frame of a type the switch does not list - any extension type byte - passes, readMetaFrame asserts it to *ContinuationFrame without a test and the framer panics on bytes chosen by the peer")
}

// C09.R12 / C02.R18 (seed C09-11; C02.R18 was first written for repair S59 as a shape rule and is now this analysis): an HTTP/1 client connection goes back to the pool only when nothing is left behind the
// response. The decision is made on COUNTS: on every path of clientStreamConnection.serve from reading the response to
// the point where the connection is not retired (the `resetConn` flag is false), both `br.Buffered() == 0` and
// `unread <= 0` have been established - in serve itself or in a package helper whose "no surplus" answers are all backed
// by those two facts. A test that looks at the content of the left-over bytes (trailing line ends "do not count") lets a
// reader that holds only CR/LF hide bytes that are still in the dispatched buffer.
func http1SurplusDecidedOnCounts(c *Ctx, rule, key string) {
	c.Rule(rule, "HTTP/1 client: the connection is kept only when the reader and the dispatched buffer are both established empty (counts, not content)", 1)
	pkg := "pkg/stream/http"
	fn := c.M(pkg, "clientStreamConnection", "serve")
	if fn == nil {
		c.Unresolved(rule, "clientStreamConnection.serve")
		return
	}
	type facts struct{ buffered0, unread0 bool }
	// unread is a count: every store into it is a Len() or a non-negative constant
	unreadNonNegative := true
	for _, g := range c.PkgFuncs(pkg) {
		for _, st := range storesToField(g, "clientStreamConnection", "unread", true) {
			if k, isK := constInt(st.Val); isK && k >= 0 {
				continue
			}
			if call, isC := stripConvNum(st.Val).(*ssa.Call); isC && methodName(call.Common()) == "Len" {
				continue
			}
			unreadNonNegative = false
		}
	}
	// what does the branch on cond taken with polarity pol establish?
	var learn func(cond ssa.Value, pol bool, f facts, helperOK map[*ssa.Function]bool) facts
	learn = func(cond ssa.Value, pol bool, f facts, helperOK map[*ssa.Function]bool) facts {
		if u, ok := cond.(*ssa.UnOp); ok && u.Op == token.NOT {
			return learn(u.X, !pol, f, helperOK)
		}
		if v, op, k, ok := cmpConst(Guard{Cond: cond, True: pol}); ok {
			zero := (op == token.EQL && k == 0) || (op == token.LEQ && k <= 0) || (op == token.LSS && k <= 1)
			if zero {
				var mark func(x ssa.Value, d int)
				mark = func(x ssa.Value, d int) {
					x = stripConvNum(x)
					if call, isC := x.(*ssa.Call); isC && methodName(call.Common()) == "Buffered" {
						f.buffered0 = true
					}
					if _, fld, _, isF := loadedField(x); isF && fld == "unread" {
						f.unread0 = true
					}
					// a sum of the two counts is zero only if both are: Buffered() is never negative and unread only ever
					// holds a Len() (checked once below)
					if sum, isS := x.(*ssa.BinOp); isS && sum.Op == token.ADD && d < 2 && unreadNonNegative {
						mark(sum.X, d+1)
						mark(sum.Y, d+1)
					}
				}
				mark(v, 0)
			}
		}
		if call, ok := cond.(*ssa.Call); ok && !pol {
			if cal := call.Common().StaticCallee(); cal != nil && helperOK[cal] {
				f.buffered0, f.unread0 = true, true
			}
		}
		return f
	}
	// a helper is sound if each of its "false" answers is backed by both facts
	var soundHelper func(h *ssa.Function) bool
	soundHelper = func(h *ssa.Function) bool {
		if len(h.Blocks) == 0 {
			return false
		}
		okAll := true
		type st struct {
			b, prev *ssa.BasicBlock
			f       facts
		}
		seen := map[st]bool{}
		var walk func(b, prev *ssa.BasicBlock, f facts)
		walk = func(b, prev *ssa.BasicBlock, f facts) {
			if seen[st{b, prev, f}] {
				return
			}
			seen[st{b, prev, f}] = true
			last := b.Instrs[len(b.Instrs)-1]
			switch x := last.(type) {
			case *ssa.Return:
				if len(x.Results) != 1 {
					okAll = false
					return
				}
				r := unspill(x, 0)
				// `a || b` returns a phi: the value that came in over the edge taken
				if phi, isPhi := r.(*ssa.Phi); isPhi && phi.Block() == b && prev != nil {
					for i, p := range b.Preds {
						if p == prev {
							r = phi.Edges[i]
						}
					}
				}
				if k, isK := constBool(r); isK {
					if !k && !(f.buffered0 && f.unread0) {
						okAll = false
					}
					return
				}
				g := learn(r, false, f, nil)
				if !(g.buffered0 && g.unread0) {
					okAll = false
				}
			case *ssa.If:
				walk(b.Succs[0], b, learn(x.Cond, true, f, nil))
				walk(b.Succs[1], b, learn(x.Cond, false, f, nil))
			default:
				for _, s := range b.Succs {
					walk(s, b, f)
				}
			}
		}
		walk(h.Blocks[0], nil, facts{})
		return okAll
	}
	helperOK := map[*ssa.Function]bool{}
	for _, cs := range callsIn(fn, false, func(cc *ssa.CallCommon) bool {
		cal := cc.StaticCallee()
		return cal != nil && cal.Pkg == fn.Pkg && cal.Signature.Results().Len() == 1 && cal.Signature.Results().At(0).Type().String() == "bool"
	}) {
		cal := cs.Instr.Common().StaticCallee()
		if _, done := helperOK[cal]; !done {
			helperOK[cal] = soundHelper(cal)
		}
	}
	reads := callsIn(fn, false, func(cc *ssa.CallCommon) bool {
		return methodName(cc) == "Read" && strings.Contains(calleeName(cc), "fasthttp.Response")
	})
	goaway := callsIn(fn, false, calledAs("OnGoAway"))
	// repair 156: the response is read again while the status is an interim 1xx - one or more Read calls
	if len(reads) == 0 || len(goaway) == 0 {
		c.Fail(rule, funcKey(fn)+":"+key, fn.Pos(), "Response.Read / OnGoAway not found in serve")
		return
	}
	// the flag: the bool phi whose true edge leads to OnGoAway
	var flagIf *ssa.If
	for _, g := range guardsAt(goaway[0].Instr.Block()) {
		if _, isPhi := g.Cond.(*ssa.Phi); isPhi && g.True {
			flagIf = g.If
		}
	}
	if flagIf == nil {
		c.Fail(rule, funcKey(fn)+":"+key, goaway[0].Instr.Pos(), "OnGoAway is not under a boolean flag of serve")
		return
	}
	flag := flagIf.Cond.(*ssa.Phi)
	// explore from the read to the flag test, carrying the facts and the possible value of the flag
	bad := false
	type st struct {
		b   *ssa.BasicBlock
		f   facts
		val int8
	}
	seen := map[st]bool{}
	var walk func(b, prev *ssa.BasicBlock, f facts, val int8)
	walk = func(b, prev *ssa.BasicBlock, f facts, val int8) {
		if b == flag.Block() && prev != nil {
			for i, p := range b.Preds {
				if p == prev {
					if k, isK := constBool(flag.Edges[i]); isK {
						if k {
							val = 1
						} else if val != 1 {
							val = 2
						}
					} else if e, isPhi := flag.Edges[i].(*ssa.Phi); !isPhi || e != flag {
						val = 0
					}
				}
			}
		}
		if seen[st{b, f, val}] {
			return
		}
		seen[st{b, f, val}] = true
		last := b.Instrs[len(b.Instrs)-1]
		if ifi, ok := last.(*ssa.If); ok {
			if ifi == flagIf {
				// the connection is kept on the false edge
				if val != 1 && !(f.buffered0 && f.unread0) {
					bad = true
				}
				return
			}
			walk(b.Succs[0], b, learn(ifi.Cond, true, f, helperOK), val)
			walk(b.Succs[1], b, learn(ifi.Cond, false, f, helperOK), val)
			return
		}
		if _, isRet := last.(*ssa.Return); isRet && isReturn(last) {
			return
		}
		for _, s := range b.Succs {
			walk(s, b, f, val)
		}
	}
	for _, rd := range reads {
		rb := rd.Instr.Block()
		for _, s := range rb.Succs {
			walk(s, rb, facts{}, 0)
		}
	}
	c.Check(rule, funcKey(fn)+":"+key, nearestPos(flagIf), !bad, "on every path that keeps the connection, br.Buffered() == 0 and unread <= 0 are established",
		"serve can keep the connection although it has not established that both the reader (br.Buffered()) and the dispatched buffer (unread) are empty - the surplus test looks at the content of the left-over bytes or skips one of the two counts: bytes the upstream sent behind its response stay on a connection that goes back to the pool and are read as the response of the next request")
}

// C10.END / C03.R20 (seed C10-11): the phase machine ends a request only where the stream was cleaned. downStream.receive
// hands back types.End either as what processError / waitNotify returned (they reset and clean a finished stream before
// they say End), or as the constant in the arm of phase End itself (reached after the reply was sent, which cleans) or in
// the arm for an unexpected phase. A constant End returned from the arm of another phase ends the request with nothing
// cleaned: the active gauges the stream incremented when it was created are never decremented and the stream stays in the
// proxy's active list.
func receiveEndsOnlyWhereCleaned(c *Ctx, rule string) {
	c.Rule(rule, "downStream.receive returns the constant End only from the End arm (or the unexpected-phase arm): every other end goes through processError, which cleans", 2)
	fn := c.M("pkg/proxy", "downStream", "receive")
	if fn == nil {
		c.Unresolved(rule, "downStream.receive")
		return
	}
	end, ok := pkgConstOf(fn, "pkg/types", "End")
	if !ok {
		c.Unresolved(rule, "types.End")
		return
	}
	ord := ordCounter{}
	n := 0
	for _, in := range instrsWhere(fn, isReturn) {
		ret := in.(*ssa.Return)
		if len(ret.Results) != 1 {
			continue
		}
		k, isK := constInt(unspill(ret, 0))
		if !isK || k != end {
			continue
		}
		n++
		other := int64(-1)
		for _, g := range guardsAt(ret.Block()) {
			if v, op, kk, okC := cmpConst(g); okC && op == token.EQL && strings.HasSuffix(v.Type().String(), "Phase") && kk != end {
				other = kk
			}
		}
		c.Check(rule, ord.next(fn, "constant-end"), ret.Pos(), other < 0, "the constant End is returned from the End arm, the unexpected-phase arm or behind the loop",
			fmt.Sprintf("receive returns the constant End from the arm of phase %d: the request is ended there without processError (which resets and cleans a stream that was finished meanwhile) - the downstream_request_active gauges of proxy and listener stay incremented for ever, the stream stays in the active list and a graceful shutdown waits its whole drain time for it", other))
	}
	if n == 0 {
		c.Fail(rule, funcKey(fn)+":constant-end", fn.Pos(), "receive has no constant End return: the rule's anchor is gone")
	}
}

// C11.O22 (seed C11-11): taking an inherited socket is recorded where the caller sees it. ParseListenerConfig gets the
// slice of inherited listeners by value; CleanUpgrade later closes every entry that is still non-nil as a leftover. So a
// taken entry is marked by storing nil into the ELEMENT (shared backing array), and the slice itself is never re-made
// from an append on the parameter - that shifts the remaining entries in the caller's array and leaves a taken socket
// non-nil at the end, where the clean-up closes a socket a configured listener is accepting on.
func c11TakenSocketsMarkedInPlace(c *Ctx) {
	const rule = "C11.O22"
	c.Rule(rule, "ParseListenerConfig marks a taken inherited socket by storing nil into the caller's slice element and never re-slices the parameter", 2)
	fn := c.F("pkg/configmanager", "ParseListenerConfig")
	if fn == nil {
		c.Unresolved(rule, "configmanager.ParseListenerConfig")
		return
	}
	var params []ssa.Value
	for _, p := range fn.Params {
		if _, isSlice := p.Type().Underlying().(*types.Slice); isSlice && strings.Contains(p.Type().String(), "net.") {
			params = append(params, p)
		}
	}
	if len(params) == 0 {
		c.Unresolved(rule, "the inherited listener parameters of ParseListenerConfig")
		return
	}
	isParam := func(v ssa.Value) bool {
		for _, p := range params {
			if v == p {
				return true
			}
		}
		return false
	}
	nils := 0
	var bad ssa.Instruction
	forEachInstr(fn, false, func(_ *ssa.Function, in ssa.Instruction) {
		switch x := in.(type) {
		case *ssa.Store:
			if ia, ok := x.Addr.(*ssa.IndexAddr); ok && isParam(ia.X) && isNilConst(x.Val) {
				nils++
			}
		case *ssa.Call:
			if b, ok := x.Common().Value.(*ssa.Builtin); ok && b.Name() == "append" && len(x.Common().Args) > 0 {
				if derivesFrom(x.Common().Args[0], isParam) {
					bad = in
				}
			}
		}
	})
	c.Check(rule, funcKey(fn)+":taken-marked-in-place", fn.Pos(), nils >= 3, fmt.Sprintf("%d stores of nil into elements of the inherited slices", nils),
		"ParseListenerConfig no longer stores nil into the element of an inherited listener it takes: CleanUpgrade closes every non-nil entry as a leftover, i.e. the socket a configured listener is accepting on")
	pos := fn.Pos()
	if bad != nil {
		pos = nearestPos(bad)
	}
	c.Check(rule, funcKey(fn)+":parameter-not-resliced", pos, bad == nil, "no append onto the inherited slices",
		"ParseListenerConfig removes a taken entry with append(s[:i], s[i+1:]...): the parameter is a copy of the slice header, the caller keeps its length and only sees its entries shifted left, so a taken socket stays non-nil at the end of the caller's slice and CleanUpgrade closes it - the new process stops accepting on a configured address")
}

// C02.R22 / C09.R13 (seed C02-11): the upstream stream is finished before its response is handed over. The response wakes the
// proxy worker, which finishes the downstream request and gives the request's buffer context back - and the client stream
// object lives in that context. So clientStreamReceiverWrapper.OnReceive destroys the stream (which releases the pooled
// connection) BEFORE it calls the receiver, by a plain call: a deferred or later DestroyStream can run on an object that
// already belongs to another request and put that request's leased, in-flight connection back into the pool.
func destroyBeforeHandOver(c *Ctx, rule string) {
	c.Rule(rule, "the client stream is destroyed by a plain call before its response is handed to the receiver", 1)
	fn := c.M("pkg/stream", "clientStreamReceiverWrapper", "OnReceive")
	if fn == nil {
		c.Unresolved(rule, "stream.clientStreamReceiverWrapper.OnReceive")
		return
	}
	var destroy, hand ssa.Instruction
	deferred := false
	forEachInstr(fn, false, func(_ *ssa.Function, in ssa.Instruction) {
		ci, ok := in.(ssa.CallInstruction)
		if !ok {
			return
		}
		switch methodName(ci.Common()) {
		case "DestroyStream":
			if _, isDefer := in.(*ssa.Defer); isDefer {
				deferred = true
			} else if destroy == nil {
				destroy = in
			}
		case "OnReceive":
			hand = in
		}
	})
	if hand == nil {
		c.Fail(rule, funcKey(fn)+":destroy-before-hand-over", fn.Pos(), "the wrapper no longer calls the receiver's OnReceive")
		return
	}
	ok := destroy != nil && instrDominates(destroy, hand)
	why := "DestroyStream is not called ahead of the receiver"
	if deferred {
		why = "DestroyStream is deferred, so it runs after the receiver returned"
	}
	c.Check(rule, funcKey(fn)+":destroy-before-hand-over", hand.Pos(), ok, "DestroyStream is called before streamReceiver.OnReceive",
		why+": handing the response over lets the proxy worker finish the request and recycle the buffer context the client stream lives in; the late DestroyStream then runs on a stream that already belongs to another request and returns that request's leased connection to the pool while its exchange is in flight - the next request on it receives the other one's response")
}
