package main

import (
	"fmt"
	"strings"

	"golang.org/x/tools/go/ssa"
)

// c11HandOverFindsListener (O13): the new process attaches a handed-over TCP connection to a listener by its local
// address: the exact address first, then the wildcard listeners on the same port. A dual-stack listener bound to
// `[::]:port` accepts IPv4 clients too, and their local address is an IPv4 one - so the family of the connection says
// nothing about the family of the wildcard it came in through. Clause: in transferFindListen, from the lookup by the
// connection's own address every path that ends in "not found" (a nil result) passes a FindListenerByAddress lookup of the
// IPv4 wildcard AND one of the IPv6 wildcard; a lookup whose address is one or the other depending on a condition counts as
// neither. A connection for which no listener is found is dropped by the new process while the old one has stopped
// reading it.
func c11HandOverFindsListener(c *Ctx) {
	fn := c.F("pkg/network", "transferFindListen")
	if fn == nil {
		c.Unresolved("C11.O13", "transferFindListen")
		return
	}
	// classify a lookup's address argument
	wildOfString := func(v ssa.Value) string {
		bo, ok := v.(*ssa.BinOp)
		if !ok {
			return ""
		}
		for _, x := range []ssa.Value{bo.X, bo.Y} {
			if s, isK := constStringVal(x); isK {
				switch {
				case strings.HasPrefix(s, "0.0.0.0"):
					return "v4"
				case strings.HasPrefix(s, "[::]"), strings.HasPrefix(s, "::"):
					return "v6"
				}
			}
		}
		return ""
	}
	wildOfGlobal := func(v ssa.Value) string {
		if ld, ok := v.(*ssa.UnOp); ok {
			if g, ok := ld.X.(*ssa.Global); ok {
				switch g.Name() {
				case "IPv4zero":
					return "v4"
				case "IPv6zero", "IPv6unspecified":
					return "v6"
				}
			}
		}
		return ""
	}
	var kindOf func(v ssa.Value, d int) string
	kindOf = func(v ssa.Value, d int) string {
		if d > 5 {
			return ""
		}
		switch x := v.(type) {
		case *ssa.MakeInterface:
			return kindOf(x.X, d+1)
		case *ssa.ChangeInterface:
			return kindOf(x.X, d+1)
		case *ssa.Extract:
			if call, ok := x.Tuple.(*ssa.Call); ok && strings.HasSuffix(calleeName(call.Common()), "ResolveTCPAddr") && len(call.Common().Args) == 2 {
				return wildOfString(call.Common().Args[1])
			}
			if _, ok := x.Tuple.(*ssa.TypeAssert); ok {
				return "own"
			}
		case *ssa.Alloc:
			// &net.TCPAddr{IP: ..., Port: ...}: exactly one store into IP decides
			kind, n := "", 0
			for _, r := range refs(x) {
				if fa, ok := r.(*ssa.FieldAddr); ok {
					if _, f, _, _ := fieldAddrInfo(fa); f == "IP" {
						for _, rr := range refs(fa) {
							if st, ok := rr.(*ssa.Store); ok && st.Addr == ssa.Value(fa) {
								n++
								kind = wildOfGlobal(st.Val)
							}
						}
					}
				}
			}
			if n == 1 {
				return kind
			}
			return ""
		case *ssa.TypeAssert:
			return "own"
		case *ssa.Parameter:
			return "own"
		}
		return ""
	}
	var own, v4, v6 []ssa.Instruction
	for _, cs := range callsIn(fn, false, func(cc *ssa.CallCommon) bool { return methodName(cc) == "FindListenerByAddress" }) {
		args := argsOf(cs.Instr.Common())
		if len(args) == 0 {
			continue
		}
		a := args[len(args)-1]
		// only the TCP arm: the address is a *net.TCPAddr (or an interface made from one)
		if !strings.Contains(stripIface(a).Type().String(), "TCPAddr") {
			continue
		}
		switch kindOf(a, 0) {
		case "own":
			own = append(own, cs.Instr)
		case "v4":
			v4 = append(v4, cs.Instr)
		case "v6":
			v6 = append(v6, cs.Instr)
		}
	}
	if len(own) != 1 {
		c.Unresolved("C11.O13", fmt.Sprintf("the lookup by the connection's own TCP address in transferFindListen (found %d)", len(own)))
		return
	}
	nilReturn := func(in ssa.Instruction) bool {
		r, ok := in.(*ssa.Return)
		return ok && len(r.Results) == 1 && isNilConst(unspill(r, 0))
	}
	isOneOf := func(set []ssa.Instruction) func(ssa.Instruction) bool {
		return func(in ssa.Instruction) bool {
			for _, x := range set {
				if x == in {
					return true
				}
			}
			return false
		}
	}
	for _, w := range []struct {
		name string
		set  []ssa.Instruction
	}{{"0.0.0.0", v4}, {"[::]", v6}} {
		bad := existsPath(fn, own[0], nilReturn, isOneOf(w.set))
		c.Check("C11.O13", funcKey(fn)+":tries-wildcard-"+w.name, own[0].Pos(), bad == nil, "no \"not found\" before the "+w.name+" wildcard listener of the port was looked up", "a handed-over TCP connection can be declared without listener although the "+w.name+":port wildcard listener was never looked up (a dual-stack [::] listener accepts IPv4 clients): the new process drops the connection while the old one has stopped reading it - every later request on that long-lived connection hangs")
	}
}
