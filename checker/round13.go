package main

import (
	"fmt"
	"go/token"
	"go/types"
	"sort"
	"strings"

	"golang.org/x/tools/go/ssa"
)

// Clauses written for the repairs of the round-12 side findings (S67 .. S97): each rule states the clause of the property
// the defect broke, over the constructs the repaired code uses, and has a mutant that takes the repair back.

func runRound13(c *Ctx, spec *PropSpec) {
	switch spec.ID {
	case "C01":
		c01CloneKeepsRawDataNilness(c)
		c01TarsForwardsReceivedPackage(c)
		c01EmptyQueryIsAQueryHTTP2(c)
	case "C03":
		c03DirectResponseAfterFiltersGoesOn(c)
		c03ExhaustedLoopEndsTheStream(c)
	case "C04":
		c04CompileErrorRefusesRoute(c)
	case "C06":
		c06TotalIn64BitsAndDrawGuarded(c)
	case "C12":
		c12AppliedFieldsAreRecorded(c)
	case "C13":
		c13PendingProviderIsNotPlaintext(c)
		c13FailedManagerUpdateFailsClosed(c)
		c13HashCoversVerification(c)
	case "C15":
		c15SubsetValuesConvertedLikeHostValues(c)
	case "C16":
		c16NewIDOnlyAfterResult(c)
	case "C18":
		c18UnknownFrameIgnored(c)
	}
}

// ---------------------------------------------------------------------------------------------------------------------
// helpers

// errEdgeOf: for a call whose last result is an error, the successor blocks entered when that error is non-nil.
func errEdgesOf(call *ssa.Call) []*ssa.BasicBlock {
	var errVals []ssa.Value
	if types.Identical(call.Type(), types.Universe.Lookup("error").Type()) {
		errVals = append(errVals, call)
	}
	for _, r := range refs(call) {
		if ex, ok := r.(*ssa.Extract); ok && types.Identical(ex.Type(), types.Universe.Lookup("error").Type()) {
			errVals = append(errVals, ex)
		}
	}
	var out []*ssa.BasicBlock
	for _, ev := range errVals {
		for _, r := range refs(ev) {
			bo, ok := r.(*ssa.BinOp)
			if !ok || (bo.Op != token.NEQ && bo.Op != token.EQL) || !(isNilConst(bo.X) || isNilConst(bo.Y)) {
				continue
			}
			for _, r2 := range refs(bo) {
				if ifi, ok := r2.(*ssa.If); ok {
					if bo.Op == token.NEQ {
						out = append(out, ifi.Block().Succs[0])
					} else {
						out = append(out, ifi.Block().Succs[1])
					}
				}
			}
		}
	}
	return out
}

// reachWithin: blocks reachable from b (b included), optionally restricted to a set.
func reachWithin(b *ssa.BasicBlock, within map[*ssa.BasicBlock]bool) map[*ssa.BasicBlock]bool {
	seen := map[*ssa.BasicBlock]bool{}
	work := []*ssa.BasicBlock{b}
	for len(work) > 0 {
		x := work[len(work)-1]
		work = work[:len(work)-1]
		if seen[x] || (within != nil && !within[x]) {
			continue
		}
		seen[x] = true
		work = append(work, x.Succs...)
	}
	return seen
}

// rootOfAddr strips field selections, element selections and loads down to the value an access path starts at.
func rootOfAddr(v ssa.Value) ssa.Value {
	for i := 0; i < 12; i++ {
		switch x := v.(type) {
		case *ssa.FieldAddr:
			v = x.X
		case *ssa.IndexAddr:
			v = x.X
		case *ssa.Field:
			v = x.X
		case *ssa.UnOp:
			if x.Op != token.MUL {
				return v
			}
			v = x.X
		default:
			return v
		}
	}
	return v
}

// boolFlagPath is existsPath made sensitive to the boolean locals of the function: the values of bool-typed phis are
// tracked along the path (constant edges and copies of other tracked phis), and an If on a tracked phi (or its negation)
// follows only the edge its value selects. Everything else is followed both ways.
func boolFlagPath(from ssa.Instruction, target, stop func(ssa.Instruction) bool) ssa.Instruction {
	type env map[*ssa.Phi]int8
	var eval func(e env, v ssa.Value) int8
	eval = func(e env, v ssa.Value) int8 {
		switch x := v.(type) {
		case *ssa.Const:
			if b, ok := constBool(x); ok {
				if b {
					return 1
				}
				return 2
			}
		case *ssa.Phi:
			return e[x]
		case *ssa.UnOp:
			if x.Op == token.NOT {
				switch eval(e, x.X) {
				case 1:
					return 2
				case 2:
					return 1
				}
			}
		}
		return 0
	}
	keyOf := func(b *ssa.BasicBlock, i int, e env) string {
		var ks []string
		for p, v := range e {
			if v != 0 {
				ks = append(ks, fmt.Sprintf("%s=%d", p.Name(), v))
			}
		}
		sort.Strings(ks)
		return fmt.Sprintf("%d/%d/%s", b.Index, i, strings.Join(ks, ","))
	}
	seen := map[string]bool{}
	var found ssa.Instruction
	var walk func(b *ssa.BasicBlock, i int, e env)
	walk = func(b *ssa.BasicBlock, i int, e env) {
		if found != nil {
			return
		}
		k := keyOf(b, i, e)
		if seen[k] {
			return
		}
		seen[k] = true
		for ; i < len(b.Instrs); i++ {
			in := b.Instrs[i]
			if stop != nil && stop(in) {
				return
			}
			if target(in) {
				found = in
				return
			}
		}
		succs := b.Succs
		if ifi, ok := b.Instrs[len(b.Instrs)-1].(*ssa.If); ok && len(succs) == 2 {
			switch eval(e, ifi.Cond) {
			case 1:
				succs = succs[:1]
			case 2:
				succs = succs[1:]
			}
		}
		for _, s := range succs {
			idx := -1
			for j, p := range s.Preds {
				if p == b {
					idx = j
				}
			}
			ne := env{}
			for p, v := range e {
				ne[p] = v
			}
			for _, in := range s.Instrs {
				phi, ok := in.(*ssa.Phi)
				if !ok {
					break
				}
				if bt, ok := phi.Type().Underlying().(*types.Basic); !ok || bt.Kind() != types.Bool || idx < 0 {
					continue
				}
				if v := eval(e, phi.Edges[idx]); v != 0 {
					ne[phi] = v
				} else {
					delete(ne, phi)
				}
			}
			walk(s, 0, ne)
		}
	}
	walk(from.Block(), instrIndex(from)+1, env{})
	return found
}

func is64BitInt(t types.Type) bool {
	b, ok := t.Underlying().(*types.Basic)
	return ok && (b.Kind() == types.Uint64 || b.Kind() == types.Int64)
}

// ---------------------------------------------------------------------------------------------------------------------
// C04.R16 (S67): a matcher that does not compile refuses the route. On the error edge of a Compile call in pkg/router the
// function returns (nil or an error); it never goes on to the next configured item, which would install the route with
// fewer conditions than configured. The builder of the dsl expressions, which returns nil then, is one of the
// constructors whose result C04.R13 wants tested before it is stored.
func c04CompileErrorRefusesRoute(c *Ctx) {
	const rule = "C04.R16"
	c.Rule(rule, "a matcher that does not compile refuses the route: the error edge of Compile leaves the function, it never skips to the next item", 4)
	pkg := "pkg/router"
	errT := types.Universe.Lookup("error").Type()
	ord := ordCounter{}
	for _, fn := range c.PkgFuncs(pkg) {
		for _, cs := range callsIn(fn, false, calledAs("Compile")) {
			call, ok := cs.Instr.(*ssa.Call)
			if !ok {
				continue
			}
			edges := errEdgesOf(call)
			if len(edges) == 0 {
				continue // MustCompile-like use or error ignored: not this rule's business
			}
			key := ord.next(fn, "compile-error-refuses")
			// innermost loop around the call
			var header *ssa.BasicBlock
			var body map[*ssa.BasicBlock]bool
			for h, bd := range naturalLoops(fn) {
				if bd[call.Block()] && (body == nil || len(bd) < len(body)) {
					header, body = h, bd
				}
			}
			bad := ""
			for _, e := range edges {
				if body != nil && body[e] && reachWithin(e, body)[header] {
					bad = "the loop over the configured items goes on after a Compile error: the item is dropped and the route is installed with fewer conditions than configured, so it matches requests its configuration excludes"
					continue
				}
				// returns reached only through the error edge refuse: nil value or a non-nil error
				for b := range reachWithin(e, nil) {
					ret, ok := b.Instrs[len(b.Instrs)-1].(*ssa.Return)
					if !ok || len(ret.Results) == 0 || !e.Dominates(b) {
						continue
					}
					first, last := unspill(ret, 0), unspill(ret, len(ret.Results)-1)
					if !(isNilConst(first) || (types.Identical(last.Type(), errT) && !isNilConst(last))) {
						bad = "a return reached only after a Compile error hands back a usable value and no error"
					}
				}
			}
			c.Check(rule, key, call.Pos(), bad == "", "the error edge of Compile leaves "+fn.Name()+" with nil / an error", bad)
		}
	}
	c04NoNilMatcherStoredFor(c, pkg, "C04.R16", map[string]bool{"parseConfigToDslExpression": true})
}

// c04NoNilMatcherStoredFor: the C04.R13 obligation for further constructors (result stored only on its non-nil edge).
func c04NoNilMatcherStoredFor(c *Ctx, pkg, rule string, ctors map[string]bool) {
	n := 0
	for _, fn := range c.PkgFuncs(pkg) {
		for _, cs := range callsIn(fn, true, func(cc *ssa.CallCommon) bool {
			cal := cc.StaticCallee()
			return cal != nil && ctors[cal.Name()] && cal.Pkg == fn.Pkg
		}) {
			call, ok := cs.Instr.(*ssa.Call)
			if !ok {
				continue
			}
			callee := call.Common().StaticCallee()
			canNil := false
			for _, in := range instrsWhere(callee, isReturn) {
				if r := in.(*ssa.Return); len(r.Results) > 0 && isNilConst(unspill(r, 0)) {
					canNil = true
				}
			}
			c.Check(rule, funcKey(callee)+":refuses-with-nil", callee.Pos(), canNil, callee.Name()+" can return nil", callee.Name()+" no longer has a nil return: it cannot tell its caller that a configured expression was refused")
			for _, r := range refs(call) {
				st, ok := r.(*ssa.Store)
				if !ok || st.Val != ssa.Value(call) {
					continue
				}
				n++
				guarded := false
				for _, g := range guardsAt(st.Block()) {
					if b, ok := g.Cond.(*ssa.BinOp); ok && ((b.X == ssa.Value(call) && isNilConst(b.Y)) || (b.Y == ssa.Value(call) && isNilConst(b.X))) {
						if (b.Op == token.NEQ && g.True) || (b.Op == token.EQL && !g.True) {
							guarded = true
						}
					}
				}
				c.Check(rule, funcKey(cs.Fn)+":"+callee.Name()+"-result-tested", st.Pos(), guarded,
					"the result of "+callee.Name()+" is stored only on its non-nil edge",
					"the result of "+callee.Name()+", which is nil when a configured expression does not compile, is stored into the route rule untested: the route is installed and matches without the expressions")
			}
		}
	}
	if n == 0 {
		c.Fail(rule, pkg+":dsl-result-tested", token.NoPos, "no stored result of the dsl expression builder found")
	}
}

// ---------------------------------------------------------------------------------------------------------------------
// C06.R9 (S93): the weights are uint32, their sum is not. The total of the weighted clusters is accumulated and kept in 64
// bits, and the draw is only made for a total that is not zero (rand.Int63n panics on 0; a wrapped total starves clusters).
func c06TotalIn64BitsAndDrawGuarded(c *Ctx) {
	const rule = "C06.R9"
	c.Rule(rule, "the weighted-cluster total is summed and kept in 64 bits and the draw is made only for a non-zero total", 3)
	pkg := "pkg/router"
	if fn := c.F(pkg, "getWeightedClusterEntry"); fn == nil {
		c.Unresolved(rule, "router.getWeightedClusterEntry")
	} else {
		for _, in := range instrsWhere(fn, isReturn) {
			ret := in.(*ssa.Return)
			if len(ret.Results) < 2 {
				c.Fail(rule, funcKey(fn)+":total-summed-in-64-bits", ret.Pos(), "getWeightedClusterEntry no longer returns the total")
				continue
			}
			// every value that can flow into the returned total is 64 bit wide up to the conversion of a single weight
			bad := ""
			seen := map[ssa.Value]bool{}
			var walk func(v ssa.Value)
			walk = func(v ssa.Value) {
				if seen[v] {
					return
				}
				seen[v] = true
				switch x := v.(type) {
				case *ssa.Phi:
					if !is64BitInt(x.Type()) {
						bad = "the running total is a " + x.Type().String()
					}
					for _, e := range x.Edges {
						walk(e)
					}
				case *ssa.BinOp:
					if x.Op == token.ADD && !is64BitInt(x.Type()) {
						bad = "weights are added in " + x.Type().String()
					}
					walk(x.X)
					walk(x.Y)
				case *ssa.Convert:
					// a conversion is the widening of one weight if its operand is not itself a sum
					if _, isSum := x.X.(*ssa.BinOp); isSum {
						walk(x.X)
					} else if _, isPhi := x.X.(*ssa.Phi); isPhi {
						walk(x.X)
					}
				}
			}
			walk(unspill(ret, 1))
			if !is64BitInt(unspill(ret, 1).Type()) {
				bad = "the total is returned as " + unspill(ret, 1).Type().String()
			}
			c.Check(rule, funcKey(fn)+":total-summed-in-64-bits", ret.Pos(), bad == "", "the sum of the uint32 weights is formed in 64 bits",
				bad+": the sum of uint32 weights wraps (two clusters of weight 2^31 give total 0), the draw range no longer covers the weights and clusters are starved or the draw panics")
		}
	}
	fn := c.M(pkg, "RouteRuleImplBase", "ClusterName")
	if fn == nil {
		c.Unresolved(rule, "RouteRuleImplBase.ClusterName")
		return
	}
	n := 0
	for _, cs := range callsIn(fn, false, func(cc *ssa.CallCommon) bool {
		m := methodName(cc)
		return (m == "Intn" || m == "Int63n" || m == "Int31n") && strings.Contains(calleeName(cc), "rand")
	}) {
		n++
		args := argsOf(cs.Instr.Common())
		// the field the range is computed from (the range may be an expression over it)
		var arg ssa.Value
		fld, okF := "", false
		var find func(v ssa.Value, d int)
		find = func(v ssa.Value, d int) {
			if okF || d > 4 {
				return
			}
			v = stripConvNum(v)
			if _, f, _, ok := loadedField(v); ok {
				arg, fld, okF = v, f, true
				return
			}
			if b, ok := v.(*ssa.BinOp); ok {
				find(b.X, d+1)
				find(b.Y, d+1)
			}
		}
		find(args[len(args)-1], 0)
		wide := okF && is64BitInt(arg.Type())
		c.Check(rule, funcKey(fn)+":total-kept-in-64-bits", cs.Instr.Pos(), wide, "the draw range is the 64 bit total field",
			"the draw range is not a 64 bit field of the rule: a total above 2^32-1 (or 2^31-1 for Intn on 32 bit) does not fit")
		nonZero := false
		for _, g := range guardsAt(cs.Instr.Block()) {
			v, op, k, ok := cmpConst(g)
			if !ok {
				continue
			}
			if _, f2, _, ok2 := loadedField(stripConvNum(v)); ok2 && f2 == fld {
				if (op == token.NEQ && k == 0) || (op == token.GTR && k >= 0) || (op == token.GEQ && k >= 1) {
					nonZero = true
				}
			}
		}
		c.Check(rule, funcKey(fn)+":draw-needs-non-zero-total", cs.Instr.Pos(), nonZero, "the draw is dominated by total != 0",
			"the draw is made without testing the total for zero: weighted clusters that all have weight 0 make rand panic on every request of the route")
	}
	if n == 0 {
		c.Fail(rule, funcKey(fn)+":draw-needs-non-zero-total", fn.Pos(), "no rand draw found in ClusterName")
	}
}

// ---------------------------------------------------------------------------------------------------------------------
// C12.R16 (S76): what a listener update applies it also records. Every field of the new configuration that the update
// branch of AddOrUpdateListener hands to the live listener (a Set* call or a field of the active listener) is stored
// into the listener's recorded configuration too; otherwise dumps and later updates show the old value while the new
// one is in effect.
func c12AppliedFieldsAreRecorded(c *Ctx) {
	const rule = "C12.R16"
	c.Rule(rule, "every field a listener update applies to the live listener is stored into its recorded configuration", 3)
	fn := c.M("pkg/server", "connHandler", "AddOrUpdateListener")
	if fn == nil || len(fn.Params) < 2 {
		c.Unresolved(rule, "connHandler.AddOrUpdateListener")
		return
	}
	lc := fn.Params[1]
	// the recorded configuration: the Config() result the branch writes fields of
	var raw ssa.Value
	best := 0
	for _, cs := range callsIn(fn, false, calledAs("Config")) {
		v, ok := cs.Instr.(*ssa.Call)
		if !ok {
			continue
		}
		k := 0
		forEachInstr(fn, false, func(_ *ssa.Function, in ssa.Instruction) {
			if st, isS := in.(*ssa.Store); isS && rootOfAddr(st.Addr) == ssa.Value(v) {
				k++
			}
		})
		if k > best {
			raw, best = v, k
		}
	}
	if raw == nil {
		c.Unresolved(rule, "the recorded configuration (listener.Config()) in AddOrUpdateListener")
		return
	}
	recorded := map[string]bool{}
	forEachInstr(fn, false, func(_ *ssa.Function, in ssa.Instruction) {
		if st, ok := in.(*ssa.Store); ok {
			if _, f, _, okF := fieldAddrInfo(st.Addr); okF && rootOfAddr(st.Addr) == raw {
				recorded[f] = true
			}
		}
	})
	applied := map[string]token.Pos{}
	forEachInstr(fn, false, func(_ *ssa.Function, in ssa.Instruction) {
		ld, ok := in.(*ssa.UnOp)
		if !ok || ld.Op != token.MUL || !instrDominates(raw.(ssa.Instruction), ld) {
			return
		}
		_, f, _, okF := fieldAddrInfo(ld.X)
		if !okF || rootOfAddr(ld.X) != ssa.Value(lc) {
			return
		}
		for _, r := range refs(ld) {
			switch x := r.(type) {
			case *ssa.Store:
				if t, _, _, okS := fieldAddrInfo(x.Addr); okS && x.Val == ssa.Value(ld) && strings.HasSuffix(t, "activeListener") {
					applied[f] = ld.Pos()
				}
			case ssa.CallInstruction:
				if strings.HasPrefix(methodName(x.Common()), "Set") && x.Common().IsInvoke() {
					applied[f] = ld.Pos()
				}
			}
		}
	})
	var names []string
	for f := range applied {
		names = append(names, f)
	}
	sort.Strings(names)
	for _, f := range names {
		c.Check(rule, funcKey(fn)+":applied-is-recorded:"+f, applied[f], recorded[f], "lc."+f+" is applied and stored into the recorded configuration",
			"the update applies lc."+f+" to the live listener but does not store it into the listener's recorded configuration: the configuration dump (and the state a restart or a later update starts from) keeps the old value while the new one is in effect")
	}
}

// ---------------------------------------------------------------------------------------------------------------------
// C13.R20 (S97a): tls that is configured but whose secrets did not arrive yet is not plaintext. Enabled() of the client
// side manager does not depend on the provider being ready (a host derives SupportTLS from it), and Conn only hands
// the connection to tls.Client for a ready provider and fails otherwise.
func c13PendingProviderIsNotPlaintext(c *Ctx) {
	const rule = "C13.R20"
	c.Rule(rule, "a cluster whose tls secrets have not arrived does not connect in plaintext: Enabled() ignores readiness, Conn fails until ready", 3)
	pkg := "pkg/mtls"
	en := c.M(pkg, "clientContextManager", "Enabled")
	conn := c.M(pkg, "clientContextManager", "Conn")
	if en == nil || conn == nil {
		c.Unresolved(rule, "clientContextManager.Enabled / Conn")
		return
	}
	rd := callsIn(en, false, calledAs("Ready"))
	pos := en.Pos()
	if len(rd) > 0 {
		pos = rd[0].Instr.Pos()
	}
	c.Check(rule, funcKey(en)+":configured-not-ready", pos, len(rd) == 0, "Enabled() does not ask the provider whether it is ready",
		"Enabled() is false while the sds secrets are pending: a host of a cluster with tls configured reports SupportTLS() false and connects without tls, the upstream is neither encrypted nor verified")
	clients := callsIn(conn, false, func(cc *ssa.CallCommon) bool { return strings.HasSuffix(calleeName(cc), "tls.Client") })
	if len(clients) == 0 {
		c.Fail(rule, funcKey(conn)+":handshake-needs-ready", conn.Pos(), "no tls.Client call found in Conn")
		return
	}
	isReady := func(v ssa.Value) bool {
		call, ok := v.(*ssa.Call)
		return ok && methodName(call.Common()) == "Ready"
	}
	for _, cs := range clients {
		ok := false
		for _, g := range guardsAt(cs.Instr.Block()) {
			if isReady(g.Cond) && g.True {
				ok = true
			}
			if u, isU := g.Cond.(*ssa.UnOp); isU && u.Op == token.NOT && isReady(u.X) && !g.True {
				ok = true
			}
		}
		c.Check(rule, funcKey(conn)+":handshake-needs-ready", cs.Instr.Pos(), ok, "tls.Client is called only for a ready provider",
			"Conn hands the connection to tls.Client without testing provider.Ready(): the tls config of a pending provider is empty")
	}
	// the not-ready edge returns an error, never the plain connection
	n := 0
	for _, b := range conn.Blocks {
		ifi, ok := b.Instrs[len(b.Instrs)-1].(*ssa.If)
		if !ok {
			continue
		}
		var notReady *ssa.BasicBlock
		if isReady(ifi.Cond) {
			notReady = b.Succs[1]
		} else if u, isU := ifi.Cond.(*ssa.UnOp); isU && u.Op == token.NOT && isReady(u.X) {
			notReady = b.Succs[0]
		}
		if notReady == nil {
			continue
		}
		for rb := range reachWithin(notReady, nil) {
			ret, isR := rb.Instrs[len(rb.Instrs)-1].(*ssa.Return)
			if !isR || !notReady.Dominates(rb) || len(ret.Results) != 2 {
				continue
			}
			n++
			c.Check(rule, funcKey(conn)+":not-ready-fails", ret.Pos(), isNilConst(unspill(ret, 0)) && !isNilConst(unspill(ret, 1)), "a pending provider makes Conn return an error",
				"Conn returns a usable connection for a provider that is not ready: it is the plain connection, the cluster talks plaintext where tls is configured")
		}
	}
	if n == 0 {
		c.Fail(rule, funcKey(conn)+":not-ready-fails", conn.Pos(), "no return on the not-ready edge of Conn found")
	}
}

// C13.R21 (S97b): a cluster manager tls config that cannot be built fails closed. On the error edge of
// NewTLSClientContextManager, UpdateTLSManager still installs a manager (the invalid one): no path returns without the Store.
func c13FailedManagerUpdateFailsClosed(c *Ctx) {
	const rule = "C13.R21"
	c.Rule(rule, "a cluster manager tls config that cannot be built installs the failing manager, it does not leave plaintext in place", 1)
	fn := c.M("pkg/upstream/cluster", "clusterManager", "UpdateTLSManager")
	if fn == nil {
		c.Unresolved(rule, "clusterManager.UpdateTLSManager")
		return
	}
	mk := callsIn(fn, false, calledAs("NewTLSClientContextManager"))
	if len(mk) != 1 {
		c.Fail(rule, funcKey(fn)+":error-installs-invalid-manager", fn.Pos(), fmt.Sprintf("expected one NewTLSClientContextManager call, found %d", len(mk)))
		return
	}
	call, _ := mk[0].Instr.(*ssa.Call)
	edges := errEdgesOf(call)
	if call == nil || len(edges) == 0 {
		c.Fail(rule, funcKey(fn)+":error-installs-invalid-manager", fn.Pos(), "the error of NewTLSClientContextManager is not tested")
		return
	}
	isStore := func(in ssa.Instruction) bool {
		ci, ok := in.(ssa.CallInstruction)
		if !ok || methodName(ci.Common()) != "Store" || len(ci.Common().Args) == 0 {
			return false
		}
		_, f, _, okF := fieldAddrInfo(ci.Common().Args[0])
		return okF && f == "tlsMng"
	}
	for _, e := range edges {
		w := existsPathFrom(e, isReturn, isStore)
		pos := call.Pos()
		if w != nil {
			pos = w.Pos()
		}
		c.Check(rule, funcKey(fn)+":error-installs-invalid-manager", pos, w == nil, "the error edge reaches tlsMng.Store on every path",
			"UpdateTLSManager returns on a config that cannot be built without installing a manager: at start the manager stays nil and every cluster that relies on it connects in plaintext; on an update the previous config stays in force silently")
	}
}

// C13.R22 (S97c): connections are shared between clusters by address and tls hash. The hash reads every field of the tls
// config that decides how the peer is verified.
func c13HashCoversVerification(c *Ctx) {
	const rule = "C13.R22"
	c.Rule(rule, "the tls hash that keys connection pools reads the fields that decide how the upstream is verified", 4)
	fn := c.M("pkg/mtls", "defaultConfigHooks", "GenerateHashValue")
	if fn == nil {
		c.Unresolved(rule, "defaultConfigHooks.GenerateHashValue")
		return
	}
	read := map[string]bool{}
	forEachInstr(fn, true, func(_ *ssa.Function, in ssa.Instruction) {
		if fa, ok := in.(*ssa.FieldAddr); ok {
			if t, f, _, okF := fieldAddrInfo(fa); okF && strings.HasSuffix(t, "tls.Config") {
				for _, r := range refs(fa) {
					if u, isU := r.(*ssa.UnOp); isU && u.Op == token.MUL {
						read[f] = true
					}
				}
			}
		}
	})
	for _, f := range []string{"InsecureSkipVerify", "RootCAs", "ServerName", "VerifyPeerCertificate"} {
		c.Check(rule, funcKey(fn)+":hash-reads:"+f, fn.Pos(), read[f], "the hash reads cfg."+f,
			"the tls hash does not read cfg."+f+": two clusters on one address that differ only in it get the same hash, so the pool (and the established connections) of a cluster that does not verify its upstream is handed to the cluster that does")
	}
}

// ---------------------------------------------------------------------------------------------------------------------
// C15.R17 (S88): subset values and host values are converted alike. The default subset of a cluster and the metadata of
// its hosts are compared as strings; both come from protobuf values and are converted with the same accessor
// (GetStringValue). The text form of a value (`string_value:"v1"`) never matches a host, and the envoy.lb struct itself is
// not a metadata entry.
func c15SubsetValuesConvertedLikeHostValues(c *Ctx) {
	const rule = "C15.R17"
	c.Rule(rule, "xds subset values and host metadata values are converted with the same accessor; the envoy.lb struct is no entry of its own", 3)
	pkg := "istio/istio1106/xds/conv"
	ts := c.F(pkg, "convertTypesStruct")
	cm := c.F(pkg, "convertMeta")
	if ts == nil || cm == nil {
		c.Unresolved(rule, "conv.convertTypesStruct / convertMeta")
		return
	}
	accessor := func(v ssa.Value) string {
		if call, ok := v.(*ssa.Call); ok {
			return methodName(call.Common())
		}
		return ""
	}
	n := 0
	forEachInstr(ts, false, func(_ *ssa.Function, in ssa.Instruction) {
		if mu, ok := in.(*ssa.MapUpdate); ok {
			n++
			a := accessor(mu.Value)
			c.Check(rule, funcKey(ts)+":subset-value-accessor", mu.Pos(), a == "GetStringValue", "default subset values are taken with GetStringValue",
				"the default subset's values are taken with "+a+"(): the text form of a protobuf value (string_value:\"v1\") equals no host's metadata value, the default subset is empty and the fallback never finds a host")
		}
	})
	if n == 0 {
		c.Fail(rule, funcKey(ts)+":subset-value-accessor", ts.Pos(), "no map update found in convertTypesStruct")
	}
	isLbGuard := func(g Guard) (bool, bool) { // (is a test of the key against "envoy.lb", the edge taken means "equal")
		b, ok := g.Cond.(*ssa.BinOp)
		if !ok || (b.Op != token.EQL && b.Op != token.NEQ) {
			return false, false
		}
		for _, side := range []ssa.Value{b.X, b.Y} {
			if s, isS := constStringVal(side); isS && s == "envoy.lb" {
				return true, (b.Op == token.EQL) == g.True
			}
		}
		return false, false
	}
	nLb, nOther := 0, 0
	forEachInstr(cm, false, func(_ *ssa.Function, in ssa.Instruction) {
		mu, ok := in.(*ssa.MapUpdate)
		if !ok {
			return
		}
		inLb, notLb := false, false
		for _, g := range guardsAt(mu.Block()) {
			if is, eq := isLbGuard(g); is {
				if eq {
					inLb = true
				} else {
					notLb = true
				}
			}
		}
		a := accessor(mu.Value)
		if inLb {
			nLb++
			c.Check(rule, funcKey(cm)+":host-value-accessor", mu.Pos(), a == "GetStringValue", "envoy.lb values are taken with GetStringValue", "the values of the envoy.lb metadata are taken with "+a+"() while the subset values use GetStringValue: they never compare equal")
			return
		}
		nOther++
		c.Check(rule, funcKey(cm)+":lb-struct-is-no-entry", mu.Pos(), notLb, "the whole-struct entry is stored only for keys other than envoy.lb",
			"after the envoy.lb fields are copied the loop falls through and also stores the whole struct's text under the key \"envoy.lb\": every host gets a metadata entry no subset selector describes, and a selector on that key would compare struct text")
	})
	if nLb == 0 {
		c.Fail(rule, funcKey(cm)+":host-value-accessor", cm.Pos(), "no map update under key == \"envoy.lb\" found in convertMeta")
	}
}

// ---------------------------------------------------------------------------------------------------------------------
// C16.R6 (S69): a check keeps its id until it has its result. The session checker takes a new check id only after the
// check in progress was answered or timed out (HandleSuccess / HandleFailure ran); an ignored response or an ignored
// timeout leaves the id alone, otherwise the real response of the check in progress is taken for an expired one and the
// check ends in a timeout although the host answered.
func c16NewIDOnlyAfterResult(c *Ctx) {
	const rule = "C16.R6"
	c.Rule(rule, "the session checker takes a new check id only after the check in progress has its result", 1)
	fn := c.M("pkg/upstream/healthcheck", "sessionChecker", "Start")
	if fn == nil {
		c.Unresolved(rule, "sessionChecker.Start")
		return
	}
	var adds []ssa.Instruction
	for _, cs := range callsIn(fn, false, func(cc *ssa.CallCommon) bool { return isAtomicCall(cc, "Add") }) {
		if _, f, _, ok := fieldAddrInfo(cs.Instr.Common().Args[0]); ok && f == "checkID" {
			adds = append(adds, cs.Instr)
		}
	}
	if len(adds) != 1 {
		c.Fail(rule, funcKey(fn)+":new-id-after-result", fn.Pos(), fmt.Sprintf("expected one atomic add on checkID in Start, found %d", len(adds)))
		return
	}
	add := adds[0]
	handled := func(in ssa.Instruction) bool {
		ci, ok := in.(ssa.CallInstruction)
		return ok && (methodName(ci.Common()) == "HandleSuccess" || methodName(ci.Common()) == "HandleFailure")
	}
	w := boolFlagPath(add, func(in ssa.Instruction) bool { return in == add }, handled)
	c.Check(rule, funcKey(fn)+":new-id-after-result", add.Pos(), w == nil, "every way back to the id increment passes HandleSuccess / HandleFailure",
		"the checker can take a new check id although the check in progress got no result (an expired response or timeout was only ignored): the response of the check in progress then carries an old id, is ignored too, and the check runs into its timeout although the host answered - a healthy host is counted as failed")
}

// ---------------------------------------------------------------------------------------------------------------------
// C03.R17 (S94): the local reply that the sender filters have just passed is sent. In the direct-response branch of
// processError a return either diverts the phases (UpFilter / Oneway) or lets them go on with no error; the error an
// upstream reset left in the named result must not end the phases there, or the reply is never sent and the stream never
// cleaned.
func c03DirectResponseAfterFiltersGoesOn(c *Ctx) {
	const rule = "C03.R17"
	c.Rule(rule, "processError lets the phases go on (or diverts them) for a direct response: no return of the branch ends them with an error", 3)
	fn := c.M("pkg/proxy", "downStream", "processError")
	if fn == nil {
		c.Unresolved(rule, "downStream.processError")
		return
	}
	end, ok := pkgConstOf(fn, "pkg/types", "End")
	if !ok {
		c.Unresolved(rule, "types.End")
		return
	}
	ord := ordCounter{}
	for _, in := range instrsWhere(fn, isReturn) {
		ret := in.(*ssa.Return)
		inBranch := false
		for _, g := range guardsAt(ret.Block()) {
			if _, f, _, okF := loadedField(g.Cond); okF && f == "directResponse" && g.True {
				inBranch = true
			}
		}
		if !inBranch || len(ret.Results) != 2 {
			continue
		}
		ph, isK := constInt(unspill(ret, 0))
		diverts := isK && ph != end
		c.Check(rule, ord.next(fn, "direct-response-return"), ret.Pos(), diverts || isNilConst(unspill(ret, 1)), "the return diverts the phases or carries no error",
			"a return of the direct-response branch can hand back phase End together with the error an earlier branch (upstream reset) left in the named result: receive stops, the local reply that just passed the sender filters is never sent and the stream is never cleaned")
	}
}

// C03.R18 (S72): a request whose phase loop runs out of rounds still ends. From the exit of the loop by its counter, every
// path to the end of the task runs one more round of the phase machine or cleans the stream, unless the phase is End; and
// when that last round does not end the stream, the stream is cleaned.
func c03ExhaustedLoopEndsTheStream(c *Ctx) {
	const rule = "C03.R18"
	c.Rule(rule, "a request whose phase loop runs out of rounds gets its terminal round and is cleaned", 2)
	on := c.M("pkg/proxy", "downStream", "OnReceive")
	recv := c.M("pkg/proxy", "downStream", "receive")
	if on == nil || recv == nil {
		c.Unresolved(rule, "downStream.OnReceive / receive")
		return
	}
	var task *ssa.Function
	for _, a := range on.AnonFuncs {
		if len(callsIn(a, false, func(cc *ssa.CallCommon) bool { return cc.StaticCallee() == recv })) > 0 {
			task = a
		}
	}
	if task == nil {
		c.Unresolved(rule, "the task closure of OnReceive that calls receive")
		return
	}
	end, ok := pkgConstOf(task, "pkg/types", "End")
	if !ok {
		c.Unresolved(rule, "types.End")
		return
	}
	// the counted loop: its header ends in a comparison of a header phi with a constant
	var exit *ssa.BasicBlock
	var body map[*ssa.BasicBlock]bool
	for h, bd := range naturalLoops(task) {
		ifi, isIf := h.Instrs[len(h.Instrs)-1].(*ssa.If)
		if !isIf {
			continue
		}
		bo, isB := ifi.Cond.(*ssa.BinOp)
		if !isB {
			continue
		}
		if _, isK := constInt(bo.Y); !isK {
			continue
		}
		if phi, isPhi := bo.X.(*ssa.Phi); !isPhi || phi.Block() != h {
			continue
		}
		for _, s := range h.Succs {
			if !bd[s] {
				exit, body = s, bd
			}
		}
	}
	if exit == nil {
		c.Unresolved(rule, "the counted phase loop of OnReceive")
		return
	}
	// edges on which the stream is known to have ended (a Phase compared with End, equal edge) or to belong to another
	// request by now (id != current id) are not followed
	edgeOK := func(from, to *ssa.BasicBlock) bool {
		ifi, isIf := from.Instrs[len(from.Instrs)-1].(*ssa.If)
		if !isIf || from.Succs[0] == from.Succs[1] {
			return true
		}
		bo, isB := ifi.Cond.(*ssa.BinOp)
		if !isB || (bo.Op != token.EQL && bo.Op != token.NEQ) {
			return true
		}
		takenEq := (from.Succs[0] == to) == (bo.Op == token.EQL)
		if k, isK := constInt(bo.Y); isK && k == end && strings.HasSuffix(bo.X.Type().String(), "Phase") {
			return !takenEq
		}
		for _, side := range []ssa.Value{bo.X, bo.Y} {
			if call, isC := side.(*ssa.Call); isC && isAtomicCall(call.Common(), "Load") {
				return takenEq
			}
		}
		return true
	}
	ends := func(in ssa.Instruction) bool {
		ci, isC := in.(ssa.CallInstruction)
		return isC && (ci.Common().StaticCallee() == recv || methodName(ci.Common()) == "cleanStream")
	}
	w := existsPathFromEdges(exit, isReturn, ends, edgeOK)
	pos := exit.Instrs[0].Pos()
	if w != nil && w.Pos().IsValid() {
		pos = w.Pos()
	}
	c.Check(rule, funcKey(on)+":exhausted-loop-ends-stream", pos, w == nil, "after the last round the task runs the terminal round or cleans the stream",
		"when the ten rounds of the phase loop are used up the task just ends: no reply is sent, the stream is not cleaned, it stays in the active list and in the gauges for ever")
	n := 0
	for _, cs := range callsIn(task, false, func(cc *ssa.CallCommon) bool { return cc.StaticCallee() == recv }) {
		if body[cs.Instr.Block()] {
			continue
		}
		n++
		clean := func(in ssa.Instruction) bool {
			ci, isC := in.(ssa.CallInstruction)
			return isC && methodName(ci.Common()) == "cleanStream"
		}
		w2 := existsPathEdges(task, cs.Instr, isReturn, clean, edgeOK)
		c.Check(rule, funcKey(on)+":terminal-round-cleans", cs.Instr.Pos(), w2 == nil, "a terminal round that does not end the stream is followed by cleanStream",
			"the terminal round after the loop can return a phase other than End and the task ends without cleaning the stream")
	}
	if n == 0 {
		c.Fail(rule, funcKey(on)+":terminal-round-cleans", on.Pos(), "no call of receive after the phase loop")
	}
}

// ---------------------------------------------------------------------------------------------------------------------
// C01.R18 (S91): the copy of a frame is complete or not in the same way as the frame. The xprotocol encoders take a non-nil
// rawData for the complete frame and forward it; Clone gives the copy a rawData only when the frame has one (a frame
// built locally, or one whose body was replaced, has none: an empty non-nil copy would be forwarded as the frame).
func c01CloneKeepsRawDataNilness(c *Ctx) {
	const rule = "C01.R18"
	c.Rule(rule, "Clone of a frame gives the copy a raw frame only when the original retains one", 2)
	n := 0
	var fns []*ssa.Function
	for fn := range c.all {
		if fn.Name() == "Clone" && fn.Pkg != nil && strings.Contains(fn.Pkg.Pkg.Path(), "/pkg/protocol/xprotocol/") && fn.Synthetic == "" && len(fn.Blocks) > 0 {
			fns = append(fns, fn)
		}
	}
	sort.Slice(fns, func(i, j int) bool { return funcKey(fns[i]) < funcKey(fns[j]) })
	for _, fn := range fns {
		for _, st := range storesToField(fn, "", "rawData", false) {
			if isNilConst(st.Val) {
				continue
			}
			n++
			ok := false
			for _, g := range guardsAt(st.Block()) {
				b, isB := g.Cond.(*ssa.BinOp)
				if !isB {
					continue
				}
				for _, pr := range [][2]ssa.Value{{b.X, b.Y}, {b.Y, b.X}} {
					if _, f, base, okF := loadedField(pr[0]); okF && f == "rawData" && isNilConst(pr[1]) && len(fn.Params) > 0 && sameParam(rootOfAddr(base), fn.Params[0]) {
						if (b.Op == token.NEQ && g.True) || (b.Op == token.EQL && !g.True) {
							ok = true
						}
					}
				}
			}
			c.Check(rule, funcKey(fn)+":raw-frame-only-if-retained", st.Pos(), ok, "the copy's rawData is allocated under r.rawData != nil",
				"Clone always gives the copy a non-nil rawData: for a frame without a retained raw frame (built locally, or body replaced by SetData) the copy's rawData is empty but non-nil, the encoder takes it for the complete frame and writes its id into it - a panic on the empty slice, or a frame without the replaced body")
		}
	}
	if n == 0 {
		c.Fail(rule, "pkg/protocol/xprotocol:raw-frame-only-if-retained", token.NoPos, "no Clone storing a rawData found")
	}
}

// C01.R19 (S90): an unmodified tars package is forwarded as received. Both tars encoders first try the received bytes
// (with the request id replaced) and return them; re-encoding from the decoded packet, which knows only the fields of its
// struct, comes after.
func c01TarsForwardsReceivedPackage(c *Ctx) {
	const rule = "C01.R19"
	c.Rule(rule, "the tars encoders forward the received package when there is one, before any re-encoding from the decoded packet", 2)
	pkg := "pkg/protocol/xprotocol/tars"
	for _, name := range []string{"encodeRequest", "encodeResponse"} {
		fn := c.F(pkg, name)
		if fn == nil {
			c.Unresolved(rule, "tars."+name)
			continue
		}
		var fwd *ssa.Call
		for _, cs := range callsIn(fn, false, func(cc *ssa.CallCommon) bool { return cc.StaticCallee() != nil && cc.StaticCallee().Pkg == fn.Pkg }) {
			call, ok := cs.Instr.(*ssa.Call)
			if !ok {
				continue
			}
			for _, a := range call.Common().Args {
				if _, f, _, okF := loadedField(a); okF && f == "rawData" {
					fwd = call
				}
			}
		}
		ok := fwd != nil
		why := "no call takes the received bytes (rawData) of the frame"
		if ok {
			returned := false
			for _, in := range instrsWhere(fn, isReturn) {
				ret := in.(*ssa.Return)
				if len(ret.Results) > 0 && unspill(ret, 0) == ssa.Value(fwd) {
					for _, g := range guardsAt(ret.Block()) {
						if b, isB := g.Cond.(*ssa.BinOp); isB && (b.X == ssa.Value(fwd) || b.Y == ssa.Value(fwd)) && ((b.Op == token.NEQ && g.True) || (b.Op == token.EQL && !g.True)) {
							returned = true
						}
					}
				}
			}
			if !returned {
				ok, why = false, "the bytes built from the received package are not returned on their non-nil edge"
			}
			for _, cs := range callsIn(fn, false, calledAs("WriteTo")) {
				if !instrDominates(fwd, cs.Instr) {
					ok, why = false, "the packet is re-encoded (WriteTo) on a path that did not try the received package first"
				}
			}
		}
		c.Check(rule, funcKey(fn)+":forwards-received-package", fn.Pos(), ok, "the received package is tried first and returned",
			why+": every package is rebuilt from the decoded struct, which drops the fields the struct does not know and changes the encoding of the others, so a proxied tars request does not reach the upstream as the client sent it")
	}
}

// C01.R13 on HTTP/2 (S92): an empty query is still a query there too. The server side sets the query variable for an empty
// query that the target carried (URL.ForceQuery), and the client side rebuilds the '?' from the presence of the variable.
func c01EmptyQueryIsAQueryHTTP2(c *Ctx) {
	const rule = "C01.R13"
	pkg := "pkg/stream/http2"
	hf := c.M(pkg, "serverStreamConnection", "handleFrame")
	ah := c.M(pkg, "clientStream", "AppendHeaders")
	if hf == nil || ah == nil {
		c.Unresolved(rule, "http2 serverStreamConnection.handleFrame / clientStream.AppendHeaders")
		return
	}
	qv, ok := pkgStringConstOf(hf, "pkg/types", "VarQueryString")
	if !ok {
		c.Unresolved(rule, "types.VarQueryString")
		return
	}
	isVarCall := func(name string) func(cc *ssa.CallCommon) bool {
		return func(cc *ssa.CallCommon) bool {
			if !strings.HasSuffix(calleeName(cc), "variable."+name) || len(cc.Args) < 2 {
				return false
			}
			s, ok := constStringVal(stripIface(cc.Args[1]))
			return ok && s == qv
		}
	}
	sets := callsIn(hf, false, isVarCall("SetString"))
	if len(sets) == 0 {
		c.Fail(rule, funcKey(hf)+":query-variable-set-when-present", hf.Pos(), "no variable.SetString(ctx, VarQueryString, ..) found")
	}
	for _, cs := range sets {
		onlyNonEmpty := false
		for _, g := range guardsAt(cs.Instr.Block()) {
			b, isB := g.Cond.(*ssa.BinOp)
			if !isB {
				continue
			}
			for _, pr := range [][2]ssa.Value{{b.X, b.Y}, {b.Y, b.X}} {
				_, f, _, okF := loadedField(pr[0])
				s, isS := constStringVal(pr[1])
				if okF && f == "RawQuery" && isS && s == "" && ((b.Op == token.NEQ && g.True) || (b.Op == token.EQL && !g.True)) {
					onlyNonEmpty = true
				}
			}
		}
		c.Check(rule, funcKey(hf)+":query-variable-set-when-present", cs.Instr.Pos(), !onlyNonEmpty,
			"the query variable is not set for a non-empty query only",
			"the query variable is set only when the query string is non-empty: an http2 request target with an empty query (\"/path?\") is forwarded as \"/path\"")
	}
	gets := callsIn(ah, false, isVarCall("GetString"))
	if len(gets) != 1 {
		c.Fail(rule, funcKey(ah)+":question-mark-on-presence", ah.Pos(), fmt.Sprintf("expected one variable.GetString(ctx, VarQueryString), found %d", len(gets)))
		return
	}
	get := gets[0].Instr.(*ssa.Call)
	fromErr := false
	for _, st := range storesToField(ah, "URL", "ForceQuery", false) {
		seen := map[ssa.Value]bool{}
		var walk func(v ssa.Value)
		walk = func(v ssa.Value) {
			if seen[v] {
				return
			}
			seen[v] = true
			switch x := v.(type) {
			case *ssa.Extract:
				if x.Tuple == ssa.Value(get) && x.Index == 1 {
					fromErr = true
				}
			case *ssa.Phi:
				// a short-circuit `a && b`: the conditions that select the edges count too
				for _, e := range x.Edges {
					walk(e)
				}
				for _, p := range x.Block().Preds {
					for _, g := range edgeGuards(p, x.Block()) {
						walk(g.Cond)
					}
				}
			case *ssa.BinOp:
				walk(x.X)
				walk(x.Y)
			case *ssa.UnOp:
				walk(x.X)
			}
		}
		walk(st.Val)
	}
	c.Check(rule, funcKey(ah)+":question-mark-on-presence", get.Pos(), fromErr, "URL.ForceQuery is decided on the lookup's error",
		"the upstream http2 URL does not get ForceQuery from the presence of the query variable: an empty query that the request carried loses its '?' on the way to the upstream")
}

// ---------------------------------------------------------------------------------------------------------------------
// C18.W18 (S75): frames of an unknown type are ignored (RFC 7540 section 4.1). In both HandleFrame functions the default arm
// of the switch on the frame type leaves the error nil: an extension frame must not end the connection.
func c18UnknownFrameIgnored(c *Ctx) {
	const rule = "C18.W18"
	c.Rule(rule, "a frame of an unknown type is ignored: the default arm of the frame type switch sets no error", 2)
	pkg := "pkg/module/http2"
	errT := types.Universe.Lookup("error").Type()
	for _, recv := range []string{"MServerConn", "MClientConn"} {
		fn := c.M(pkg, recv, "HandleFrame")
		if fn == nil {
			c.Unresolved(rule, recv+".HandleFrame")
			continue
		}
		// the chain of `f.(type)` tests: Ifs on the ok of a comma-ok TypeAssert of one value
		var def []*ssa.BasicBlock
		for _, b := range fn.Blocks {
			ifi, isIf := b.Instrs[len(b.Instrs)-1].(*ssa.If)
			if !isIf {
				continue
			}
			ex, isEx := ifi.Cond.(*ssa.Extract)
			if !isEx {
				continue
			}
			ta, isTA := ex.Tuple.(*ssa.TypeAssert)
			if !isTA || !ta.CommaOk || !strings.HasSuffix(ta.X.Type().String(), "http2.Frame") {
				continue
			}
			next := b.Succs[1]
			more := false
			for _, in := range next.Instrs {
				if ta2, ok := in.(*ssa.TypeAssert); ok && ta2.X == ta.X {
					more = true
				}
			}
			// the last link of a chain of at least two tests (a lone `if x, ok := f.(*T)` is no type switch)
			chained := false
			for _, p := range b.Preds {
				if pi, ok := p.Instrs[len(p.Instrs)-1].(*ssa.If); ok && len(p.Succs) == 2 && p.Succs[1] == b {
					if pe, ok := pi.Cond.(*ssa.Extract); ok {
						if pt, ok := pe.Tuple.(*ssa.TypeAssert); ok && pt.X == ta.X {
							chained = true
						}
					}
				}
			}
			if !more && chained {
				def = append(def, next)
			}
		}
		if len(def) != 1 {
			c.Fail(rule, funcKey(fn)+":default-arm-sets-no-error", fn.Pos(), fmt.Sprintf("expected one default arm of the frame type switch, found %d", len(def)))
			continue
		}
		d := def[0]
		n := 0
		bad := token.NoPos
		for _, b := range fn.Blocks {
			for _, in := range b.Instrs {
				phi, ok := in.(*ssa.Phi)
				if !ok {
					break
				}
				if !types.Identical(phi.Type(), errT) {
					continue
				}
				for i, p := range b.Preds {
					if p == d || d.Dominates(p) {
						n++
						if !isNilConst(phi.Edges[i]) {
							bad = nearestPos(p.Instrs[len(p.Instrs)-1])
						}
					}
				}
			}
		}
		if n == 0 {
			c.Fail(rule, funcKey(fn)+":default-arm-sets-no-error", fn.Pos(), "the error of HandleFrame does not merge with the default arm of the frame type switch")
			continue
		}
		pos := fn.Pos()
		if bad.IsValid() {
			pos = bad
		}
		c.Check(rule, funcKey(fn)+":default-arm-sets-no-error", pos, !bad.IsValid(), "the default arm reaches the end of the switch with a nil error",
			"the default arm of the frame type switch sets an error: a frame of a type this implementation does not know (an extension frame, which peers may send at any time) ends the connection and every stream on it")
	}
}
