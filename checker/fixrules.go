package main

import (
	"fmt"
	"go/constant"
	"go/token"
	"go/types"
	"sort"
	"strings"

	"golang.org/x/tools/go/ssa"
)

// Clauses added with the repairs of the round-10 side findings (DESIGN.md §5 rows 31-57). Each clause is the structural
// necessary condition whose absence was the defect; each has a reverting mutant in /verif/mutants.

func calledAs(n string) func(cc *ssa.CallCommon) bool {
	return func(cc *ssa.CallCommon) bool { return methodName(cc) == n }
}

// pkgConstOf: the integer value of constant `name` of the package with path suffix pkgSuffix imported by fn's package.
func pkgConstOf(fn *ssa.Function, pkgSuffix, name string) (int64, bool) {
	if fn.Pkg == nil {
		return 0, false
	}
	for _, imp := range fn.Pkg.Pkg.Imports() {
		if strings.HasSuffix(imp.Path(), pkgSuffix) {
			if k, ok := imp.Scope().Lookup(name).(*types.Const); ok {
				if n, exact := constant.Int64Val(constant.ToInt(k.Val())); exact {
					return n, true
				}
			}
		}
	}
	return 0, false
}

func runFixRules(c *Ctx, spec *PropSpec) {
	switch spec.ID {
	case "C06":
		c06WeightedTriesCoverWeightRange(c)
	case "C15":
		c15CombinationIndexInRange(c)
	case "C12":
		c12ListenerRemovalRecorded(c)
		c12RejectedListenerUpdateHasNoEffect(c)
	case "C19":
		c19StoredClusterManagerKeepsScalars(c)
	case "C14":
		c14LocalReplyCancelsPendingRerun(c)
		c14PassOfAnotherPhaseStartsAtFirstFilter(c)
		c14CursorNotWrittenAfterHandler(c)
	case "C10":
		c10DecodeErrorDrivesTheStream(c)
		c10NoStreamCallbackUnderStreamTableLock(c)
		c10HalfSentOnewayIsReset(c)
		c10StreamBornUnderTheCloseLock(c)
	case "C03":
		c03SentFlagImpliesDeadline(c)
		c03RetriesDoNotConsumePhaseRounds(c)
	case "C16":
		c16TimeoutAttributedToItsCheck(c)
	case "C13":
		c13ProviderIndexPerContext(c)
		c13UnusableClusterTLSFailsClosed(c)
		c13MatchedNamesLowerCased(c)
		c13PlaintextOnlyWithoutTLSOrWithInspector(c)
	case "C20":
		c20RawSectionsRedacted(c)
		c20RawStaticResourcesRedacted(c)
		c20EnvoyDumpHasARedactor(c)
	case "C01":
		c01EmptyQueryIsAQuery(c)
		c01HeadDecidedByTheRequestSent(c)
		c01HeadResponseKeepsContentLength(c)
		c01ThriftOnewayIsARequest(c)
	case "C02":
		c02LeftoverUpstreamBytesRetireConnection(c)
	case "C11":
		c11NoZeroPrefixedHandOverBuffer(c)
		c11HostlessListenerInheritsWildcard(c)
		c11InFlightTrailersAfterGoAway(c)
		c11HandedOverUnixListenerKeepsItsPath(c)
		c11PoolShutdownOutsideItsLock(c)
		c11DrainCounterNotExcludable(c)
	case "C18":
		c18EmptyHeaderFragmentAccepted(c)
		c18PeerHeaderTableSizeApplied(c)
	case "C08":
		c08StreamErrorConsumesItsFrame(c)
		c08ServerCallbacksOnlyWhereTheyExist(c)
		c08TarsImpossibleLengthFails(c)
	case "C17":
		c17ConfiguredRetriesUsedAsIs(c)
		c17EveryRuleFinalizesWithTheBase(c)
		c17RewriteAgreesWithMatchOnCase(c)
		c17RewritePatternStoredWheneverApplied(c)
	case "C04":
		c04FastIndexKeepsFirst(c)
	}
}

// ---------------------------------------------------------------------------------------------------------------------
// C06.R8 (S16): the weighted pick falls back to the unweighted scan only after hosts x (MaxHostWeight/MinHostWeight)
// scheduler picks: between two picks of one host every other host is picked at most max/min times, so fewer tries can all
// be spent on one heavy unhealthy host and the healthy hosts then lose their configured proportions.
func c06WeightedTriesCoverWeightRange(c *Ctx) {
	const rule = "C06.R8"
	c.Rule(rule, "the weighted pick gives up on the weights only after hosts x (max weight / min weight) scheduler picks", 1)
	fn := c.M("pkg/upstream/cluster", "EdfLoadBalancer", "ChooseHost")
	if fn == nil {
		c.Unresolved(rule, "EdfLoadBalancer.ChooseHost")
		return
	}
	maxW, ok1 := pkgConstOf(fn, "pkg/config/v2", "MaxHostWeight")
	minW, ok2 := pkgConstOf(fn, "pkg/config/v2", "MinHostWeight")
	if !ok1 || !ok2 || minW <= 0 {
		c.Unresolved(rule, "v2.MaxHostWeight / v2.MinHostWeight")
		return
	}
	need := maxW / minW
	picks := callsIn(fn, false, calledAs("NextAndPush"))
	n := 0
	loops := naturalLoops(fn)
	for _, cs := range picks {
		var header *ssa.BasicBlock
		var body map[*ssa.BasicBlock]bool
		for h, b := range loops {
			if b[cs.Instr.Block()] && (body == nil || len(b) < len(body)) {
				header, body = h, b
			}
		}
		if header == nil {
			continue
		}
		n++
		key := funcKey(fn) + ":weighted-tries"
		ifi, ok := header.Instrs[len(header.Instrs)-1].(*ssa.If)
		if !ok {
			c.Fail(rule, key, cs.Instr.Pos(), "the loop around the scheduler pick has no bound in its header")
			continue
		}
		bin, ok := ifi.Cond.(*ssa.BinOp)
		if !ok || bin.Op != token.LSS {
			c.Fail(rule, key, nearestPos(ifi), "the loop around the scheduler pick is not bounded by `i < tries`")
			continue
		}
		k, _ := sizeMultiple(bin.Y)
		c.Check(rule, key, nearestPos(ifi), k >= need,
			fmt.Sprintf("the weighted pick is tried %d x Size() times (weight range %d/%d)", k, maxW, minW),
			fmt.Sprintf("the weighted pick is tried only %d x Size() times before the unweighted fallback, the weight range is %d/%d: one unhealthy host of high weight can take all the tries, and the healthy hosts are then served by the unweighted scan instead of in proportion to their weights", k, maxW, minW))
	}
	if n == 0 {
		c.Fail(rule, funcKey(fn)+":weighted-tries", fn.Pos(), "no loop around scheduler.NextAndPush found")
	}
}

// ---------------------------------------------------------------------------------------------------------------------
// C15.R15 (S24): doMetadataCombination indexes keys[idx] unconditionally; every call site must establish idx < len(keys)
// (an empty selector key list made the pre-index builder panic while the filtering builder skips it).
func c15CombinationIndexInRange(c *Ctx) {
	const rule = "C15.R15"
	c.Rule(rule, "every call of the subset combination builder passes an index inside the key list (an empty selector describes no subset)", 2)
	pkg := "pkg/upstream/cluster"
	target := c.M(pkg, "subsetLoadBalancerBuilder", "doMetadataCombination")
	if target == nil {
		c.Unresolved(rule, "subsetLoadBalancerBuilder.doMetadataCombination")
		return
	}
	// does the callee itself guard the index?
	selfGuard := false
	{
		ba := newBA(c, target)
		for _, in := range instrsWhere(target, func(in ssa.Instruction) bool { _, ok := in.(*ssa.IndexAddr); return ok }) {
			ia := in.(*ssa.IndexAddr)
			if ia.X == ssa.Value(target.Params[1]) {
				selfGuard = ba.proveAt(ba.lenOf(ia.X).add(ba.lin(ia.Index), -1).add(linConst(1), -1), ia.Block(), 0)
			}
		}
	}
	ord := ordCounter{}
	for _, fn := range c.PkgFuncs(pkg) {
		for _, cs := range callsIn(fn, true, func(cc *ssa.CallCommon) bool { return cc.StaticCallee() == target }) {
			args := cs.Instr.Common().Args
			ba := newBA(c, cs.Fn)
			goal := ba.lenOf(args[1]).add(ba.lin(args[2]), -1).add(linConst(1), -1)
			ok := selfGuard || ba.proveAt(goal, cs.Instr.Block(), 0)
			c.Check(rule, ord.next(cs.Fn, "combination-index-in-range"), cs.Instr.Pos(), ok,
				"the index passed is below len(keys) on every path to the call",
				"doMetadataCombination is called with an index that is not shown to be below len(keys): it reads keys[idx] unconditionally, so a subset selector with an empty key list panics the pre-index subset builder (and every later host update) with index out of range")
		}
	}
}

// ---------------------------------------------------------------------------------------------------------------------
// C12.R4 (S3): removing a listener removes it from the stored configuration as well.
func c12ListenerRemovalRecorded(c *Ctx) {
	const rule = "C12.R4"
	fn := c.M("pkg/server", "connHandler", "RemoveListeners")
	if fn == nil {
		c.Unresolved(rule, "connHandler.RemoveListeners")
		return
	}
	// a function of configmanager that deletes from conf.Listener
	deleters := map[*ssa.Function]bool{}
	for _, f := range c.PkgFuncs("pkg/configmanager") {
		forEachInstr(f, false, func(_ *ssa.Function, in ssa.Instruction) {
			ci, ok := in.(ssa.CallInstruction)
			if !ok {
				return
			}
			if b, ok := ci.Common().Value.(*ssa.Builtin); ok && b.Name() == "delete" {
				if _, fld, _, ok := loadedField(ci.Common().Args[0]); ok && fld == "Listener" {
					deleters[f] = true
				}
			}
		})
	}
	live := storesToField(fn, "connHandler", "listeners", false)
	ok := false
	for _, st := range live {
		for _, cs := range callsIn(fn, false, func(cc *ssa.CallCommon) bool { return deleters[cc.StaticCallee()] }) {
			if cs.Instr.Block() == st.Block() && len(cs.Instr.Common().Args) == 1 && sameParam(cs.Instr.Common().Args[0], fn.Params[1]) {
				ok = true
			}
		}
	}
	c.Check(rule, funcKey(fn)+":delete-and-record", fn.Pos(), ok && len(live) > 0,
		"the listener is dropped from the handler and deleted from the stored configuration under the same name",
		"removing a listener does not delete it from the stored configuration: the dump and the persisted file keep the deleted listener, a restart or hot upgrade from that file brings it back")
}

// C12.R8 (S4): an update of an existing listener that is refused has replaced nothing. On every path on which an active
// listener of that name exists, no error return is reachable after a call that replaces the listener's filter factories.
func c12RejectedListenerUpdateHasNoEffect(c *Ctx) {
	const rule = "C12.R8"
	fn := c.M("pkg/server", "connHandler", "AddOrUpdateListener")
	if fn == nil {
		c.Unresolved(rule, "connHandler.AddOrUpdateListener")
		return
	}
	isReplace := func(cc *ssa.CallCommon) bool {
		n := methodName(cc)
		return strings.HasPrefix(n, "AddOrUpdate") && (strings.Contains(n, "Filter"))
	}
	replaces := callsIn(fn, false, isReplace)
	if len(replaces) == 0 {
		c.Fail(rule, funcKey(fn)+":replacements", fn.Pos(), "no AddOrUpdate*Filter* call found in AddOrUpdateListener")
		return
	}
	find := callsIn(fn, false, calledAs("findActiveListenerByName"))
	if len(find) != 1 {
		c.Fail(rule, funcKey(fn)+":lookup", fn.Pos(), fmt.Sprintf("expected one findActiveListenerByName call, found %d", len(find)))
		return
	}
	existing := find[0].Instr.(*ssa.Call)
	n := 0
	errOrd := map[string]int{}
	var rets []*ssa.Return
	for _, in := range instrsWhere(fn, isReturn) {
		rets = append(rets, in.(*ssa.Return))
	}
	sort.Slice(rets, func(i, j int) bool { return nearestPos(rets[i]) < nearestPos(rets[j]) })
	for _, ret := range rets {
		if len(ret.Results) != 2 || isNilConst(unspill(ret, 1)) {
			continue
		}
		// only error returns taken for an existing listener: guarded by `existing != nil`
		forExisting := false
		for _, g := range guardsAt(ret.Block()) {
			if b, ok := g.Cond.(*ssa.BinOp); ok && (b.X == ssa.Value(existing) || b.Y == ssa.Value(existing)) && (isNilConst(b.X) || isNilConst(b.Y)) {
				if (b.Op == token.NEQ && g.True) || (b.Op == token.EQL && !g.True) {
					forExisting = true
				}
			}
		}
		if !forExisting {
			continue
		}
		n++
		origin := "error"
		if call, ok := stripIface(unspill(ret, 1)).(*ssa.Call); ok {
			origin = calleeName(call.Common())
		} else if ex, ok := unspill(ret, 1).(*ssa.Extract); ok {
			if call, ok := ex.Tuple.(*ssa.Call); ok {
				origin = calleeName(call.Common())
			}
		}
		if i := strings.LastIndex(origin, "/"); i >= 0 {
			origin = origin[i+1:]
		}
		errOrd[origin]++
		key := fmt.Sprintf("%s:refused-update-replaced-nothing:%s#%d", funcKey(fn), origin, errOrd[origin])
		var after *CallSite
		for i := range replaces {
			r := replaces[i]
			if existsPath(fn, r.Instr, func(in ssa.Instruction) bool { return in == ssa.Instruction(ret) }, nil) != nil {
				after = &replaces[i]
				break
			}
		}
		if after == nil {
			c.Pass(rule, key, nearestPos(ret), "this refusal of an update is decided before anything of the listener is replaced")
		} else {
			c.Fail(rule, key, nearestPos(ret), "an update of an existing listener can be refused (error from "+origin+") after "+methodName(after.Instr.Common())+" at "+c.pos(after.Instr.Pos())+" already replaced the listener's filter factories: the refused update is live although the stored configuration still describes the old filters")
		}
	}
	if n == 0 {
		c.Fail(rule, funcKey(fn)+":refused-update-replaced-nothing", fn.Pos(), "no error return for an existing listener found")
	}
}

// ---------------------------------------------------------------------------------------------------------------------
// C19.R13 (S41): SetMosnConfig rebuilds the ClusterManager section of the stored config to clear the cluster lists (they
// are stored per cluster); every other field of v2.ClusterManagerConfigJson must be carried over from the given config or
// be kept elsewhere in the stored config (ClusterConfigPath is).
func c19StoredClusterManagerKeepsScalars(c *Ctx) {
	const rule = "C19.R13"
	c.Rule(rule, "the stored cluster_manager section keeps every field of the loaded one except the cluster lists", 2)
	fn := c.F("pkg/configmanager", "SetMosnConfig")
	if fn == nil {
		c.Unresolved(rule, "configmanager.SetMosnConfig")
		return
	}
	var st *types.Struct
	for _, imp := range fn.Pkg.Pkg.Imports() {
		if strings.HasSuffix(imp.Path(), "pkg/config/v2") {
			if tn, ok := imp.Scope().Lookup("ClusterManagerConfigJson").(*types.TypeName); ok {
				st, _ = tn.Type().Underlying().(*types.Struct)
			}
		}
	}
	if st == nil {
		c.Unresolved(rule, "v2.ClusterManagerConfigJson")
		return
	}
	// fields stored into a ClusterManagerConfigJson literal (or the live struct) from the same field of the argument
	kept := map[string]bool{}
	rebuilt := false
	forEachInstr(fn, false, func(_ *ssa.Function, in ssa.Instruction) {
		s, ok := in.(*ssa.Store)
		if !ok {
			return
		}
		t, f, _, ok := fieldAddrInfo(s.Addr)
		if !ok {
			return
		}
		if strings.HasSuffix(t, "ClusterManagerConfigJson") {
			rebuilt = true
			if _, f2, _, ok2 := loadedField(s.Val); ok2 && f2 == f {
				kept[f] = true
			}
		}
		// kept outside the section: conf.clusterConfigPath = cfg.ClusterManager.ClusterConfigPath
		if _, f2, _, ok2 := loadedField(s.Val); ok2 && strings.EqualFold(f, f2) && !strings.HasSuffix(t, "ClusterManagerConfigJson") {
			kept[f2] = true
		}
	})
	if !rebuilt {
		c.Pass(rule, funcKey(fn)+":section-not-rebuilt", fn.Pos(), "the cluster manager section is not rebuilt field by field")
		return
	}
	for i := 0; i < st.NumFields(); i++ {
		f := st.Field(i)
		// the cluster lists are cleared on purpose (C20 relies on it): slices of Cluster
		if sl, ok := f.Type().Underlying().(*types.Slice); ok && strings.HasSuffix(sl.Elem().String(), "v2.Cluster") {
			continue
		}
		c.Check(rule, funcKey(fn)+":keeps-"+f.Name(), fn.Pos(), kept[f.Name()],
			"cluster_manager."+f.Name()+" is carried over into the stored config",
			"SetMosnConfig rebuilds the stored cluster_manager section without "+f.Name()+": the field is missing from every dump and persisted file, a restart from that file runs with its default")
	}
}

// ---------------------------------------------------------------------------------------------------------------------
// C14.R9 (S20): once processError turns a local reply into the reply phase (it consumes directResponse), a re-run of
// the receiver filters that another filter of the same phase asked for is cancelled; otherwise the next phase check takes
// the re-match instead of the reply and the denied request goes on to an upstream host.
func c14LocalReplyCancelsPendingRerun(c *Ctx) {
	const rule = "C14.R9"
	c.Rule(rule, "a local reply cancels a pending re-run of the receiver filters", 1)
	fn := c.M("pkg/proxy", "downStream", "processError")
	if fn == nil {
		c.Unresolved(rule, "downStream.processError")
		return
	}
	initPhase, ok := pkgConstOf(fn, "pkg/types", "InitPhase")
	if !ok {
		c.Unresolved(rule, "types.InitPhase")
		return
	}
	n := 0
	for _, st := range storesToField(fn, ".downStream", "directResponse", false) {
		if b, ok := constBool(st.Val); !ok || b {
			continue
		}
		n++
		isClear := func(in ssa.Instruction) bool {
			s2, ok := in.(*ssa.Store)
			if !ok {
				return false
			}
			_, f, _, okf := fieldAddrInfo(s2.Addr)
			k, isK := constInt(s2.Val)
			return okf && f == "receiverFiltersAgainPhase" && isK && k == initPhase
		}
		leak := existsPath(fn, st, isReturn, isClear)
		// a clear that precedes the consumption on every path is as good
		if leak != nil {
			for _, in := range instrsWhere(fn, isClear) {
				if instrDominates(in, st) {
					leak = nil
				}
			}
		}
		c.Check(rule, funcKey(fn)+":reply-cancels-rerun", st.Pos(), leak == nil,
			"every path that turns the local reply into the reply phase resets receiverFiltersAgainPhase",
			"processError consumes the local reply (directResponse) and can return without resetting receiverFiltersAgainPhase: a route re-match or host re-choose requested by a later filter of the same phase is then taken at the next phase check instead of the reply, and the request that a filter answered locally is forwarded upstream")
	}
	if n == 0 {
		c.Fail(rule, funcKey(fn)+":reply-cancels-rerun", fn.Pos(), "no consumption of directResponse found in processError")
	}
}

// ---------------------------------------------------------------------------------------------------------------------
// C10.DECODE (S32): a stream counted by newActiveStream is ended by the phase loop (receive -> ... -> cleanStream, which
// gives the gauges back). Every StreamReceiveListener entry that can be the only call a stream ever gets (OnReceive,
// OnDecodeError) must drive that loop itself or schedule a task that does.
func c10DecodeErrorDrivesTheStream(c *Ctx) {
	const rule = "C10.DECODE"
	c.Rule(rule, "every receive entry of a counted downstream stream drives the phase loop that ends (and un-counts) it", 2)
	pkg := "pkg/proxy"
	recv := c.M(pkg, "downStream", "receive")
	if recv == nil {
		c.Unresolved(rule, "downStream.receive")
		return
	}
	for _, name := range []string{"OnReceive", "OnDecodeError"} {
		fn := c.M(pkg, "downStream", name)
		if fn == nil {
			c.Unresolved(rule, "downStream."+name)
			continue
		}
		reach := staticReach([]*ssa.Function{fn}, pkg)
		// closures created in fn (the scheduled task) count
		for _, an := range fn.AnonFuncs {
			for f := range staticReach([]*ssa.Function{an}, pkg) {
				reach[f] = true
			}
		}
		c.Check(rule, funcKey(fn)+":drives-phase-loop", fn.Pos(), reach[recv],
			name+" reaches downStream.receive",
			name+" no longer runs the phases of the stream (downStream.receive is not reachable from it): for a stream whose only event is "+name+" nothing sends the reply or calls cleanStream, so downstream_rq_active and the active stream list keep the stream for ever")
	}
}

// ---------------------------------------------------------------------------------------------------------------------
// C03.R13 (S42): the request-sent flag implies that the global deadline is armed: whoever sets upstreamRequestSent outside
// onUpstreamRequestSent (which arms the timers and sets the flag) does so only on paths on which the flag was already
// observed true or onUpstreamRequestSent has been called.
func c03SentFlagImpliesDeadline(c *Ctx) {
	const rule = "C03.R13"
	c.Rule(rule, "the request-sent flag is only set together with the global deadline", 1)
	pkg := "pkg/proxy"
	sent := c.M(pkg, "downStream", "onUpstreamRequestSent")
	if sent == nil {
		c.Unresolved(rule, "downStream.onUpstreamRequestSent")
		return
	}
	arms := len(storesToField(sent, ".downStream", "responseTimer", false)) > 0
	sets := false
	for _, st := range storesToField(sent, ".downStream", "upstreamRequestSent", false) {
		if b, ok := constBool(st.Val); ok && b {
			sets = true
		}
	}
	c.Check(rule, funcKey(sent)+":arms-and-sets", sent.Pos(), arms && sets, "onUpstreamRequestSent arms the global timer and sets the flag", "onUpstreamRequestSent no longer both arms the global timer and sets upstreamRequestSent")
	ord := ordCounter{}
	for _, fn := range c.PkgFuncs(pkg) {
		if fn == sent {
			continue
		}
		for _, st := range storesToField(fn, ".downStream", "upstreamRequestSent", true) {
			if b, ok := constBool(st.Val); !ok || !b {
				continue
			}
			f := st.Parent()
			isArm := func(in ssa.Instruction) bool {
				ci, ok := in.(ssa.CallInstruction)
				return ok && ci.Common().StaticCallee() == sent
			}
			edgeOK := func(from, to *ssa.BasicBlock) bool {
				// the true edge of `if s.upstreamRequestSent` : already sent, the deadline is running
				if ifi, ok := from.Instrs[len(from.Instrs)-1].(*ssa.If); ok && len(from.Succs) == 2 && from.Succs[0] != from.Succs[1] {
					for _, g := range normGuard(Guard{Cond: ifi.Cond, True: from.Succs[0] == to, If: ifi}) {
						if _, fld, _, okf := loadedField(g.Cond); okf && fld == "upstreamRequestSent" && g.True {
							return false
						}
					}
				}
				return true
			}
			bad := existsPathEdges(f, nil, func(in ssa.Instruction) bool { return in == ssa.Instruction(st) }, isArm, edgeOK)
			c.Check(rule, ord.next(f, "sent-flag-with-deadline"), st.Pos(), bad == nil,
				"the flag is set only after onUpstreamRequestSent ran or the flag was already true",
				f.Name()+" marks the request as sent on a path on which neither onUpstreamRequestSent was called nor the flag was already set: the global timeout is never armed for that request (a request with a body whose first try failed in the connection pool), so a silent upstream keeps it open without bound")
		}
	}
}

// C03.R14 (S43): the phase loop of OnReceive has a fixed number of rounds (a guard against endless re-matching). A round
// that ends in the Retry phase must not advance the round counter: retries are bounded by the retry policy, and a request
// that is still being retried when the rounds are used up is abandoned with no reply and no cleanup.
func c03RetriesDoNotConsumePhaseRounds(c *Ctx) {
	const rule = "C03.R14"
	c.Rule(rule, "a retry does not use up a round of the bounded phase loop", 1)
	pkg := "pkg/proxy"
	on := c.M(pkg, "downStream", "OnReceive")
	if on == nil {
		c.Unresolved(rule, "downStream.OnReceive")
		return
	}
	retryPhase, ok := pkgConstOf(on, "pkg/types", "Retry")
	if !ok {
		c.Unresolved(rule, "types.Retry")
		return
	}
	n := 0
	for _, fn := range append([]*ssa.Function{on}, on.AnonFuncs...) {
		for header, body := range naturalLoops(fn) {
			ifi, ok := header.Instrs[len(header.Instrs)-1].(*ssa.If)
			if !ok {
				continue
			}
			bin, ok := ifi.Cond.(*ssa.BinOp)
			if !ok || bin.Op != token.LSS {
				continue
			}
			ctr, ok := bin.X.(*ssa.Phi)
			if _, isK := constInt(bin.Y); !ok || !isK || ctr.Block() != header {
				continue
			}
			var recvCall *ssa.Call
			for b := range body {
				for _, in := range b.Instrs {
					if call, ok := in.(*ssa.Call); ok && methodName(call.Common()) == "receive" {
						recvCall = call
					}
				}
			}
			if recvCall == nil {
				continue
			}
			n++
			// the values the counter takes on the back edges, as increments relative to the header phi, restricted to
			// edges taken when the phase is Retry
			isRetryGuard := func(gs []Guard) (yes, no bool) {
				for _, g := range gs {
					b, ok := g.Cond.(*ssa.BinOp)
					if !ok || (b.X != ssa.Value(recvCall) && b.Y != ssa.Value(recvCall)) {
						continue
					}
					k, isK := constInt(b.Y)
					if !isK {
						k, isK = constInt(b.X)
					}
					if !isK {
						continue
					}
					eq := (b.Op == token.EQL) == g.True
					if k == retryPhase && eq {
						yes = true
					}
					if (k == retryPhase && !eq) || (k != retryPhase && eq) {
						no = true
					}
				}
				return
			}
			worst := int64(-1 << 30)
			undec := ""
			var walk func(v ssa.Value, acc int64, inRetry bool, depth int)
			walk = func(v ssa.Value, acc int64, inRetry bool, depth int) {
				if depth > 10 {
					undec = "counter update too deep"
					return
				}
				switch x := v.(type) {
				case *ssa.Phi:
					if x == ctr {
						if inRetry && acc > worst {
							worst = acc
						}
						return
					}
					for i, e := range x.Edges {
						yes, no := isRetryGuard(edgeGuards(x.Block().Preds[i], x.Block()))
						if no {
							continue
						}
						walk(e, acc, inRetry || yes, depth+1)
					}
				case *ssa.BinOp:
					if k, isK := constInt(x.Y); isK && (x.Op == token.ADD || x.Op == token.SUB) {
						if x.Op == token.SUB {
							k = -k
						}
						yes, no := isRetryGuard(guardsAt(x.Block()))
						if no {
							return
						}
						walk(x.X, acc+k, inRetry || yes, depth+1)
						return
					}
					undec = "counter updated by " + x.String()
				default:
					undec = "counter updated from " + v.String()
				}
			}
			for i, e := range ctr.Edges {
				if body[header.Preds[i]] {
					yes, no := isRetryGuard(edgeGuards(header.Preds[i], header))
					if !no {
						walk(e, 0, yes, 0)
					}
				}
			}
			key := funcKey(on) + ":retry-round-not-counted"
			switch {
			case undec != "":
				c.Fail(rule, key, nearestPos(ifi), "undecided: "+undec)
			case worst == -1<<30:
				c.Fail(rule, key, nearestPos(ifi), "no back edge of the phase loop is taken in the Retry phase")
			default:
				c.Check(rule, key, nearestPos(ifi), worst <= 0,
					"a round that ends in the Retry phase leaves the round counter where it was",
					fmt.Sprintf("a round of the phase loop that ends in the Retry phase advances the round counter by %d: with a retry policy that allows as many retries as the loop has rounds the loop ends while the request is still being retried - OnReceive returns with no reply sent and the stream not cleaned", worst))
			}
		}
	}
	if n == 0 {
		c.Fail(rule, funcKey(on)+":retry-round-not-counted", on.Pos(), "no constant-bounded loop around downStream.receive found in OnReceive")
	}
}

// ---------------------------------------------------------------------------------------------------------------------
// C17.R15 (S35): the retry budget is the configured num_retries whenever one is configured: the store of NumRetries()
// into retiesRemaining may only be conditional on NumRetries() being non-zero, not on how it compares with the default.
func c17ConfiguredRetriesUsedAsIs(c *Ctx) {
	const rule = "C17.R15"
	c.Rule(rule, "a configured num_retries is used as it is (the built-in default only replaces an unset value)", 1)
	fn := c.F("pkg/proxy", "newRetryState")
	if fn == nil {
		c.Unresolved(rule, "proxy.newRetryState")
		return
	}
	isNum := func(v ssa.Value) bool {
		call, ok := v.(*ssa.Call)
		return ok && methodName(call.Common()) == "NumRetries"
	}
	n := 0
	for _, st := range storesToField(fn, "retryState", "retiesRemaining", false) {
		if !isNum(st.Val) {
			continue
		}
		n++
		bad := ""
		for _, g := range guardsAt(st.Block()) {
			b, ok := g.Cond.(*ssa.BinOp)
			if !ok || (!isNum(b.X) && !isNum(b.Y)) {
				continue
			}
			other := b.Y
			if isNum(b.Y) {
				other = b.X
			}
			if k, isK := constInt(other); !isK || k != 0 {
				bad = "compared with " + other.String()
			}
		}
		c.Check(rule, funcKey(fn)+":configured-budget-used", st.Pos(), bad == "",
			"NumRetries() is stored whenever it is non-zero",
			"the configured num_retries is only used when it is "+bad+": a configured budget below the built-in default is ignored and the request is tried more often than one plus the configured number of retries")
	}
	if n == 0 {
		c.Fail(rule, funcKey(fn)+":configured-budget-used", fn.Pos(), "no store of NumRetries() into retiesRemaining found")
	}
}

// embedsRuleBase: struct type t embeds (a pointer to) RouteRuleImplBase, directly or through embedded structs.
func embedsRuleBase(t types.Type, depth int) bool {
	if depth > 4 {
		return false
	}
	st := derefStruct(t)
	if st == nil {
		return false
	}
	for i := 0; i < st.NumFields(); i++ {
		f := st.Field(i)
		if !f.Embedded() {
			continue
		}
		if strings.HasSuffix(typeName(f.Type()), "RouteRuleImplBase") || embedsRuleBase(f.Type(), depth+1) {
			return true
		}
	}
	return false
}

// C17.R16 (S36): every route rule type that declares its own FinalizeRequestHeaders applies the configured header
// actions of the base rule (route, virtual host and router level additions/removals, host rewrite).
func c17EveryRuleFinalizesWithTheBase(c *Ctx) {
	const rule = "C17.R16"
	c.Rule(rule, "every route rule type's FinalizeRequestHeaders applies the base rule's header actions", 4)
	pkg := "pkg/router"
	base := c.M(pkg, "RouteRuleImplBase", "finalizeRequestHeaders")
	if base == nil {
		c.Unresolved(rule, "RouteRuleImplBase.finalizeRequestHeaders")
		return
	}
	for _, fn := range c.PkgFuncs(pkg) {
		if fn.Name() != "FinalizeRequestHeaders" || fn.Signature.Recv() == nil || fn.Synthetic != "" {
			continue
		}
		rt := fn.Signature.Recv().Type()
		if strings.HasSuffix(typeName(rt), "RouteRuleImplBase") || !embedsRuleBase(rt, 0) {
			continue
		}
		reach := staticReach([]*ssa.Function{fn}, pkg)
		c.Check(rule, funcKey(fn)+":applies-base-actions", fn.Pos(), reach[base],
			"reaches RouteRuleImplBase.finalizeRequestHeaders",
			"this rule type overrides FinalizeRequestHeaders without applying the base rule's actions: a route of this type ignores request_headers_to_add / request_headers_to_remove at route, virtual-host and router level and host_rewrite")
	}
}

// C17.R17 (S37): a rule type whose Match compares the request path case-insensitively (strings.EqualFold) must hand
// finalizePathHeader, whose prefix test is case-sensitive, the request's own spelling of the matched path; the configured
// spelling alone skips the rewrite for every request that matched with a different case.
func c17RewriteAgreesWithMatchOnCase(c *Ctx) {
	const rule = "C17.R17"
	c.Rule(rule, "a case-insensitive or regex path match hands the rewrite the request's own spelling of the matched path", 2)
	pkg := "pkg/router"
	n := 0
	for _, fn := range c.PkgFuncs(pkg) {
		if fn.Name() != "Match" || fn.Signature.Recv() == nil || fn.Synthetic != "" || !embedsRuleBase(fn.Signature.Recv().Type(), 0) {
			continue
		}
		// a match that is not a case-sensitive literal comparison: EqualFold, or a regular expression (S81) - what the
		// configuration spells (a pattern) is then not what the request's path begins with
		if len(callsIn(fn, false, func(cc *ssa.CallCommon) bool {
			return calleeName(cc) == "strings.EqualFold" || strings.HasPrefix(calleeName(cc), "(*regexp.Regexp).")
		})) == 0 {
			continue
		}
		fin := c.methodOf(fn.Signature.Recv().Type(), "FinalizeRequestHeaders")
		if fin == nil || fin.Synthetic != "" {
			continue
		}
		for _, cs := range callsIn(fin, false, calledAs("finalizePathHeader")) {
			n++
			args := argsOf(cs.Instr.Common())
			arg := args[len(args)-1]
			fromRequest := false
			var walk func(v ssa.Value, d int)
			walk = func(v ssa.Value, d int) {
				if d > 6 {
					return
				}
				switch x := v.(type) {
				case *ssa.Phi:
					for _, e := range x.Edges {
						walk(e, d+1)
					}
				case *ssa.Extract:
					if call, ok := x.Tuple.(*ssa.Call); ok && strings.HasSuffix(calleeName(call.Common()), "variable.GetString") {
						fromRequest = true
					}
				case *ssa.Call:
					for _, a := range x.Common().Args {
						walk(a, d+1)
					}
				case *ssa.Slice:
					walk(x.X, d+1)
				}
			}
			walk(arg, 0)
			c.Check(rule, funcKey(fin)+":rewrite-uses-request-spelling", cs.Instr.Pos(), fromRequest,
				"the matched path given to the rewrite can be the request's own spelling",
				"Match of this rule compares the path with strings.EqualFold or a regular expression but FinalizeRequestHeaders always gives the rewrite the configured string, which finalizePathHeader looks for with a case-sensitive prefix test: a request that matched with a different case (or a regex route, whose pattern is no prefix of any path) is forwarded without the configured prefix_rewrite")
		}
	}
	if n == 0 {
		c.Fail(rule, pkg+":rewrite-uses-request-spelling", token.NoPos, "no case-insensitive path rule with a finalizePathHeader call found")
	}
}

// pkgStringConstOf: the value of string constant `name` of an imported package.
func pkgStringConstOf(fn *ssa.Function, pkgSuffix, name string) (string, bool) {
	if fn.Pkg == nil {
		return "", false
	}
	for _, imp := range fn.Pkg.Pkg.Imports() {
		if strings.HasSuffix(imp.Path(), pkgSuffix) {
			if k, ok := imp.Scope().Lookup(name).(*types.Const); ok && k.Val().Kind() == constant.String {
				return constant.StringVal(k.Val()), true
			}
		}
	}
	return "", false
}

// mayHold: some path from a Lock/RLock of mutex field `mutex` reaches in without passing an Unlock/RUnlock of it.
func mayHold(in ssa.Instruction, mutex string) ssa.Instruction {
	fn := in.Parent()
	isOp := func(x ssa.Instruction, names ...string) bool {
		ci, ok := x.(*ssa.Call)
		if !ok {
			return false
		}
		cc := ci.Common()
		if len(cc.Args) == 0 {
			return false
		}
		hit := false
		for _, n := range names {
			if methodName(cc) == n {
				hit = true
			}
		}
		if !hit {
			return false
		}
		_, f, _, ok := fieldAddrInfo(cc.Args[0])
		return ok && f == mutex
	}
	for _, b := range fn.Blocks {
		for _, x := range b.Instrs {
			if !isOp(x, "Lock", "RLock") {
				continue
			}
			if existsPath(fn, x, func(y ssa.Instruction) bool { return y == in }, func(y ssa.Instruction) bool { return isOp(y, "Unlock", "RUnlock") }) != nil {
				return x
			}
		}
	}
	return nil
}

// ---------------------------------------------------------------------------------------------------------------------
// C16.R5 (S1): one check, one result. The timeout timer of a check can fire while the response of the same check is being
// delivered; the failure recorded for a timeout event must therefore be attributed to a check: either the handling of the
// event depends on a value carried by the event (the check ID), or the response path drains the pending timeout.
func c16TimeoutAttributedToItsCheck(c *Ctx) {
	const rule = "C16.R5"
	c.Rule(rule, "a health-check timeout event is attributed to its check before it counts as a failure", 1)
	pkg := "pkg/upstream/healthcheck"
	fn := c.M(pkg, "sessionChecker", "Start")
	if fn == nil {
		c.Unresolved(rule, "sessionChecker.Start")
		return
	}
	failNet, ok := pkgConstOf(fn, "pkg/types", "FailureNetwork")
	_ = failNet
	_ = ok
	fromEvent := func(v ssa.Value) bool {
		seen := map[ssa.Value]bool{}
		var walk func(v ssa.Value, d int) bool
		walk = func(v ssa.Value, d int) bool {
			if d > 8 || seen[v] {
				return false
			}
			seen[v] = true
			switch x := v.(type) {
			case *ssa.Extract:
				if _, isSel := x.Tuple.(*ssa.Select); isSel && x.Index >= 2 {
					return true
				}
			case *ssa.BinOp:
				return walk(x.X, d+1) || walk(x.Y, d+1)
			case *ssa.UnOp:
				return walk(x.X, d+1)
			case *ssa.Field:
				return walk(x.X, d+1)
			case *ssa.Phi:
				for _, e := range x.Edges {
					if walk(e, d+1) {
						return true
					}
				}
			}
			return false
		}
		return walk(v, 0)
	}
	// the failure that stands for "no answer in time": HandleFailure called with a constant reason in a block selected by a
	// receive from the timeout channel
	n := 0
	for _, cs := range callsIn(fn, false, calledAs("HandleFailure")) {
		// which select case are we in: the receive whose channel is the `timeout` field
		inTimeoutCase := false
		for _, g := range guardsAt(cs.Instr.Block()) {
			b, ok := g.Cond.(*ssa.BinOp)
			if !ok || !g.True || b.Op != token.EQL {
				continue
			}
			ex, ok := b.X.(*ssa.Extract)
			if !ok || ex.Index != 0 {
				continue
			}
			sel, ok := ex.Tuple.(*ssa.Select)
			k, isK := constInt(b.Y)
			if !ok || !isK || int(k) >= len(sel.States) {
				continue
			}
			if _, f, _, okf := loadedField(sel.States[k].Chan); okf && f == "timeout" {
				inTimeoutCase = true
			}
		}
		if !inTimeoutCase {
			continue
		}
		n++
		attributed := false
		// a condition computed from what the event carries lies between the receive and the failure
		for _, b := range fn.Blocks {
			if ifi, ok := b.Instrs[len(b.Instrs)-1].(*ssa.If); ok && fromEvent(ifi.Cond) {
				if b == cs.Instr.Block() || reachableFrom(b)[cs.Instr.Block()] {
					attributed = true
				}
			}
		}
		// or: the response path drains a pending timeout (a non-blocking receive from the timeout channel elsewhere)
		for _, in := range instrsWhere(fn, func(in ssa.Instruction) bool { s, ok := in.(*ssa.Select); return ok && !s.Blocking }) {
			for _, st := range in.(*ssa.Select).States {
				if _, f, _, okf := loadedField(st.Chan); okf && f == "timeout" {
					attributed = true
				}
			}
		}
		c.Check(rule, funcKey(fn)+":timeout-attributed", cs.Instr.Pos(), attributed,
			"the timeout case records a failure only after looking at what the event carries (the check it belongs to)",
			"the timeout case of the session checker records a failure for any timeout event: a timeout that fired just before the response of the same check stopped its timer is consumed by the next iteration as a second result, so one check counts twice and a healthy host collects a failure (with unhealthy_threshold 1 it is taken out of service)")
	}
	if n == 0 {
		c.Fail(rule, funcKey(fn)+":timeout-attributed", fn.Pos(), "no HandleFailure call in a receive case of the timeout channel found")
	}
}

// ---------------------------------------------------------------------------------------------------------------------
// C13.R15 (S47): the index a provider is registered under identifies one tls context. Inside the loops over a
// listener's contexts the index argument of NewProvider must vary with the iteration; a loop-invariant index makes the sds
// contexts that use the same secrets share one provider, which keeps only the last context's configuration.
func c13ProviderIndexPerContext(c *Ctx) {
	const rule = "C13.R15"
	c.Rule(rule, "each tls context of a listener is registered under its own provider index", 1)
	fn := c.F("pkg/mtls", "NewTLSServerContextManager")
	if fn == nil {
		c.Unresolved(rule, "mtls.NewTLSServerContextManager")
		return
	}
	loops := naturalLoops(fn)
	n := 0
	for _, cs := range callsIn(fn, false, calledAs("NewProvider")) {
		var headers []*ssa.BasicBlock
		for h, b := range loops {
			if b[cs.Instr.Block()] {
				headers = append(headers, h)
			}
		}
		if len(headers) == 0 {
			continue
		}
		n++
		inBody := func(b *ssa.BasicBlock) bool {
			for h, body := range loops {
				for _, hh := range headers {
					if h == hh && body[b] {
						return true
					}
				}
			}
			return false
		}
		seen := map[ssa.Value]bool{}
		var variant func(v ssa.Value, d int) bool
		variant = func(v ssa.Value, d int) bool {
			if d > 10 || seen[v] {
				return false
			}
			seen[v] = true
			in, ok := v.(ssa.Instruction)
			if !ok || !inBody(in.Block()) {
				return false
			}
			if phi, ok := v.(*ssa.Phi); ok {
				for _, h := range headers {
					if phi.Block() == h {
						return true
					}
				}
			}
			for _, op := range in.Operands(nil) {
				if *op != nil && variant(*op, d+1) {
					return true
				}
			}
			return false
		}
		c.Check(rule, funcKey(fn)+":provider-index-per-context", cs.Instr.Pos(), variant(cs.Instr.Common().Args[0], 0),
			"the provider index depends on the position of the context in the listener",
			"NewProvider is called in the loop over a listener's tls contexts with an index that is the same for every context: two sds contexts of one listener that name the same secrets are registered as one provider, which keeps only the last context's config - the other context's server names, client-certificate requirement, cipher suites and ALPN are silently lost")
	}
	if n == 0 {
		c.Fail(rule, funcKey(fn)+":provider-index-per-context", fn.Pos(), "no NewProvider call inside a loop found")
	}
}

// ---------------------------------------------------------------------------------------------------------------------
// C20.R6 (S52): a section of raw JSON (v2.ExtendConfig.Config) can embed a TLS config; every value of type
// []v2.ExtendConfig that reaches the admin surface is produced by a redactor that walks the raw JSON: a function from which
// a comparison of a key with "private_key" and a store of the placeholder are reachable.
func c20RawSectionsRedacted(c *Ctx) {
	const rule = "C20.R6"
	c.Rule(rule, "raw JSON sections (extend configs) reach the admin surface only through a redactor that walks the JSON", 2)
	pkg := "pkg/configmanager"
	// the raw redactors
	walks := map[*ssa.Function]bool{}
	for _, f := range c.PkgFuncs(pkg) {
		key, ph := false, false
		forEachInstr(f, false, func(_ *ssa.Function, in ssa.Instruction) {
			for _, op := range in.Operands(nil) {
				if *op == nil {
					continue
				}
				if s, ok := constStringVal(*op); ok {
					if strings.EqualFold(s, "private_key") {
						key = true
					}
				}
			}
			switch x := in.(type) {
			case *ssa.MapUpdate:
				if s, ok := constStringVal(stripIface(x.Value)); ok && s != "" {
					ph = true
				}
			case *ssa.Store:
				if s, ok := constStringVal(stripIface(x.Val)); ok && s != "" {
					ph = true
				}
			}
		})
		if key && ph {
			walks[f] = true
		}
	}
	isRaw := func(callee *ssa.Function) bool {
		if callee == nil {
			return false
		}
		for f := range staticReach([]*ssa.Function{callee}, pkg) {
			if walks[f] {
				return true
			}
		}
		return false
	}
	isExtendSlice := func(t types.Type) bool {
		sl, ok := t.Underlying().(*types.Slice)
		return ok && strings.HasSuffix(typeName(sl.Elem()), "v2.ExtendConfig")
	}
	n := 0
	check := func(key string, v ssa.Value, pos token.Pos) {
		n++
		call, ok := v.(*ssa.Call)
		c.Check(rule, key, pos, ok && isRaw(call.Common().StaticCallee()),
			"produced by a redactor that walks the raw JSON",
			"a []v2.ExtendConfig reaches the admin dump without passing a redactor that walks its raw JSON: an extend config that embeds a TLS config (the tunnel_agent's tls_context) is dumped with its inline private_key")
	}
	if red := c.F(pkg, "getMOSNConfigRedacted"); red != nil {
		i := 0
		for _, in := range instrsWhere(red, isReturn) {
			var leaves []ssa.Value
			var collect func(v ssa.Value)
			collect = func(v ssa.Value) {
				if phi, ok := v.(*ssa.Phi); ok {
					for _, e := range phi.Edges {
						collect(e)
					}
					return
				}
				leaves = append(leaves, v)
			}
			collect(unspill(in.(*ssa.Return), 0))
			for _, l := range leaves {
				l = stripIface(l)
				if isExtendSlice(l.Type()) {
					i++
					check(fmt.Sprintf("%s:extend-arm#%d", funcKey(red), i), l, valuePos(l))
				}
			}
		}
	} else {
		c.Unresolved(rule, "configmanager.getMOSNConfigRedacted")
	}
	if cp := c.F(pkg, "redactedCopy"); cp != nil {
		sts := 0
		for _, st := range storesToField(cp, "effectiveConfig", "ExtendConfigs", false) {
			sts++
			check(fmt.Sprintf("%s:extend-field#%d", funcKey(cp), sts), st.Val, st.Pos())
		}
		if sts == 0 {
			n++
			c.Fail(rule, funcKey(cp)+":extend-field", cp.Pos(), "redactedCopy never replaces the ExtendConfigs of the copy: the live slice, raw JSON and all, is what the full dump marshals")
		}
	} else {
		c.Unresolved(rule, "configmanager.redactedCopy")
	}
	_ = n
}

// ---------------------------------------------------------------------------------------------------------------------
// C01.R13 (S55): an empty query is still a query. The request target's '?' survives: the query variable is set whenever the
// target has a query component (not only for a non-empty one) and the upstream URL gets its '?' whenever the variable is
// set (decided on the lookup's error, not on the value being empty).
func c01EmptyQueryIsAQuery(c *Ctx) {
	const rule = "C01.R13"
	c.Rule(rule, "an empty query string is forwarded (HTTP/1 and HTTP/2): presence of the query, not its content, decides the '?'", 4)
	pkg := "pkg/stream/http"
	inj := c.F(pkg, "injectCtxVarFromProtocolHeaders")
	build := c.F(pkg, "buildUrlFromCtxVar")
	if inj == nil || build == nil {
		c.Unresolved(rule, "http.injectCtxVarFromProtocolHeaders / buildUrlFromCtxVar")
		return
	}
	qv, ok := pkgStringConstOf(inj, "pkg/types", "VarQueryString")
	if !ok {
		c.Unresolved(rule, "types.VarQueryString")
		return
	}
	isVarCall := func(name string) func(cc *ssa.CallCommon) bool {
		return func(cc *ssa.CallCommon) bool {
			if !strings.HasSuffix(calleeName(cc), "variable."+name) || len(cc.Args) < 2 {
				return false
			}
			s, ok := constStringVal(stripIface(cc.Args[1]))
			return ok && s == qv
		}
	}
	sets := callsIn(inj, false, isVarCall("SetString"))
	if len(sets) == 0 {
		c.Fail(rule, funcKey(inj)+":query-variable-set-when-present", inj.Pos(), "no variable.SetString(ctx, VarQueryString, ..) found")
	}
	for _, cs := range sets {
		onlyNonEmpty := false
		for _, g := range guardsAt(cs.Instr.Block()) {
			b, ok := g.Cond.(*ssa.BinOp)
			if !ok {
				continue
			}
			if call, ok := b.X.(*ssa.Call); ok && methodName(call.Common()) == "len" {
				if k, isK := constInt(b.Y); isK && k == 0 && ((b.Op == token.GTR && g.True) || (b.Op == token.NEQ && g.True) || (b.Op == token.EQL && !g.True) || (b.Op == token.LEQ && !g.True)) {
					onlyNonEmpty = true
				}
			}
		}
		c.Check(rule, funcKey(inj)+":query-variable-set-when-present", cs.Instr.Pos(), !onlyNonEmpty,
			"the query variable is not set for a non-empty query only",
			"the query variable is set only when the query string is non-empty: a request target with an empty query (\"/path?\") is forwarded as \"/path\"")
	}
	gets := callsIn(build, false, isVarCall("GetString"))
	if len(gets) != 1 {
		c.Fail(rule, funcKey(build)+":question-mark-on-presence", build.Pos(), fmt.Sprintf("expected one variable.GetString(ctx, VarQueryString), found %d", len(gets)))
		return
	}
	get := gets[0].Instr.(*ssa.Call)
	n := 0
	forEachInstr(build, false, func(_ *ssa.Function, in ssa.Instruction) {
		bo, ok := in.(*ssa.BinOp)
		if !ok || bo.Op != token.ADD {
			return
		}
		if s, isK := constStringVal(bo.X); !isK || s != "?" {
			return
		}
		n++
		onValue := false
		for _, g := range guardsAt(bo.Block()) {
			b, ok := g.Cond.(*ssa.BinOp)
			if !ok {
				continue
			}
			for _, side := range []ssa.Value{b.X, b.Y} {
				if ex, ok := side.(*ssa.Extract); ok && ex.Tuple == ssa.Value(get) && ex.Index == 0 {
					onValue = true
				}
			}
		}
		c.Check(rule, funcKey(build)+":question-mark-on-presence", bo.Pos(), !onValue,
			"the '?' is appended whatever the content of the query variable",
			"the upstream URL gets its '?' only when the query variable is non-empty: an empty query that the request carried is dropped on the way to the upstream")
	})
	if n == 0 {
		c.Fail(rule, funcKey(build)+":question-mark-on-presence", build.Pos(), "no \"?\" + query concatenation found")
	}
}

// ---------------------------------------------------------------------------------------------------------------------
// C02.R18 (S59): what an HTTP/1 upstream sends beyond the one response that was asked for answers no request. After a
// response has been read the client loop looks at what is left in its reader and retires the connection (the path of
// `Connection: close`) instead of keeping the bytes for the next request.
func c02LeftoverUpstreamBytesRetireConnection(c *Ctx) {
	// (the first version looked for a Buffered() call in serve whose result can reach OnGoAway; it alarmed on a helper
	// that does the same test and could not tell a content test from a count test - see round15.go)
	http1SurplusDecidedOnCounts(c, "C02.R18", "leftover-retires-connection")
}

// ---------------------------------------------------------------------------------------------------------------------
// C11.O14 (S61): bytes.NewBuffer(make([]byte, n)) is a buffer that already holds n zero bytes; copying the buffered TLS
// input into it hands the new process n zeroes followed by the data. A buffer that is written to must start empty.
func c11NoZeroPrefixedHandOverBuffer(c *Ctx) {
	const rule = "C11.O14"
	c.Rule(rule, "a buffer filled with the bytes to hand over starts empty (no bytes.NewBuffer over a non-empty fresh slice that is then written)", 1)
	n := 0
	ord := ordCounter{}
	for _, fn := range c.PkgFuncs("pkg/mtls/crypto/tls") {
		for _, cs := range callsIn(fn, true, func(cc *ssa.CallCommon) bool { return calleeName(cc) == "bytes.NewBuffer" }) {
			call, ok := cs.Instr.(*ssa.Call)
			if !ok {
				continue
			}
			written := false
			for _, r := range refs(call) {
				switch x := r.(type) {
				case *ssa.Call:
					m := methodName(x.Common())
					if strings.HasPrefix(m, "Write") || m == "ReadFrom" {
						written = true
					}
				case *ssa.MakeInterface:
					for _, rr := range refs(x) {
						if c2, ok := rr.(*ssa.Call); ok {
							if n := calleeName(c2.Common()); (n == "io.Copy" || n == "io.CopyN" || n == "io.CopyBuffer") && len(c2.Common().Args) > 0 && c2.Common().Args[0] == ssa.Value(x) {
								written = true
							}
						}
					}
				}
			}
			if !written {
				continue
			}
			n++
			nonEmpty := false
			if mk, ok := call.Common().Args[0].(*ssa.MakeSlice); ok {
				if k, isK := constInt(mk.Len); !isK || k != 0 {
					nonEmpty = true
				}
			}
			c.Check(rule, ord.next(cs.Fn, "buffer-starts-empty"), cs.Instr.Pos(), !nonEmpty,
				"the buffer that is written to starts empty",
				"bytes.NewBuffer is given a fresh slice of non-zero length and is then written to: the data follows that many zero bytes. For the TLS state handed over on hot upgrade the new process receives the buffered record bytes behind a run of zeroes and the migrated connection fails")
		}
	}
	if n == 0 {
		c.Fail(rule, "pkg/mtls/crypto/tls:buffer-starts-empty", token.NoPos, "no written bytes.NewBuffer found in pkg/mtls/crypto/tls")
	}
}

// C11.O15 (S62): an address without a host (":2045") resolves to an empty IP, for which IsUnspecified is false, while the
// inherited socket reports "[::]". Wherever ParseListenerConfig asks the configured IP whether it is the wildcard address
// the empty IP must count as well.
func c11HostlessListenerInheritsWildcard(c *Ctx) {
	const rule = "C11.O15"
	c.Rule(rule, "a listener configured without a host matches the inherited wildcard socket", 2)
	pkg := "pkg/configmanager"
	fn := c.F(pkg, "ParseListenerConfig")
	if fn == nil {
		c.Unresolved(rule, "configmanager.ParseListenerConfig")
		return
	}
	lenGuarded := func(call *ssa.Call) bool {
		recv := call.Common().Args[0]
		for _, g := range guardsAt(call.Block()) {
			b, ok := g.Cond.(*ssa.BinOp)
			if !ok {
				continue
			}
			lc, ok := b.X.(*ssa.Call)
			if !ok || methodName(lc.Common()) != "len" || stripConv(lc.Common().Args[0]) != stripConv(recv) {
				continue
			}
			if k, isK := constInt(b.Y); isK && k == 0 && ((b.Op == token.EQL && !g.True) || (b.Op == token.NEQ && g.True) || (b.Op == token.GTR && g.True)) {
				return true
			}
		}
		return false
	}
	isUnspec := func(cc *ssa.CallCommon) bool { return calleeName(cc) == "(net.IP).IsUnspecified" }
	n := 0
	ord := ordCounter{}
	for _, src := range callsIn(fn, false, calledAs("GetAddrIp")) {
		ip, ok := src.Instr.(*ssa.Call)
		if !ok {
			continue
		}
		for _, r := range refs(ip) {
			call, ok := r.(*ssa.Call)
			if !ok {
				continue
			}
			if isUnspec(call.Common()) && call.Common().Args[0] == ssa.Value(ip) {
				n++
				c.Check(rule, ord.next(fn, "empty-ip-is-wildcard"), call.Pos(), lenGuarded(call),
					"IsUnspecified is asked only for a non-empty configured IP",
					"the configured listener IP is asked IsUnspecified() without an alternative for the empty IP of an address without host (\":2045\"): the inherited `[::]:2045` socket is not recognised as this listener, so on hot upgrade the new process tries to listen again on a port that is in use")
				continue
			}
			// a helper of the package given the configured IP
			h := call.Common().StaticCallee()
			if h == nil || h.Pkg != fn.Pkg || len(h.Blocks) == 0 {
				continue
			}
			pi := -1
			for i, a := range call.Common().Args {
				if a == ssa.Value(ip) {
					pi = i
				}
			}
			if pi < 0 {
				continue
			}
			for _, hc := range callsIn(h, false, isUnspec) {
				hcall := hc.Instr.(*ssa.Call)
				if hcall.Common().Args[0] != ssa.Value(h.Params[pi]) {
					continue
				}
				n++
				c.Check(rule, ord.next(fn, "empty-ip-is-wildcard"), call.Pos(), lenGuarded(hcall),
					"the helper asks IsUnspecified only for a non-empty IP",
					"helper "+h.Name()+" asks the configured listener IP IsUnspecified() without an alternative for the empty IP of an address without host: the inherited wildcard socket is not recognised as this listener on hot upgrade")
			}
		}
	}
	if n == 0 {
		c.Fail(rule, funcKey(fn)+":empty-ip-is-wildcard", fn.Pos(), "no wildcard test on the configured listener IP found")
	}
}

// ---------------------------------------------------------------------------------------------------------------------
// C18.W15 (S29): a HEADERS frame whose fragment is empty is valid (the block follows in CONTINUATION frames); only padding
// that exceeds the payload is an error. The stream error guarded by `len(p) - padLength` must not fire at 0.
func c18EmptyHeaderFragmentAccepted(c *Ctx) {
	const rule = "C18.W15"
	c.Rule(rule, "a HEADERS frame with an empty header block fragment is accepted, like the reference does", 1)
	fn := c.F("pkg/module/http2", "parseHeadersFrame")
	if fn == nil {
		c.Unresolved(rule, "http2.parseHeadersFrame")
		return
	}
	// the fragment: hf.headerFragBuf = p[:h]
	var high ssa.Value
	for _, st := range storesToField(fn, "HeadersFrame", "headerFragBuf", false) {
		if sl, ok := st.Val.(*ssa.Slice); ok && sl.High != nil {
			high = sl.High
		}
	}
	if high == nil {
		c.Fail(rule, funcKey(fn)+":empty-fragment-accepted", fn.Pos(), "no headerFragBuf = p[:h] found")
		return
	}
	ba := newBA(c, fn)
	h := ba.lin(high)
	n := 0
	for _, b := range fn.Blocks {
		ifi, ok := b.Instrs[len(b.Instrs)-1].(*ssa.If)
		if !ok || len(b.Succs) != 2 {
			continue
		}
		for idx, pol := range []bool{true, false} {
			succ := b.Succs[idx]
			// the edge leads only to returns of a stream error
			reach := reachableFrom(succ)
			reach[succ] = true
			any, only := false, true
			for _, in := range instrsWhere(fn, isReturn) {
				if !reach[in.Block()] {
					continue
				}
				any = true
				r := in.(*ssa.Return)
				e := stripIface(unspill(r, len(r.Results)-1))
				call, isCall := e.(*ssa.Call)
				if !isCall || methodName(call.Common()) != "streamError" {
					only = false
				}
			}
			if !any || !only {
				continue
			}
			n++
			facts := ba.guardFacts(Guard{Cond: ifi.Cond, True: pol, If: ifi})
			// the refusal implies h <= -1
			ok := ba.prove(linConst(-1).add(h, -1), facts)
			c.Check(rule, funcKey(fn)+":empty-fragment-accepted", nearestPos(ifi), ok,
				"the padding error fires only when the padding exceeds the payload (fragment length below 0)",
				"parseHeadersFrame can answer a HEADERS frame whose fragment length is exactly 0 with a stream PROTOCOL_ERROR: a header block that starts in an empty HEADERS frame and continues in CONTINUATION frames, which the reference accepts, resets the stream")
		}
	}
	if n == 0 {
		c.Fail(rule, funcKey(fn)+":empty-fragment-accepted", fn.Pos(), "no padding check of the form len(p)-pad <op> const found")
	}
}

// C18.W16 (S30): both connection types apply the peer's SETTINGS_HEADER_TABLE_SIZE to their HPACK encoder; an encoder
// that keeps indexing into a larger table than the peer announced produces references the peer cannot resolve.
func c18PeerHeaderTableSizeApplied(c *Ctx) {
	const rule = "C18.W16"
	c.Rule(rule, "the peer's SETTINGS_HEADER_TABLE_SIZE is applied to the HPACK encoder on both connection types", 2)
	pkg := "pkg/module/http2"
	for _, who := range [][2]string{{"MClientConn", "processSettings"}, {"serverConn", "processSetting"}} {
		fn := c.M(pkg, who[0], who[1])
		if fn == nil || fn.Pkg == nil {
			c.Unresolved(rule, who[0]+"."+who[1])
			continue
		}
		id, ok := pkgLocalConst(fn, "SettingHeaderTableSize")
		if !ok {
			c.Unresolved(rule, "http2.SettingHeaderTableSize")
			return
		}
		applied := false
		for f := range staticReach([]*ssa.Function{fn}, pkg) {
			for _, cs := range callsIn(f, true, calledAs("SetMaxDynamicTableSize")) {
				for _, g := range guardsAt(cs.Instr.Block()) {
					if _, op, k, ok := cmpConst(g); ok && op == token.EQL && k == id {
						applied = true
					}
				}
			}
		}
		c.Check(rule, funcKey(fn)+":header-table-size-applied", fn.Pos(), applied,
			"SETTINGS_HEADER_TABLE_SIZE reaches hpack.Encoder.SetMaxDynamicTableSize",
			who[0]+" ignores the peer's SETTINGS_HEADER_TABLE_SIZE: its HPACK encoder keeps indexing into a table larger than the peer announced (a peer that announces 0 fails the second request with COMPRESSION_ERROR)")
	}
}

// pkgLocalConst: integer constant `name` of fn's own package.
func pkgLocalConst(fn *ssa.Function, name string) (int64, bool) {
	if fn.Pkg == nil {
		return 0, false
	}
	if k, ok := fn.Pkg.Pkg.Scope().Lookup(name).(*types.Const); ok {
		if n, exact := constant.Int64Val(constant.ToInt(k.Val())); exact {
			return n, true
		}
	}
	return 0, false
}

// ---------------------------------------------------------------------------------------------------------------------
// C10.RESET (S33): the stream table lock of an xprotocol connection is not held while a stream is reset: the reset ends in
// the pool client's OnDestroyStream, which asks the connection for its number of active streams and takes the same lock
// (read side) on the same goroutine; the streams behind the first one then keep their breaker slots and gauges for ever.
func c10NoStreamCallbackUnderStreamTableLock(c *Ctx) {
	const rule = "C10.RESET"
	c.Rule(rule, "no stream is reset or destroyed while the connection's stream table lock is held", 1)
	pkg := "pkg/stream/xprotocol"
	n := 0
	ord := ordCounter{}
	for _, fn := range c.PkgFuncs(pkg) {
		for _, cs := range callsIn(fn, false, func(cc *ssa.CallCommon) bool {
			m := methodName(cc)
			return m == "ResetStream" || m == "DestroyStream"
		}) {
			n++
			lock := mayHold(cs.Instr, "clientMutex")
			if lock == nil {
				lock = mayHold(cs.Instr, "serverMutex")
			}
			at := ""
			if lock != nil {
				at = c.pos(nearestPos(lock))
			}
			c.Check(rule, ord.next(fn, "reset-outside-table-lock"), cs.Instr.Pos(), lock == nil,
				"the stream is reset with the stream table lock released",
				"a stream is reset while the connection's stream table lock (taken at "+at+") is held: the reset runs the stream's listeners, and a pool client in go-away state calls back into ActiveStreamsNum, which takes the same lock - the goroutine that delivers the close event deadlocks on itself after the first stream, the other streams are never reset and their requests-breaker slots and active gauges are never given back")
		}
	}
	if n == 0 {
		c.Fail(rule, pkg+":reset-outside-table-lock", token.NoPos, "no ResetStream/DestroyStream call found")
	}
}

// ---------------------------------------------------------------------------------------------------------------------
// C08.B11 (S26, known finding): MFramer.ReadFrame parses out of the connection's read buffer and drains a frame only on
// success. An error it passes on from a frame parser or from readMetaFrame can be a StreamError, which costs the stream
// only: the caller goes on with the connection, so the refused frame must have been consumed. Violated when a path from the
// failing call to the return neither drains nor has established that the error is not a StreamError.
func c08StreamErrorConsumesItsFrame(c *Ctx) {
	const rule = "C08.B11"
	c.Rule(rule, "a stream-level error of the HTTP/2 framer leaves its frame consumed (the connection goes on behind it)", 2)
	fn := c.M("pkg/module/http2", "MFramer", "ReadFrame")
	if fn == nil {
		c.Unresolved(rule, "MFramer.ReadFrame")
		return
	}
	isDrain := func(in ssa.Instruction) bool {
		ci, ok := in.(ssa.CallInstruction)
		return ok && methodName(ci.Common()) == "Drain"
	}
	n := 0
	seenKey := map[string]bool{}
	for _, in := range instrsWhere(fn, isReturn) {
		ret := in.(*ssa.Return)
		e := unspill(ret, len(ret.Results)-1)
		ex, ok := e.(*ssa.Extract)
		if !ok {
			continue
		}
		call, ok := ex.Tuple.(*ssa.Call)
		if !ok {
			continue
		}
		origin := methodName(call.Common())
		if call.Common().StaticCallee() == nil && !call.Common().IsInvoke() {
			origin = "frame-parser"
		}
		if origin == "readFrameHeader" {
			continue // nothing of the frame has been looked at: need more data / header errors
		}
		key := funcKey(fn) + ":stream-error-consumed:" + origin
		if seenKey[key] {
			continue
		}
		seenKey[key] = true
		n++
		edgeOK := func(from, to *ssa.BasicBlock) bool {
			// the false edge of `_, ok := err.(StreamError)`: not a stream error on this path
			ifi, ok := from.Instrs[len(from.Instrs)-1].(*ssa.If)
			if !ok || len(from.Succs) != 2 {
				return true
			}
			if ok2, isEx := ifi.Cond.(*ssa.Extract); isEx && ok2.Index == 1 {
				if ta, isTA := ok2.Tuple.(*ssa.TypeAssert); isTA && ta.X == ssa.Value(ex) && strings.HasSuffix(typeName(ta.AssertedType), "StreamError") {
					return to != from.Succs[1] || from.Succs[0] == from.Succs[1]
				}
			}
			return true
		}
		bad := existsPathEdges(fn, call, func(x ssa.Instruction) bool { return x == ssa.Instruction(ret) }, isDrain, edgeOK)
		c.Check(rule, key, nearestPos(ret), bad == nil,
			"an error passed on from "+origin+" is either shown not to be a StreamError or its frame has been drained",
			"MFramer.ReadFrame passes on an error of "+origin+" that can be a StreamError without having drained the refused frame: the stream layer treats a stream error as non-fatal, the same bytes are parsed again on the next read event (a HEADERS block goes through the shared HPACK decoder again), no RST_STREAM is sent, no later frame of the connection is processed and the read buffer grows with every byte the peer sends")
	}
	if n == 0 {
		c.Fail(rule, funcKey(fn)+":stream-error-consumed", fn.Pos(), "no error passed on from a parser call found in MFramer.ReadFrame")
	}
}

// =====================================================================================================================
// Round 11, second wave (repairs of the side findings that had only been read, DESIGN.md §5 rows 58 ff.)

// statusEdgeOK: CFG edges consistent with "the filter status equals v" (comparisons of a value with string constants).
func statusEdgeOK(v string) func(from, to *ssa.BasicBlock) bool {
	return func(from, to *ssa.BasicBlock) bool {
		ifi, ok := from.Instrs[len(from.Instrs)-1].(*ssa.If)
		if !ok || len(from.Succs) != 2 || from.Succs[0] == from.Succs[1] {
			return true
		}
		for _, g := range normGuard(Guard{Cond: ifi.Cond, True: to == from.Succs[0], If: ifi}) {
			bo, ok := g.Cond.(*ssa.BinOp)
			if !ok || (bo.Op != token.EQL && bo.Op != token.NEQ) {
				continue
			}
			sv, ok := constStringVal(bo.Y)
			if !ok {
				continue
			}
			if ((bo.Op == token.EQL) == g.True) != (sv == v) {
				return false
			}
		}
		return true
	}
}

// C04.R15 (S11): the key/value index is a shortcut of the first-match scan: an entry of the index is written only where the
// lookup of that key/value missed, so the first route of a key/value stays.
func c04FastIndexKeepsFirst(c *Ctx) {
	const rule = "C04.R15"
	c.Rule(rule, "the key/value route index keeps the first route of a key/value (it answers like the first-match scan)", 1)
	fn := c.M("pkg/router", "VirtualHostImpl", "addRouteBase")
	if fn == nil {
		c.Unresolved(rule, "VirtualHostImpl.addRouteBase")
		return
	}
	n := 0
	for _, in := range instrsWhere(fn, func(in ssa.Instruction) bool { _, ok := in.(*ssa.MapUpdate); return ok }) {
		mu := in.(*ssa.MapUpdate)
		// the inner map: values are routes
		mt, ok := mu.Map.Type().Underlying().(*types.Map)
		if !ok {
			continue
		}
		if nt, isNamed := mt.Elem().(*types.Named); !isNamed || nt.Obj().Name() != "Route" {
			continue
		}
		n++
		miss := false
		for _, g := range guardsAt(mu.Block()) {
			ex, ok := g.Cond.(*ssa.Extract)
			if !ok || ex.Index != 1 || g.True {
				continue
			}
			if lk, ok := ex.Tuple.(*ssa.Lookup); ok && lk.CommaOk && sameThroughSpill(lk.X, mu.Map) {
				miss = true
			}
		}
		c.Check(rule, funcKey(fn)+":index-keeps-first", mu.Pos(), miss,
			"the index entry is written only where the lookup of that key/value missed",
			"addRouteBase overwrites the index entry of a key/value with every later route of the same key/value: MatchRouteFromHeaderKV then answers with the last such route while the first-match scan of MatchRoute answers with the first one - two lookups of one configuration disagree")
	}
	if n == 0 {
		c.Fail(rule, funcKey(fn)+":index-keeps-first", fn.Pos(), "no insertion into the key/value index found")
	}
}

// C14.R10 (S21): the chain's cursor is parked on a filter only so that the SAME phase can be resumed there. A pass for a
// phase other than the one the parked filter belongs to starts at the first filter: before the loop the cursor is reset
// under a comparison of the parked filter's phase with the phase argument.
func c14PassOfAnotherPhaseStartsAtFirstFilter(c *Ctx) {
	const rule = "C14.R10"
	c.Rule(rule, "a receiver filter pass of a phase other than the parked filter's starts at the first filter", 1)
	fn := c.M("pkg/streamfilter", "DefaultStreamFilterChainImpl", "RunReceiverFilter")
	if fn == nil {
		c.Unresolved(rule, "DefaultStreamFilterChainImpl.RunReceiverFilter")
		return
	}
	inv := callsIn(fn, false, func(cc *ssa.CallCommon) bool { return cc.IsInvoke() && cc.Method.Name() == "OnReceive" })
	if len(inv) != 1 {
		c.Fail(rule, funcKey(fn)+":other-phase-restarts", fn.Pos(), "filter invocation not found")
		return
	}
	var phaseParam ssa.Value
	for _, p := range fn.Params {
		if strings.HasSuffix(typeName(p.Type()), "ReceiverFilterPhase") {
			phaseParam = p
		}
	}
	ok := false
	for _, st := range storesToField(fn, ".DefaultStreamFilterChainImpl", "receiverFiltersIndex", false) {
		if !isZero(st.Val) || inLoop(st.Block()) {
			continue
		}
		// before the first invocation, under `receiverFiltersPhase[cursor] != phase`
		if existsPath(fn, st, func(in ssa.Instruction) bool { return in == inv[0].Instr }, nil) == nil {
			continue
		}
		for _, g := range guardsAt(st.Block()) {
			bo, isB := g.Cond.(*ssa.BinOp)
			if !isB || !((bo.Op == token.NEQ && g.True) || (bo.Op == token.EQL && !g.True)) {
				continue
			}
			for _, pair := range [][2]ssa.Value{{bo.X, bo.Y}, {bo.Y, bo.X}} {
				if pair[1] != phaseParam {
					continue
				}
				if u, isU := pair[0].(*ssa.UnOp); isU {
					if ia, isIA := u.X.(*ssa.IndexAddr); isIA {
						if _, f, _, okf := loadedField(ia.X); okf && f == "receiverFiltersPhase" {
							ok = true
						}
					}
				}
			}
		}
	}
	c.Check(rule, funcKey(fn)+":other-phase-restarts", fn.Pos(), ok,
		"before the pass the cursor is reset when the parked filter belongs to another phase",
		"RunReceiverFilter starts every pass at the parked cursor: after a filter asked for a route re-match or host re-choose in a phase in which that is not honoured, the next phase's pass skips the filters before it - a filter that would deny the request in the later phase never runs and the request is forwarded")
}

// C14.R11 (S22): for Stop and termination the status handler may end the stream, which gives the chain back to the pool; the
// chain's cursor must not be written after the handler returned.
func c14CursorNotWrittenAfterHandler(c *Ctx) {
	const rule = "C14.R11"
	c.Rule(rule, "the chain cursor is not written after the status handler of a stopped or terminated pass returned", 2)
	for _, spec := range [][2]string{{"RunReceiverFilter", "receiverFiltersIndex"}, {"RunSenderFilter", "senderFiltersIndex"}} {
		fn := c.M("pkg/streamfilter", "DefaultStreamFilterChainImpl", spec[0])
		if fn == nil {
			c.Unresolved(rule, "DefaultStreamFilterChainImpl."+spec[0])
			continue
		}
		// the handler: a dynamic call of a function-typed parameter
		var handler ssa.Instruction
		forEachInstr(fn, false, func(_ *ssa.Function, in ssa.Instruction) {
			if call, ok := in.(*ssa.Call); ok && !call.Common().IsInvoke() && call.Common().StaticCallee() == nil {
				if _, isP := call.Common().Value.(*ssa.Parameter); isP {
					handler = in
				}
			}
		})
		if handler == nil {
			c.Fail(rule, funcKey(fn)+":no-write-after-handler", fn.Pos(), "status handler call not found")
			continue
		}
		isWrite := func(in ssa.Instruction) bool {
			st, ok := in.(*ssa.Store)
			if !ok {
				return false
			}
			_, f, _, okf := fieldAddrInfo(st.Addr)
			return okf && f == spec[1]
		}
		var bad ssa.Instruction
		for _, v := range []string{"Stop", "termination"} {
			if w := existsPathEdges(fn, handler, isWrite, isReturn, statusEdgeOK(v)); w != nil {
				bad = w
			}
		}
		at := ""
		if bad != nil {
			at = c.pos(nearestPos(bad))
		}
		c.Check(rule, funcKey(fn)+":no-write-after-handler", nearestPos(handler), bad == nil,
			"for Stop/termination no store to the cursor is reachable after the status handler",
			"for a stopped or terminated pass the chain writes its cursor (at "+at+") after the status handler returned; the handler of a terminated stream runs cleanStream, which gives the chain back to the pool, so the cursor of a chain that may already serve another stream is reset - that stream runs filters twice")
	}
}

// C17.R18 (S38): the pattern of a regex_rewrite is stored and compiled under the same condition under which it is applied
// (non-empty): a guard `len(pattern) > k` with k >= 1 drops short patterns silently.
func c17RewritePatternStoredWheneverApplied(c *Ctx) {
	const rule = "C17.R18"
	c.Rule(rule, "a regex_rewrite pattern is stored and compiled whenever it is non-empty", 1)
	fn := c.F("pkg/router", "NewRouteRuleImplBase")
	if fn == nil {
		c.Unresolved(rule, "router.NewRouteRuleImplBase")
		return
	}
	n := 0
	for _, st := range storesToField(fn, "RouteRuleImplBase", "regexRewrite", false) {
		n++
		bad := ""
		for _, g := range guardsAt(st.Block()) {
			x, op, k, ok := cmpConst(g)
			if !ok {
				continue
			}
			lc, isLen := x.(*ssa.Call)
			if !isLen || methodName(lc.Common()) != "len" {
				continue
			}
			if _, f, _, okf := loadedField(lc.Common().Args[0]); !okf || f != "Regex" {
				continue
			}
			if (op == token.GTR && k >= 1) || (op == token.GEQ && k >= 2) || (op == token.NEQ && k != 0) {
				bad = fmt.Sprintf("len(pattern) %s %d", op, k)
			}
		}
		c.Check(rule, funcKey(fn)+":short-pattern-kept", st.Pos(), bad == "",
			"the pattern is stored for every non-empty regex",
			"the regex_rewrite pattern is stored and compiled only when "+bad+", while finalizePathHeader applies any non-empty pattern: a one-character pattern is silently not applied and an invalid one is accepted without an error")
	}
	if n == 0 {
		c.Fail(rule, funcKey(fn)+":short-pattern-kept", fn.Pos(), "no store into RouteRuleImplBase.regexRewrite found")
	}
}

// C13.R16 (S49): when the tls config of a cluster cannot be turned into a context manager the cluster must not be left
// with the nil manager (which means "no tls": the hosts connect in plaintext): on the error edge of
// NewTLSClientContextManager the value stored into clusterInfo.tlsMng is not that call's (nil) result.
func c13UnusableClusterTLSFailsClosed(c *Ctx) {
	const rule = "C13.R16"
	c.Rule(rule, "a cluster whose tls config cannot be used is not left with a nil (plaintext) tls manager", 1)
	fn := c.F("pkg/upstream/cluster", "NewClusterInfo")
	if fn == nil {
		c.Unresolved(rule, "cluster.NewClusterInfo")
		return
	}
	mk := callsIn(fn, false, calledAs("NewTLSClientContextManager"))
	if len(mk) != 1 {
		c.Fail(rule, funcKey(fn)+":fails-closed", fn.Pos(), fmt.Sprintf("expected one NewTLSClientContextManager call, found %d", len(mk)))
		return
	}
	call := mk[0].Instr.(*ssa.Call)
	errNil := func(gs []Guard) bool {
		for _, g := range gs {
			b, ok := g.Cond.(*ssa.BinOp)
			if !ok {
				continue
			}
			for _, pair := range [][2]ssa.Value{{b.X, b.Y}, {b.Y, b.X}} {
				ex, isEx := pair[0].(*ssa.Extract)
				if isEx && ex.Tuple == ssa.Value(call) && ex.Index == 1 && isNilConst(pair[1]) {
					if (b.Op == token.EQL && g.True) || (b.Op == token.NEQ && !g.True) {
						return true
					}
				}
			}
		}
		return false
	}
	isMgr := func(v ssa.Value) bool {
		ex, ok := v.(*ssa.Extract)
		return ok && ex.Tuple == ssa.Value(call) && ex.Index == 0
	}
	n := 0
	for _, st := range storesToField(fn, "clusterInfo", "tlsMng", false) {
		n++
		ok := true
		switch v := st.Val.(type) {
		case *ssa.Phi:
			for i, e := range v.Edges {
				if isMgr(e) && !errNil(edgeGuards(v.Block().Preds[i], v.Block())) {
					ok = false
				}
			}
		default:
			if isMgr(v) && !errNil(guardsAt(st.Block())) {
				ok = false
			}
		}
		c.Check(rule, funcKey(fn)+":fails-closed", st.Pos(), ok,
			"the manager returned by NewTLSClientContextManager is stored only where its error is nil",
			"NewClusterInfo stores the (nil) manager of a failed NewTLSClientContextManager: a cluster whose tls config cannot be used (unparsable certificate, unknown cipher suite) reports SupportTLS() == false and connects to its hosts in plaintext although TLS is configured")
	}
	if n == 0 {
		c.Fail(rule, funcKey(fn)+":fails-closed", fn.Pos(), "no store into clusterInfo.tlsMng found")
	}
}

// C13.R17 (S51): MatchedServerName lower-cases the SNI; the names a context is found under (configured server_name,
// certificate CN and DNS SANs) must be stored lower-cased too.
func c13MatchedNamesLowerCased(c *Ctx) {
	const rule = "C13.R17"
	c.Rule(rule, "the names a tls context is matched by are stored lower-cased, like the SNI they are compared with", 3)
	pkg := "pkg/mtls"
	fn := c.M(pkg, "tlsContext", "buildMatch")
	if fn == nil {
		c.Unresolved(rule, "tlsContext.buildMatch")
		return
	}
	// serverName is lower-cased where it is stored
	snLower := true
	nStores := 0
	for _, f := range c.PkgFuncs(pkg) {
		for _, st := range storesToField(f, "tlsContext", "serverName", true) {
			nStores++
			if !fromToLower(st.Val, 0) {
				snLower = false
			}
		}
	}
	origin := func(v ssa.Value) string {
		seen := map[ssa.Value]bool{}
		var walk func(v ssa.Value, d int) string
		walk = func(v ssa.Value, d int) string {
			if d > 8 || seen[v] {
				return ""
			}
			seen[v] = true
			if _, f, _, ok := loadedField(v); ok {
				switch f {
				case "CommonName", "serverName":
					return f
				}
			}
			switch x := v.(type) {
			case *ssa.Call:
				for _, a := range x.Common().Args {
					if o := walk(a, d+1); o != "" {
						return o
					}
				}
			case *ssa.UnOp:
				if ia, ok := x.X.(*ssa.IndexAddr); ok {
					if _, f, _, okf := loadedField(ia.X); okf {
						return f
					}
				}
				return walk(x.X, d+1)
			case *ssa.Extract:
				return walk(x.Tuple, d+1)
			case *ssa.Next:
				return walk(x.Iter, d+1)
			case *ssa.Range:
				if _, f, _, okf := loadedField(x.X); okf {
					return f
				}
			case *ssa.Phi:
				for _, e := range x.Edges {
					if o := walk(e, d+1); o != "" {
						return o
					}
				}
			}
			return ""
		}
		return walk(v, 0)
	}
	n := 0
	ord := ordCounter{}
	for _, in := range instrsWhere(fn, func(in ssa.Instruction) bool { _, ok := in.(*ssa.MapUpdate); return ok }) {
		mu := in.(*ssa.MapUpdate)
		o := origin(mu.Key)
		switch o {
		case "CommonName", "DNSNames":
			n++
			c.Check(rule, ord.next(fn, "name-lowercased:"+o), mu.Pos(), fromToLower(mu.Key, 0),
				"the certificate name passes strings.ToLower before it becomes a match key",
				"a certificate "+o+" is stored as a match key without strings.ToLower while the SNI is lower-cased before the lookup: a context whose certificate carries an upper-case name is never selected by that name")
		case "serverName":
			n++
			c.Check(rule, ord.next(fn, "name-lowercased:"+o), mu.Pos(), fromToLower(mu.Key, 0) || (snLower && nStores > 0),
				"the configured server_name is lower-cased (where it is stored or where it becomes a match key)",
				"the configured server_name becomes a match key without strings.ToLower while the SNI is lower-cased before the lookup: a context configured with server_name `Example.COM` is never selected by name")
		}
	}
	if n == 0 {
		c.Fail(rule, funcKey(fn)+":name-lowercased", fn.Pos(), "no match key built from a certificate name or server_name found")
	}
}

// C13.R18 (S48): the server side hands a TCP connection back untouched (plaintext) only when the listener has no provider at
// all (no tls configured, or fallback) or runs the inspector; a listener that requires tls and whose (sds) contexts are
// not ready yet must run the handshake, which fails, instead of serving plaintext.
func c13PlaintextOnlyWithoutTLSOrWithInspector(c *Ctx) {
	const rule = "C13.R18"
	c.Rule(rule, "a TCP connection is served in plaintext only by a listener without providers or with the inspector", 1)
	fn := c.M("pkg/mtls", "serverContextManager", "Conn")
	if fn == nil {
		c.Unresolved(rule, "serverContextManager.Conn")
		return
	}
	param := ssa.Value(fn.Params[1])
	classify := func(cond ssa.Value) (int, bool) {
		if _, f, _, ok := loadedField(cond); ok && f == "inspector" {
			return 1, true
		}
		if b, ok := cond.(*ssa.BinOp); ok {
			if lc, ok := b.X.(*ssa.Call); ok && methodName(lc.Common()) == "len" {
				if _, f, _, okf := loadedField(lc.Common().Args[0]); okf && f == "providers" {
					if k, isK := constInt(b.Y); isK && k == 0 {
						switch b.Op {
						case token.EQL, token.LEQ:
							return 2, true
						case token.NEQ, token.GTR:
							return 2, false
						}
					}
				}
			}
		}
		return 0, false
	}
	n := 0
	var badAt token.Pos
	bad := feasibleState(fn, classify, func(b *ssa.BasicBlock, a1, a2 int8) bool {
		ret, ok := b.Instrs[len(b.Instrs)-1].(*ssa.Return)
		if !ok || len(ret.Results) != 2 || unspill(ret, 0) != param {
			return false
		}
		// the non-TCP passthrough (TLS is TCP only on both sides) is by design
		for _, g := range guardsAt(b) {
			if ex, ok := g.Cond.(*ssa.Extract); ok && ex.Index == 1 && !g.True {
				if ta, ok := ex.Tuple.(*ssa.TypeAssert); ok && strings.HasSuffix(ta.AssertedType.String(), "net.TCPConn") {
					return false
				}
			}
		}
		n++
		if a1 == 1 || a2 == 1 {
			return false
		}
		badAt = nearestPos(ret)
		return true
	})
	c.Check(rule, funcKey(fn)+":plaintext-only-by-choice", fn.Pos(), !bad && n > 0,
		"every plaintext hand-back of a TCP connection lies behind `inspector` or `len(providers) == 0`",
		"serverContextManager.Conn can hand a TCP connection back untouched (at "+c.pos(badAt)+") although the listener has tls providers and no inspector: while the sds secrets of a listener that requires tls have not arrived, plaintext requests are served")
}

// C11.O16 (S64): after a graceful GOAWAY the HEADERS frames that are ignored are those of streams the connection does not
// know; the trailers of a request in flight are processed, so that the request can complete.
func c11InFlightTrailersAfterGoAway(c *Ctx) {
	const rule = "C11.O16"
	c.Rule(rule, "after a graceful GOAWAY only HEADERS of unknown streams are ignored (in-flight requests get their trailers)", 1)
	fn := c.M("pkg/module/http2", "MServerConn", "processHeaders")
	if fn == nil {
		c.Unresolved(rule, "MServerConn.processHeaders")
		return
	}
	n := 0
	for _, in := range instrsWhere(fn, isReturn) {
		inGoAway, unknown := false, false
		for _, g := range guardsAt(in.Block()) {
			if _, f, _, ok := loadedField(g.Cond); ok && f == "inGoAway" && g.True {
				inGoAway = true
			}
			if b, ok := g.Cond.(*ssa.BinOp); ok {
				for _, pair := range [][2]ssa.Value{{b.X, b.Y}, {b.Y, b.X}} {
					if call, isC := pair[0].(*ssa.Call); isC && methodName(call.Common()) == "getStream" && isNilConst(pair[1]) {
						if (b.Op == token.EQL && g.True) || (b.Op == token.NEQ && !g.True) {
							unknown = true
						}
					}
				}
			}
		}
		if !inGoAway {
			continue
		}
		n++
		c.Check(rule, funcKey(fn)+":goaway-ignores-unknown-streams-only", nearestPos(in), unknown,
			"the ignore-after-GOAWAY return is taken only for a stream the connection does not know",
			"processHeaders ignores every HEADERS frame once a GOAWAY has been sent, also the trailers of a request that is in flight: that request never ends although a graceful GOAWAY lets in-flight requests complete")
	}
	if n == 0 {
		c.Pass(rule, funcKey(fn)+":goaway-ignores-unknown-streams-only", fn.Pos(), "processHeaders has no return that depends on inGoAway alone")
	}
}

// C11.O17 (S63): a unix listener whose descriptor is handed to the new process must not unlink its socket path when the old
// process closes it: every (*net.UnixListener).File() in pkg/network is preceded by SetUnlinkOnClose(false) on that listener.
func c11HandedOverUnixListenerKeepsItsPath(c *Ctx) {
	const rule = "C11.O17"
	c.Rule(rule, "a unix listener that is handed over keeps its socket path when the old process closes it", 1)
	n := 0
	ord := ordCounter{}
	for _, fn := range c.PkgFuncs("pkg/network") {
		for _, cs := range callsIn(fn, false, func(cc *ssa.CallCommon) bool { return calleeName(cc) == "(*net.UnixListener).File" }) {
			n++
			recv := cs.Instr.Common().Args[0]
			ok := false
			for _, u := range callsIn(fn, false, func(cc *ssa.CallCommon) bool { return calleeName(cc) == "(*net.UnixListener).SetUnlinkOnClose" }) {
				args := u.Instr.Common().Args
				if b, isB := constBool(args[1]); isB && !b && args[0] == recv && instrDominates(u.Instr, cs.Instr) {
					ok = true
				}
			}
			c.Check(rule, ord.next(fn, "handed-over-path-kept"), cs.Instr.Pos(), ok,
				"SetUnlinkOnClose(false) precedes the hand-over of the descriptor",
				"the descriptor of a unix listener is taken for the hand-over without SetUnlinkOnClose(false): when the old process closes its listener Go removes the socket path on which the new process is listening, and new connections fail with ENOENT after the upgrade")
		}
	}
	if n == 0 {
		c.Fail(rule, "pkg/network:handed-over-path-kept", token.NoPos, "no (*net.UnixListener).File() call found in pkg/network")
	}
}

// ---------------------------------------------------------------------------------------------------------------------
// C10.ONEWAY (S34): cleanStream resets the upstream stream of a request that is not done; a oneway request is done only
// once it was completely sent, so the reset may not be skipped for every oneway request.
func c10HalfSentOnewayIsReset(c *Ctx) {
	const rule = "C10.ONEWAY"
	c.Rule(rule, "a oneway request that was not completely sent still gets its upstream stream reset when the stream is cleaned", 1)
	fn := c.M("pkg/proxy", "downStream", "cleanStream")
	if fn == nil {
		c.Unresolved(rule, "downStream.cleanStream")
		return
	}
	resets := callsIn(fn, false, calledAs("resetStream"))
	if len(resets) == 0 {
		c.Fail(rule, funcKey(fn)+":oneway-reset-unless-sent", fn.Pos(), "no upstreamRequest.resetStream() call in cleanStream")
		return
	}
	for _, cs := range resets {
		skippedForOneway := false
		for _, g := range guardsAt(cs.Instr.Block()) {
			if _, f, _, ok := loadedField(g.Cond); ok && f == "oneway" && !g.True {
				skippedForOneway = true
			}
		}
		c.Check(rule, funcKey(fn)+":oneway-reset-unless-sent", cs.Instr.Pos(), !skippedForOneway,
			"the reset is not confined to non-oneway requests",
			"cleanStream resets the upstream stream only when the request is not oneway: a oneway request that is given up after its headers were appended and before it was completely sent has no response that would end its upstream stream, so the requests breaker slot, the active gauges and the leased connection are never given back")
	}
}

// C10.WINDOW (S18, V1, V2): in every xprotocol pool's NewStream the stream is created (which registers it in the
// connection's stream table, where a close event finds and resets it) and gets the pool client's listener (whose
// OnDestroyStream gives the breaker slot and the gauges back) inside one critical section of a mutex that the close path
// takes before the streams are reset; otherwise a close between the two statements destroys the stream with an empty
// listener list and the increments that follow are never taken back.
func c10StreamBornUnderTheCloseLock(c *Ctx) {
	const rule = "C10.WINDOW"
	c.Rule(rule, "a pooled stream is created and gets its accounting listener inside one critical section shared with the close path", 3)
	pkg := "pkg/stream/xprotocol"
	for _, pool := range []string{"poolPingPong", "poolMultiplex", "poolBinding"} {
		fn := c.M(pkg, pool, "NewStream")
		if fn == nil {
			c.Unresolved(rule, pool+".NewStream")
			continue
		}
		binds := callsIn(fn, false, func(cc *ssa.CallCommon) bool { return cc.IsInvoke() && cc.Method.Name() == "AddEventListener" })
		if len(binds) == 0 {
			c.Fail(rule, funcKey(fn)+":created-and-bound-under-one-lock", fn.Pos(), "no AddEventListener call found")
			continue
		}
		for _, b := range binds {
			// the stream it is attached to: GetStream() of the NewStream result
			var create ssa.Instruction
			for _, cs := range callsIn(fn, false, func(cc *ssa.CallCommon) bool { return cc.IsInvoke() && cc.Method.Name() == "NewStream" }) {
				if instrDominates(cs.Instr, b.Instr) {
					create = cs.Instr
				}
			}
			ok := false
			held := ""
			if create != nil {
				for _, m := range []string{"clientMux", "streamMux"} {
					if lockHeld(create, m) && lockHeld(b.Instr, m) {
						// one critical section: no unlock of m between the two
						if existsPath(fn, create, func(in ssa.Instruction) bool { return in == b.Instr }, func(in ssa.Instruction) bool {
							ci, isC := in.(*ssa.Call)
							if !isC || methodName(ci.Common()) != "Unlock" || len(ci.Common().Args) == 0 {
								return false
							}
							_, f, _, okf := fieldAddrInfo(ci.Common().Args[0])
							return okf && f == m
						}) != nil {
							ok, held = true, m
						}
					}
				}
			}
			c.Check(rule, funcKey(fn)+":created-and-bound-under-one-lock", b.Instr.Pos(), ok,
				"codecClient.NewStream and AddEventListener run under one hold of "+held,
				"the stream is registered in the connection (codecClient.NewStream) and only later, without a lock the close path shares, gets the pool client's listener: a connection close handled in between resets and destroys the stream with an empty listener list, so the requests breaker slot and the active request gauges counted next are never given back")
		}
	}
}

// ---------------------------------------------------------------------------------------------------------------------
// C01.R14 (S56): whether a response has no body because it answers HEAD is decided from the request that was sent
// upstream (the stream's own request), not from the downstream HTTP/1 request buffer of the context.
func c01HeadDecidedByTheRequestSent(c *Ctx) {
	const rule = "C01.R14"
	c.Rule(rule, "the HTTP/1 client decides on a bodiless HEAD response from the request it sent upstream", 1)
	fn := c.M("pkg/stream/http", "clientStreamConnection", "serve")
	if fn == nil {
		c.Unresolved(rule, "clientStreamConnection.serve")
		return
	}
	n := 0
	for _, st := range storesToField(fn, "Response", "SkipBody", false) {
		n++
		own, foreign := false, ""
		for _, g := range guardsAt(st.Block()) {
			call, ok := g.Cond.(*ssa.Call)
			if !ok || methodName(call.Common()) != "IsHead" || !g.True {
				continue
			}
			for _, name := range pathNames(call.Common().Args[0]) {
				switch name {
				case "request":
					own = true
				case "serverRequest":
					foreign = name
				}
			}
		}
		c.Check(rule, funcKey(fn)+":head-from-sent-request", st.Pos(), own && foreign == "",
			"SkipBody is set behind IsHead() of the stream's own request",
			"the HTTP/1 client sets SkipBody from the downstream HTTP/1 request buffer of the context instead of the request it sent: with a downstream that is not HTTP/1 the buffer is never filled, a HEAD request is not recognised and the client waits for Content-Length bytes a HEAD response does not carry (the request hangs until its timeout); a HEAD rewritten to GET loses the body")
	}
	if n == 0 {
		c.Fail(rule, funcKey(fn)+":head-from-sent-request", fn.Pos(), "no store to Response.SkipBody found in serve")
	}
}

// C01.R15 (S57): the Content-Length of a HEAD response is the length GET would return; MStream.WriteHeader overwrites the
// upstream's value with "0" only where the response is not a HEAD response.
func c01HeadResponseKeepsContentLength(c *Ctx) {
	const rule = "C01.R15"
	c.Rule(rule, "an HTTP/2 HEAD response keeps the Content-Length the upstream gave it", 1)
	fn := c.M("pkg/module/http2", "MStream", "WriteHeader")
	if fn == nil {
		c.Unresolved(rule, "MStream.WriteHeader")
		return
	}
	// isHeadResp := Method == "HEAD"
	isHead := func(v ssa.Value) bool {
		bo, ok := v.(*ssa.BinOp)
		if !ok || bo.Op != token.EQL {
			return false
		}
		s1, ok1 := constStringVal(bo.Y)
		s2, ok2 := constStringVal(bo.X)
		return (ok1 && s1 == "HEAD") || (ok2 && s2 == "HEAD")
	}
	// the content-length variable: the phi that merges the parsed value with the constant "0"
	n := 0
	for _, b := range fn.Blocks {
		for _, in := range b.Instrs {
			phi, ok := in.(*ssa.Phi)
			if !ok {
				continue
			}
			for i, e := range phi.Edges {
				if sv, isK := constStringVal(e); !isK || sv != "0" {
					continue
				}
				n++
				notHead := false
				for _, g := range edgeGuards(b.Preds[i], b) {
					if isHead(g.Cond) && !g.True {
						notHead = true
					}
				}
				c.Check(rule, funcKey(fn)+":zero-only-for-non-head", phi.Pos(), notHead,
					"the content length is forced to 0 only where the request method is not HEAD",
					"MStream.WriteHeader replaces the Content-Length of a HEAD response with 0 (and invents content-length: 0 when the upstream sent none): the value of a HEAD response is the length GET would return and must be forwarded as the upstream gave it")
			}
		}
	}
	if n == 0 {
		c.Pass(rule, funcKey(fn)+":zero-only-for-non-head", fn.Pos(), "WriteHeader never forces the content length to 0")
	}
}

// C01.R16 (S58): a thrift ONEWAY message (type 4) is a call: the decoder classifies it as a request and the frame reports a
// oneway stream type, so that the proxy forwards it (and waits for no reply).
func c01ThriftOnewayIsARequest(c *Ctx) {
	const rule = "C01.R16"
	c.Rule(rule, "a dubbothrift ONEWAY message is decoded as a (oneway) request and forwarded", 2)
	pkg := "pkg/protocol/xprotocol/dubbothrift"
	dec := c.F(pkg, "decodeMessage")
	if dec == nil {
		c.Unresolved(rule, "dubbothrift.decodeMessage")
		return
	}
	const oneway = 4 // thrift.ONEWAY
	reqDir, ok := pkgLocalConst(dec, "EventRequest")
	if !ok {
		c.Unresolved(rule, "dubbothrift.EventRequest")
		return
	}
	// stores of EventRequest into Frame.Direction: reachable for messageType == ONEWAY?
	n := 0
	for _, st := range storesToField(dec, "Header", "Direction", false) {
		if k, isK := constInt(st.Val); !isK || k != reqDir {
			continue
		}
		n++
		// walk edges consistent with "message type == 4"
		edgeOK := func(from, to *ssa.BasicBlock) bool {
			ifi, isIf := from.Instrs[len(from.Instrs)-1].(*ssa.If)
			if !isIf || len(from.Succs) != 2 {
				return true
			}
			for _, g := range normGuard(Guard{Cond: ifi.Cond, True: to == from.Succs[0], If: ifi}) {
				_, op, k, okc := cmpConst(g)
				if !okc {
					continue
				}
				bo := g.Cond.(*ssa.BinOp)
				if !strings.Contains(bo.X.Type().String(), "TMessageType") && !strings.Contains(bo.Y.Type().String(), "TMessageType") {
					continue
				}
				if (op == token.EQL && k != oneway) || (op == token.NEQ && k == oneway) {
					return false
				}
			}
			return true
		}
		reach := existsPathEdges(dec, nil, func(in ssa.Instruction) bool { return in == ssa.Instruction(st) }, nil, edgeOK) != nil
		c.Check(rule, funcKey(dec)+":oneway-is-a-request", st.Pos(), reach,
			"for message type ONEWAY the frame's direction becomes EventRequest",
			"decodeMessage marks only CALL as a request: a thrift ONEWAY message is decoded as a response, finds no stream of that id on a listener and is never forwarded")
	}
	if n == 0 {
		c.Fail(rule, funcKey(dec)+":oneway-is-a-request", dec.Pos(), "no store of EventRequest into Frame.Direction found")
	}
	gst := c.M(pkg, "Frame", "GetStreamType")
	if gst == nil {
		c.Unresolved(rule, "dubbothrift.Frame.GetStreamType")
		return
	}
	ow := false
	owVal, okOW := pkgConstOf(gst, "mosn.io/api", "RequestOneWay")
	for _, in := range instrsWhere(gst, isReturn) {
		if k, isK := constInt(unspill(in.(*ssa.Return), 0)); isK && okOW && k == owVal {
			ow = true
		}
	}
	c.Check(rule, funcKey(gst)+":oneway-stream-type", gst.Pos(), ow,
		"GetStreamType can answer RequestOneWay",
		"a dubbothrift frame never reports the oneway stream type: a ONEWAY call would be forwarded as an ordinary request and the proxy would wait for a reply that never comes")
}

// ---------------------------------------------------------------------------------------------------------------------
// C08.B12 (S27): a client (upstream) stream connection has no server callbacks; every use of sc.serverCallbacks in the
// connection's frame handling lies behind a non-nil test, so a request-type frame from an upstream peer cannot panic.
func c08ServerCallbacksOnlyWhereTheyExist(c *Ctx) {
	const rule = "C08.B12"
	c.Rule(rule, "the xprotocol connection uses its server callbacks only where they are known to exist", 2)
	pkg := "pkg/stream/xprotocol"
	n := 0
	ord := ordCounter{}
	for _, name := range []string{"handleRequest", "handleError", "handleFrame", "handleResponse"} {
		fn := c.M(pkg, "streamConn", name)
		if fn == nil {
			continue
		}
		for _, cs := range callsIn(fn, false, func(cc *ssa.CallCommon) bool {
			if !cc.IsInvoke() {
				return false
			}
			_, f, _, ok := loadedField(cc.Value)
			return ok && f == "serverCallbacks"
		}) {
			n++
			guarded := false
			check := func(gs []Guard) {
				for _, g := range gs {
					b, ok := g.Cond.(*ssa.BinOp)
					if !ok {
						continue
					}
					for _, pair := range [][2]ssa.Value{{b.X, b.Y}, {b.Y, b.X}} {
						if _, f, _, okf := loadedField(pair[0]); okf && f == "serverCallbacks" && isNilConst(pair[1]) {
							if (b.Op == token.NEQ && g.True) || (b.Op == token.EQL && !g.True) {
								guarded = true
							}
						}
					}
				}
			}
			check(guardsAt(cs.Instr.Block()))
			c.Check(rule, ord.next(fn, "server-callbacks-exist"), cs.Instr.Pos(), guarded,
				"the call lies behind `sc.serverCallbacks != nil`",
				"sc.serverCallbacks is used without a nil test: on an upstream connection (no server callbacks) a request-type frame sent by the peer dereferences nil - recovered by the read loop in the default mode, swallowed by the worker pool in netpoll mode, where the connection is then never read again")
		}
	}
	if n == 0 {
		c.Fail(rule, pkg+":server-callbacks-exist", token.NoPos, "no use of streamConn.serverCallbacks found")
	}
}

// C08.B13 (S28): a tars length prefix that no amount of further data can turn into a package (TarsRequest answers
// PACKAGE_ERROR) fails the connection: under status == PACKAGE_ERROR no (nil, nil) return of Decode is reachable.
func c08TarsImpossibleLengthFails(c *Ctx) {
	const rule = "C08.B13"
	c.Rule(rule, "an impossible tars length prefix is a decode error, not a wait for more data", 1)
	fn := c.M("pkg/protocol/xprotocol/tars", "tarsProtocol", "Decode")
	if fn == nil {
		c.Unresolved(rule, "tarsProtocol.Decode")
		return
	}
	reqs := callsIn(fn, false, func(cc *ssa.CallCommon) bool { return strings.HasSuffix(calleeName(cc), "tars/protocol.TarsRequest") })
	if len(reqs) != 1 {
		c.Fail(rule, funcKey(fn)+":package-error-fails", fn.Pos(), "TarsRequest call not found")
		return
	}
	call := reqs[0].Instr.(*ssa.Call)
	const pkgErr = 2
	edgeOK := func(from, to *ssa.BasicBlock) bool {
		ifi, isIf := from.Instrs[len(from.Instrs)-1].(*ssa.If)
		if !isIf || len(from.Succs) != 2 {
			return true
		}
		for _, g := range normGuard(Guard{Cond: ifi.Cond, True: to == from.Succs[0], If: ifi}) {
			x, op, k, okc := cmpConst(g)
			if !okc {
				continue
			}
			ex, isEx := x.(*ssa.Extract)
			if !isEx || ex.Tuple != ssa.Value(call) || ex.Index != 1 {
				continue
			}
			if (op == token.EQL && k != pkgErr) || (op == token.NEQ && k == pkgErr) {
				return false
			}
		}
		return true
	}
	waits := existsPathEdges(fn, call, func(in ssa.Instruction) bool {
		ret, ok := in.(*ssa.Return)
		if !ok {
			return false
		}
		return isNilConst(unspill(ret, 0)) && isNilConst(unspill(ret, 1))
	}, nil, edgeOK)
	c.Check(rule, funcKey(fn)+":package-error-fails", call.Pos(), waits == nil,
		"under PACKAGE_ERROR every return of Decode carries an error",
		"tarsProtocol.Decode answers need-more-data (nil, nil) for a length prefix TarsRequest rejects (below the prefix size or above the maximum): the prefix stays at the head of the buffer, the connection never fails and the bytes the peer sends pile up for ever")
}

// ---------------------------------------------------------------------------------------------------------------------
// C11.O18: poolBinding.Shutdown notifies its clients (OnGoAway, which takes the pool lock to remove the client) without
// holding the pool lock itself.
func c11PoolShutdownOutsideItsLock(c *Ctx) {
	const rule = "C11.O18"
	c.Rule(rule, "the connection pools' Shutdown notifies the clients without holding the lock the notification takes", 1)
	pkg := "pkg/stream/xprotocol"
	n := 0
	for _, pool := range []string{"poolBinding", "poolPingPong", "poolMultiplex"} {
		fn := c.M(pkg, pool, "Shutdown")
		if fn == nil {
			continue
		}
		for _, cs := range callsIn(fn, false, calledAs("OnGoAway")) {
			callee := cs.Instr.Common().StaticCallee()
			if callee == nil {
				continue
			}
			// does the notification take clientMux (directly or in a package callee)?
			takes := false
			for f := range staticReach([]*ssa.Function{callee}, pkg) {
				for _, l := range callsIn(f, false, calledAs("Lock")) {
					if _, fld, _, ok := fieldAddrInfo(l.Instr.Common().Args[0]); ok && fld == "clientMux" {
						takes = true
					}
				}
			}
			if !takes {
				continue
			}
			n++
			held := mayHold(cs.Instr, "clientMux")
			c.Check(rule, funcKey(fn)+":goaway-outside-pool-lock", cs.Instr.Pos(), held == nil,
				"OnGoAway is called with clientMux released",
				"Shutdown calls OnGoAway while it holds clientMux, and OnGoAway removes the client from the pool under the same mutex: the goroutine locks the non-reentrant mutex twice, Shutdown never returns and every later NewStream of the pool blocks - the graceful shutdown of the connection pools hangs")
		}
	}
	if n == 0 {
		c.Pass(rule, pkg+":goaway-outside-pool-lock", token.NoPos, "no Shutdown notifies a client through a function that takes the pool lock")
	}
}

// C11.O19 (S65, known finding): the drain wait of the graceful shutdown counts the requests in flight; the counter it
// reads must exist whatever the metrics configuration says. Today it is the store object
// downstream{listener}.request_active obtained through metrics.NewListenerStats, which stats_matcher can replace by a no-op.
func c11DrainCounterNotExcludable(c *Ctx) {
	const rule = "C11.O19"
	c.Rule(rule, "the shutdown drain reads a request counter that the metrics exclusion configuration cannot switch off", 1)
	fn := c.M("pkg/server", "activeListener", "activeStreamSize")
	if fn == nil {
		c.Unresolved(rule, "activeListener.activeStreamSize")
		return
	}
	n := 0
	for _, cs := range callsIn(fn, false, func(cc *ssa.CallCommon) bool { return cc.IsInvoke() && cc.Method.Name() == "Count" }) {
		n++
		excludable := false
		if ctr, ok := cs.Instr.Common().Value.(*ssa.Call); ok && ctr.Common().IsInvoke() && ctr.Common().Method.Name() == "Counter" {
			if mk, ok := ctr.Common().Value.(*ssa.Call); ok {
				if callee := mk.Common().StaticCallee(); callee != nil && strings.HasSuffix(callee.Pkg.Pkg.Path(), "pkg/metrics") {
					// can that constructor hand out the no-op metrics?
					for f := range staticReach([]*ssa.Function{callee}, "pkg/metrics") {
						for _, in := range instrsWhere(f, isReturn) {
							ret := in.(*ssa.Return)
							for ri := range ret.Results {
								r := unspill(ret, ri)
								if strings.Contains(stripIface(r).Type().String(), "NilMetrics") {
									excludable = true
								}
								if call, isC := r.(*ssa.Call); isC && strings.Contains(calleeName(call.Common()), "NewNilMetrics") {
									excludable = true
								}
								if ex, isE := r.(*ssa.Extract); isE {
									if call, isC := ex.Tuple.(*ssa.Call); isC && strings.Contains(calleeName(call.Common()), "NewNilMetrics") {
										excludable = true
									}
								}
							}
						}
					}
				}
			}
		}
		c.Check(rule, funcKey(fn)+":drain-counter-always-counts", cs.Instr.Pos(), !excludable,
			"the counter the drain reads is not obtained from a constructor that can hand out the no-op metrics",
			"the drain wait reads downstream{listener}.request_active through metrics.NewListenerStats(..).Counter(..): with stats_matcher reject_all, exclusion_labels [listener] or exclusion_keys [request_active] that object is a NilCounter on both the counting and the reading side, Count() is always 0, the drain returns at once and the requests in flight are cut by the shutdown")
	}
	if n == 0 {
		c.Fail(rule, funcKey(fn)+":drain-counter-always-counts", fn.Pos(), "activeStreamSize reads no counter")
	}
}

// ---------------------------------------------------------------------------------------------------------------------
// C20.R6 (S53, native dump): MOSNConfig.RawStaticResources is raw xDS JSON whose transport sockets can hold inline keys;
// the redacted MOSN config takes it through the raw redactor.
func c20RawStaticResourcesRedacted(c *Ctx) {
	const rule = "C20.R6"
	fn := c.F("pkg/configmanager", "redactedMosnConfig")
	if fn == nil {
		c.Unresolved(rule, "configmanager.redactedMosnConfig")
		return
	}
	ok := false
	var pos token.Pos = fn.Pos()
	for _, st := range storesToField(fn, "MOSNConfig", "RawStaticResources", false) {
		pos = st.Pos()
		if call, isC := st.Val.(*ssa.Call); isC {
			if callee := call.Common().StaticCallee(); callee != nil && strings.Contains(strings.ToLower(callee.Name()), "redact") {
				ok = true
			}
		}
	}
	c.Check(rule, funcKey(fn)+":static-resources-redacted", pos, ok,
		"RawStaticResources of the redacted config is the result of a redactor",
		"redactedMosnConfig leaves RawStaticResources as it is: the raw xDS static_resources of the bootstrap config is printed by the config dump with the inline private keys of its transport sockets")
}

// C20.R7 (S53, istio /config_dump, known finding): the envoy style config dump marshals the recorded xDS listeners and
// clusters; a dump that redacts needs a placeholder, so some function reachable from conv.EnvoyConfigDump must mention one.
func c20EnvoyDumpHasARedactor(c *Ctx) {
	const rule = "C20.R7"
	c.Rule(rule, "the envoy style /config_dump passes the recorded xDS resources through a redactor (necessary: a placeholder is reachable)", 1)
	pkg := "istio/istio1106/xds/conv"
	fn := c.F(pkg, "EnvoyConfigDump")
	if fn == nil {
		c.Unresolved(rule, "conv.EnvoyConfigDump")
		return
	}
	has := false
	for f := range staticReach([]*ssa.Function{fn}, pkg) {
		forEachInstr(f, true, func(_ *ssa.Function, in ssa.Instruction) {
			for _, op := range in.Operands(nil) {
				if *op == nil {
					continue
				}
				if s, ok := constStringVal(*op); ok && strings.Contains(strings.ToLower(s), "redacted") {
					has = true
				}
			}
		})
	}
	c.Check(rule, funcKey(fn)+":xds-dump-redacted", fn.Pos(), has,
		"a redaction placeholder is reachable from EnvoyConfigDump",
		"conv.EnvoyConfigDump marshals the recorded xDS listeners and clusters with a plain jsonpb marshaller and no function reachable from it mentions a redaction placeholder: a transport socket that carries its key as inline_string / inline_bytes (a hand written static_resources, an xDS server that does not use SDS) is printed verbatim by the admin endpoint /config_dump")
}
