package main

import (
	"fmt"
	"go/constant"
	"go/token"
	"go/types"
	"sort"
	"strings"

	"golang.org/x/tools/go/ssa"
)

// Clauses added with the repairs of the round-10 side findings (DESIGN.md §5 rows 31-57). Each clause is the structural
// necessary condition whose absence was the defect; each has a reverting mutant in /verif/mutants.

func calledAs(n string) func(cc *ssa.CallCommon) bool {
	return func(cc *ssa.CallCommon) bool { return methodName(cc) == n }
}

// pkgConstOf: the integer value of constant `name` of the package with path suffix pkgSuffix imported by fn's package.
func pkgConstOf(fn *ssa.Function, pkgSuffix, name string) (int64, bool) {
	if fn.Pkg == nil {
		return 0, false
	}
	for _, imp := range fn.Pkg.Pkg.Imports() {
		if strings.HasSuffix(imp.Path(), pkgSuffix) {
			if k, ok := imp.Scope().Lookup(name).(*types.Const); ok {
				if n, exact := constant.Int64Val(constant.ToInt(k.Val())); exact {
					return n, true
				}
			}
		}
	}
	return 0, false
}

func runFixRules(c *Ctx, spec *PropSpec) {
	switch spec.ID {
	case "C06":
		c06WeightedTriesCoverWeightRange(c)
	case "C15":
		c15CombinationIndexInRange(c)
	case "C12":
		c12ListenerRemovalRecorded(c)
		c12RejectedListenerUpdateHasNoEffect(c)
	case "C19":
		c19StoredClusterManagerKeepsScalars(c)
	}
}

// ---------------------------------------------------------------------------------------------------------------------
// C06.R8 (S16): the weighted pick falls back to the unweighted scan only after hosts x (MaxHostWeight/MinHostWeight)
// scheduler picks: between two picks of one host every other host is picked at most max/min times, so fewer tries can all
// be spent on one heavy unhealthy host and the healthy hosts then lose their configured proportions.
func c06WeightedTriesCoverWeightRange(c *Ctx) {
	const rule = "C06.R8"
	c.Rule(rule, "the weighted pick gives up on the weights only after hosts x (max weight / min weight) scheduler picks", 1)
	fn := c.M("pkg/upstream/cluster", "EdfLoadBalancer", "ChooseHost")
	if fn == nil {
		c.Unresolved(rule, "EdfLoadBalancer.ChooseHost")
		return
	}
	maxW, ok1 := pkgConstOf(fn, "pkg/config/v2", "MaxHostWeight")
	minW, ok2 := pkgConstOf(fn, "pkg/config/v2", "MinHostWeight")
	if !ok1 || !ok2 || minW <= 0 {
		c.Unresolved(rule, "v2.MaxHostWeight / v2.MinHostWeight")
		return
	}
	need := maxW / minW
	picks := callsIn(fn, false, calledAs("NextAndPush"))
	n := 0
	loops := naturalLoops(fn)
	for _, cs := range picks {
		var header *ssa.BasicBlock
		var body map[*ssa.BasicBlock]bool
		for h, b := range loops {
			if b[cs.Instr.Block()] && (body == nil || len(b) < len(body)) {
				header, body = h, b
			}
		}
		if header == nil {
			continue
		}
		n++
		key := funcKey(fn) + ":weighted-tries"
		ifi, ok := header.Instrs[len(header.Instrs)-1].(*ssa.If)
		if !ok {
			c.Fail(rule, key, cs.Instr.Pos(), "the loop around the scheduler pick has no bound in its header")
			continue
		}
		bin, ok := ifi.Cond.(*ssa.BinOp)
		if !ok || bin.Op != token.LSS {
			c.Fail(rule, key, nearestPos(ifi), "the loop around the scheduler pick is not bounded by `i < tries`")
			continue
		}
		k, _ := sizeMultiple(bin.Y)
		c.Check(rule, key, nearestPos(ifi), k >= need,
			fmt.Sprintf("the weighted pick is tried %d x Size() times (weight range %d/%d)", k, maxW, minW),
			fmt.Sprintf("the weighted pick is tried only %d x Size() times before the unweighted fallback, the weight range is %d/%d: one unhealthy host of high weight can take all the tries, and the healthy hosts are then served by the unweighted scan instead of in proportion to their weights", k, maxW, minW))
	}
	if n == 0 {
		c.Fail(rule, funcKey(fn)+":weighted-tries", fn.Pos(), "no loop around scheduler.NextAndPush found")
	}
}

// ---------------------------------------------------------------------------------------------------------------------
// C15.R15 (S24): doMetadataCombination indexes keys[idx] unconditionally; every call site must establish idx < len(keys)
// (an empty selector key list made the pre-index builder panic while the filtering builder skips it).
func c15CombinationIndexInRange(c *Ctx) {
	const rule = "C15.R15"
	c.Rule(rule, "every call of the subset combination builder passes an index inside the key list (an empty selector describes no subset)", 2)
	pkg := "pkg/upstream/cluster"
	target := c.M(pkg, "subsetLoadBalancerBuilder", "doMetadataCombination")
	if target == nil {
		c.Unresolved(rule, "subsetLoadBalancerBuilder.doMetadataCombination")
		return
	}
	// does the callee itself guard the index?
	selfGuard := false
	{
		ba := newBA(c, target)
		for _, in := range instrsWhere(target, func(in ssa.Instruction) bool { _, ok := in.(*ssa.IndexAddr); return ok }) {
			ia := in.(*ssa.IndexAddr)
			if ia.X == ssa.Value(target.Params[1]) {
				selfGuard = ba.proveAt(ba.lenOf(ia.X).add(ba.lin(ia.Index), -1).add(linConst(1), -1), ia.Block(), 0)
			}
		}
	}
	ord := ordCounter{}
	for _, fn := range c.PkgFuncs(pkg) {
		for _, cs := range callsIn(fn, true, func(cc *ssa.CallCommon) bool { return cc.StaticCallee() == target }) {
			args := cs.Instr.Common().Args
			ba := newBA(c, cs.Fn)
			goal := ba.lenOf(args[1]).add(ba.lin(args[2]), -1).add(linConst(1), -1)
			ok := selfGuard || ba.proveAt(goal, cs.Instr.Block(), 0)
			c.Check(rule, ord.next(cs.Fn, "combination-index-in-range"), cs.Instr.Pos(), ok,
				"the index passed is below len(keys) on every path to the call",
				"doMetadataCombination is called with an index that is not shown to be below len(keys): it reads keys[idx] unconditionally, so a subset selector with an empty key list panics the pre-index subset builder (and every later host update) with index out of range")
		}
	}
}

// ---------------------------------------------------------------------------------------------------------------------
// C12.R4 (S3): removing a listener removes it from the stored configuration as well.
func c12ListenerRemovalRecorded(c *Ctx) {
	const rule = "C12.R4"
	fn := c.M("pkg/server", "connHandler", "RemoveListeners")
	if fn == nil {
		c.Unresolved(rule, "connHandler.RemoveListeners")
		return
	}
	// a function of configmanager that deletes from conf.Listener
	deleters := map[*ssa.Function]bool{}
	for _, f := range c.PkgFuncs("pkg/configmanager") {
		forEachInstr(f, false, func(_ *ssa.Function, in ssa.Instruction) {
			ci, ok := in.(ssa.CallInstruction)
			if !ok {
				return
			}
			if b, ok := ci.Common().Value.(*ssa.Builtin); ok && b.Name() == "delete" {
				if _, fld, _, ok := loadedField(ci.Common().Args[0]); ok && fld == "Listener" {
					deleters[f] = true
				}
			}
		})
	}
	live := storesToField(fn, "connHandler", "listeners", false)
	ok := false
	for _, st := range live {
		for _, cs := range callsIn(fn, false, func(cc *ssa.CallCommon) bool { return deleters[cc.StaticCallee()] }) {
			if cs.Instr.Block() == st.Block() && len(cs.Instr.Common().Args) == 1 && cs.Instr.Common().Args[0] == ssa.Value(fn.Params[1]) {
				ok = true
			}
		}
	}
	c.Check(rule, funcKey(fn)+":delete-and-record", fn.Pos(), ok && len(live) > 0,
		"the listener is dropped from the handler and deleted from the stored configuration under the same name",
		"removing a listener does not delete it from the stored configuration: the dump and the persisted file keep the deleted listener, a restart or hot upgrade from that file brings it back")
}

// C12.R8 (S4): an update of an existing listener that is refused has replaced nothing. On every path on which an active
// listener of that name exists, no error return is reachable after a call that replaces the listener's filter factories.
func c12RejectedListenerUpdateHasNoEffect(c *Ctx) {
	const rule = "C12.R8"
	fn := c.M("pkg/server", "connHandler", "AddOrUpdateListener")
	if fn == nil {
		c.Unresolved(rule, "connHandler.AddOrUpdateListener")
		return
	}
	isReplace := func(cc *ssa.CallCommon) bool {
		n := methodName(cc)
		return strings.HasPrefix(n, "AddOrUpdate") && (strings.Contains(n, "Filter"))
	}
	replaces := callsIn(fn, false, isReplace)
	if len(replaces) == 0 {
		c.Fail(rule, funcKey(fn)+":replacements", fn.Pos(), "no AddOrUpdate*Filter* call found in AddOrUpdateListener")
		return
	}
	find := callsIn(fn, false, calledAs("findActiveListenerByName"))
	if len(find) != 1 {
		c.Fail(rule, funcKey(fn)+":lookup", fn.Pos(), fmt.Sprintf("expected one findActiveListenerByName call, found %d", len(find)))
		return
	}
	existing := find[0].Instr.(*ssa.Call)
	n := 0
	errOrd := map[string]int{}
	var rets []*ssa.Return
	for _, in := range instrsWhere(fn, isReturn) {
		rets = append(rets, in.(*ssa.Return))
	}
	sort.Slice(rets, func(i, j int) bool { return nearestPos(rets[i]) < nearestPos(rets[j]) })
	for _, ret := range rets {
		if len(ret.Results) != 2 || isNilConst(ret.Results[1]) {
			continue
		}
		// only error returns taken for an existing listener: guarded by `existing != nil`
		forExisting := false
		for _, g := range guardsAt(ret.Block()) {
			if b, ok := g.Cond.(*ssa.BinOp); ok && (b.X == ssa.Value(existing) || b.Y == ssa.Value(existing)) && (isNilConst(b.X) || isNilConst(b.Y)) {
				if (b.Op == token.NEQ && g.True) || (b.Op == token.EQL && !g.True) {
					forExisting = true
				}
			}
		}
		if !forExisting {
			continue
		}
		n++
		origin := "error"
		if call, ok := stripIface(ret.Results[1]).(*ssa.Call); ok {
			origin = calleeName(call.Common())
		} else if ex, ok := ret.Results[1].(*ssa.Extract); ok {
			if call, ok := ex.Tuple.(*ssa.Call); ok {
				origin = calleeName(call.Common())
			}
		}
		if i := strings.LastIndex(origin, "/"); i >= 0 {
			origin = origin[i+1:]
		}
		errOrd[origin]++
		key := fmt.Sprintf("%s:refused-update-replaced-nothing:%s#%d", funcKey(fn), origin, errOrd[origin])
		var after *CallSite
		for i := range replaces {
			r := replaces[i]
			if existsPath(fn, r.Instr, func(in ssa.Instruction) bool { return in == ssa.Instruction(ret) }, nil) != nil {
				after = &replaces[i]
				break
			}
		}
		if after == nil {
			c.Pass(rule, key, nearestPos(ret), "this refusal of an update is decided before anything of the listener is replaced")
		} else {
			c.Fail(rule, key, nearestPos(ret), "an update of an existing listener can be refused (error from "+origin+") after "+methodName(after.Instr.Common())+" at "+c.pos(after.Instr.Pos())+" already replaced the listener's filter factories: the refused update is live although the stored configuration still describes the old filters")
		}
	}
	if n == 0 {
		c.Fail(rule, funcKey(fn)+":refused-update-replaced-nothing", fn.Pos(), "no error return for an existing listener found")
	}
}

// ---------------------------------------------------------------------------------------------------------------------
// C19.R13 (S41): SetMosnConfig rebuilds the ClusterManager section of the stored config to clear the cluster lists (they
// are stored per cluster); every other field of v2.ClusterManagerConfigJson must be carried over from the given config or
// be kept elsewhere in the stored config (ClusterConfigPath is).
func c19StoredClusterManagerKeepsScalars(c *Ctx) {
	const rule = "C19.R13"
	c.Rule(rule, "the stored cluster_manager section keeps every field of the loaded one except the cluster lists", 2)
	fn := c.F("pkg/configmanager", "SetMosnConfig")
	if fn == nil {
		c.Unresolved(rule, "configmanager.SetMosnConfig")
		return
	}
	var st *types.Struct
	for _, imp := range fn.Pkg.Pkg.Imports() {
		if strings.HasSuffix(imp.Path(), "pkg/config/v2") {
			if tn, ok := imp.Scope().Lookup("ClusterManagerConfigJson").(*types.TypeName); ok {
				st, _ = tn.Type().Underlying().(*types.Struct)
			}
		}
	}
	if st == nil {
		c.Unresolved(rule, "v2.ClusterManagerConfigJson")
		return
	}
	// fields stored into a ClusterManagerConfigJson literal (or the live struct) from the same field of the argument
	kept := map[string]bool{}
	rebuilt := false
	forEachInstr(fn, false, func(_ *ssa.Function, in ssa.Instruction) {
		s, ok := in.(*ssa.Store)
		if !ok {
			return
		}
		t, f, _, ok := fieldAddrInfo(s.Addr)
		if !ok {
			return
		}
		if strings.HasSuffix(t, "ClusterManagerConfigJson") {
			rebuilt = true
			if _, f2, _, ok2 := loadedField(s.Val); ok2 && f2 == f {
				kept[f] = true
			}
		}
		// kept outside the section: conf.clusterConfigPath = cfg.ClusterManager.ClusterConfigPath
		if _, f2, _, ok2 := loadedField(s.Val); ok2 && strings.EqualFold(f, f2) && !strings.HasSuffix(t, "ClusterManagerConfigJson") {
			kept[f2] = true
		}
	})
	if !rebuilt {
		c.Pass(rule, funcKey(fn)+":section-not-rebuilt", fn.Pos(), "the cluster manager section is not rebuilt field by field")
		return
	}
	for i := 0; i < st.NumFields(); i++ {
		f := st.Field(i)
		// the cluster lists are cleared on purpose (C20 relies on it): slices of Cluster
		if sl, ok := f.Type().Underlying().(*types.Slice); ok && strings.HasSuffix(sl.Elem().String(), "v2.Cluster") {
			continue
		}
		c.Check(rule, funcKey(fn)+":keeps-"+f.Name(), fn.Pos(), kept[f.Name()],
			"cluster_manager."+f.Name()+" is carried over into the stored config",
			"SetMosnConfig rebuilds the stored cluster_manager section without "+f.Name()+": the field is missing from every dump and persisted file, a restart from that file runs with its default")
	}
}
