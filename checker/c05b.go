package main

import (
	"fmt"
	"go/token"

	"golang.org/x/tools/go/ssa"
)

// C05.R5 — a composite balancer answers "no host" only after its last resort was consulted.
//
// subsetLoadBalancer.ChooseHost combines several inner balancers (matched subset entry, full set, fallback entry). An
// inner balancer returns nil when all *its* hosts are unhealthy, which says nothing about the rest of the cluster. Clause
// ("no host only if none is healthy", composed with the fallback policy): every return of ChooseHost is one of
//
//	(a) a delegate's result on the edge where it is known non-nil,
//	(b) the result of the last-resort delegate (the fallback entry),
//	(c) nil on the edge where there is no fallback entry.
//
// A possibly-nil intermediate result returned directly hides healthy hosts behind an unhealthy subset.
func c05Composite(c *Ctx) {
	pkg := "pkg/upstream/cluster"
	fn := c.M(pkg, "subsetLoadBalancer", "ChooseHost")
	if fn == nil {
		c.Unresolved("C05.R5", "subsetLoadBalancer.ChooseHost")
		return
	}
	fk := funcKey(fn)
	n := 0
	for _, rs := range returnSites(fn, 0) {
		n++
		key := fmt.Sprintf("%s:return#%d", fk, n)
		v := stripIface(rs.val)
		switch x := v.(type) {
		case *ssa.Const:
			// (c) nil only when there is no fallback entry
			ok := false
			for _, g := range guardsAt(rs.at.Block()) {
				if bo, isB := g.Cond.(*ssa.BinOp); isB && isNilConst(bo.Y) {
					if _, f, _, okf := loadedField(bo.X); okf && f == "fallbackSubset" {
						if (bo.Op == token.EQL && g.True) || (bo.Op == token.NEQ && !g.True) {
							ok = true
						}
					}
				}
			}
			c.Check("C05.R5", key, nearestPos(rs.at), ok, "nil only when no fallback entry exists", "the subset balancer returns no host on a path where a fallback entry may exist: healthy hosts outside the matched subset are not tried")
		case *ssa.Call:
			// (b) last resort: <fallbackSubset>.LoadBalancer().ChooseHost(ctx)
			ok := false
			if x.Common().IsInvoke() && x.Common().Method.Name() == "ChooseHost" {
				if inner, isC := x.Common().Value.(*ssa.Call); isC && methodName(inner.Common()) == "LoadBalancer" {
					if _, f, _, okf := loadedField(recvOf(inner.Common())); okf && f == "fallbackSubset" {
						ok = true
					}
				}
			}
			c.Check("C05.R5", key, nearestPos(rs.at), ok, "result of the fallback entry (last resort)", "a delegate's possibly-nil result is returned although it is not the last resort")
		default:
			// (a) intermediate delegate: must be known non-nil here
			ok := false
			for _, g := range guardsAt(rs.at.Block()) {
				if bo, isB := g.Cond.(*ssa.BinOp); isB && isNilConst(bo.Y) && stripIface(bo.X) == v {
					if (bo.Op == token.NEQ && g.True) || (bo.Op == token.EQL && !g.True) {
						ok = true
					}
				}
			}
			c.Check("C05.R5", key, nearestPos(rs.at), ok, "intermediate result returned only when non-nil; otherwise the fallback is tried", "the matched subset's result is returned even when it is nil (all hosts of that subset unhealthy): the configured fallback is skipped and no host is returned although the cluster has healthy hosts")
		}
	}
	if n < 3 {
		c.Unresolved("C05.R5", fmt.Sprintf("returns of subsetLoadBalancer.ChooseHost (found %d)", n))
	}
}
