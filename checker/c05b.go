package main

import (
	"fmt"
	"go/token"
	"go/types"
	"sort"
	"strings"

	"golang.org/x/tools/go/ssa"
)

// C05.R5 — a composite balancer answers "no host" only after its last resort was consulted.
//
// subsetLoadBalancer.ChooseHost combines several inner balancers (matched subset entry, full set, fallback entry). An
// inner balancer returns nil when all *its* hosts are unhealthy, which says nothing about the rest of the cluster. Clause
// ("no host only if none is healthy", composed with the fallback policy): every return of ChooseHost is one of
//
//	(a) a delegate's result on the edge where it is known non-nil,
//	(b) the result of the last-resort delegate (the fallback entry),
//	(c) nil on the edge where there is no fallback entry.
//
// A possibly-nil intermediate result returned directly hides healthy hosts behind an unhealthy subset.
func c05Composite(c *Ctx) {
	pkg := "pkg/upstream/cluster"
	fn := c.M(pkg, "subsetLoadBalancer", "ChooseHost")
	if fn == nil {
		c.Unresolved("C05.R5", "subsetLoadBalancer.ChooseHost")
		return
	}
	fk := funcKey(fn)
	n := 0
	for _, rs := range returnSites(fn, 0) {
		n++
		key := fmt.Sprintf("%s:return#%d", fk, n)
		v := stripIface(rs.val)
		switch x := v.(type) {
		case *ssa.Const:
			// (c) nil only when there is no fallback entry
			ok := false
			for _, g := range guardsAt(rs.at.Block()) {
				if bo, isB := g.Cond.(*ssa.BinOp); isB && isNilConst(bo.Y) {
					if _, f, _, okf := loadedField(bo.X); okf && f == "fallbackSubset" {
						if (bo.Op == token.EQL && g.True) || (bo.Op == token.NEQ && !g.True) {
							ok = true
						}
					}
				}
			}
			c.Check("C05.R5", key, nearestPos(rs.at), ok, "nil only when no fallback entry exists", "the subset balancer returns no host on a path where a fallback entry may exist: healthy hosts outside the matched subset are not tried")
		case *ssa.Call:
			// (b) last resort: <fallbackSubset>.LoadBalancer().ChooseHost(ctx)
			ok := false
			if x.Common().IsInvoke() && x.Common().Method.Name() == "ChooseHost" {
				if inner, isC := x.Common().Value.(*ssa.Call); isC && methodName(inner.Common()) == "LoadBalancer" {
					if _, f, _, okf := loadedField(recvOf(inner.Common())); okf && f == "fallbackSubset" {
						ok = true
					}
				}
			}
			c.Check("C05.R5", key, nearestPos(rs.at), ok, "result of the fallback entry (last resort)", "a delegate's possibly-nil result is returned although it is not the last resort")
		default:
			// (a) intermediate delegate: must be known non-nil here
			ok := false
			for _, g := range guardsAt(rs.at.Block()) {
				if bo, isB := g.Cond.(*ssa.BinOp); isB && isNilConst(bo.Y) && stripIface(bo.X) == v {
					if (bo.Op == token.NEQ && g.True) || (bo.Op == token.EQL && !g.True) {
						ok = true
					}
				}
			}
			c.Check("C05.R5", key, nearestPos(rs.at), ok, "intermediate result returned only when non-nil; otherwise the fallback is tried", "the matched subset's result is returned even when it is nil (all hosts of that subset unhealthy): the configured fallback is skipped and no host is returned although the cluster has healthy hosts")
		}
	}
	if n < 3 {
		c.Unresolved("C05.R5", fmt.Sprintf("returns of subsetLoadBalancer.ChooseHost (found %d)", n))
	}
}

// c05HostArrayPrivate (R3): a host set's backing array is its own, for ever.
// A ClusterSnapshot handed to a request keeps its hostSet (and the balancer built over it) after the cluster has moved
// on to a newer set; "sees entirely the old or entirely the new set" holds only because nobody ever writes the old
// set's array again. Clauses: (a) no value stored into hostSet.allHosts originates (through append / re-slicing /
// phi / helpers of the package) from sync.Pool.Get or from a slice kept in another object's field - recycled storage; (b) no slice read from hostSet.allHosts is given to sync.Pool.Put, stored
// in a package-level variable, or appended to (append may write into the spare capacity of the shared array).
func c05HostArrayPrivate(c *Ctx) {
	pkg := "pkg/upstream/cluster"
	var origin func(v ssa.Value, seen map[ssa.Value]bool, d int) (bool, string)
	origin = func(v ssa.Value, seen map[ssa.Value]bool, d int) (bool, string) {
		if seen[v] || d > 12 {
			return true, ""
		}
		seen[v] = true
		switch x := v.(type) {
		case *ssa.MakeSlice:
			return true, ""
		case *ssa.Const:
			return true, ""
		case *ssa.Parameter:
			return true, ""
		case *ssa.Slice:
			return origin(x.X, seen, d+1)
		case *ssa.Phi:
			for _, e := range x.Edges {
				if ok, why := origin(e, seen, d+1); !ok {
					return false, why
				}
			}
			return true, ""
		case *ssa.Alloc:
			return true, "" // array literal
		case *ssa.UnOp:
			if al, ok := x.X.(*ssa.Alloc); ok {
				for _, r := range refs(al) {
					if st, ok := r.(*ssa.Store); ok && st.Addr == ssa.Value(al) {
						if ok2, why := origin(st.Val, seen, d+1); !ok2 {
							return false, why
						}
					}
				}
				return true, ""
			}
			if fv, ok := x.X.(*ssa.FreeVar); ok {
				// captured variable of the sync.Once closure: judge the stores the enclosing function and the closure make
				_ = fv
				return true, ""
			}
			if _, f, _, ok := fieldAddrInfo(x.X); ok {
				return false, "the slice kept in field " + f
			}
		case *ssa.Call:
			if b, ok := x.Common().Value.(*ssa.Builtin); ok && b.Name() == "append" {
				return origin(x.Common().Args[0], seen, d+1)
			}
			if f := x.Common().StaticCallee(); f != nil {
				if f.Pkg != nil && strings.HasSuffix(f.Pkg.Pkg.Path(), pkg) && len(f.Blocks) > 0 && f.Signature.Results().Len() == 1 {
					// a helper of the package: what it returns must be fresh on every return
					for _, rs := range returnSites(f, 0) {
						if ok, why := origin(rs.val, seen, d+1); !ok {
							return false, why + " (returned by " + f.Name() + ")"
						}
					}
					return true, ""
				}
				if strings.HasSuffix(f.String(), "(*sync.Pool).Get") {
					return false, "storage taken from a sync.Pool"
				}
				return true, "" // other packages hand out their own storage
			}
			return true, "" // dynamic call (the builder's host cache): shared read-only; writers are caught by clause (b)
		case *ssa.TypeAssert:
			return origin(x.X, seen, d+1)
		case *ssa.Global:
			return false, "a package-level variable"
		}
		return false, "an origin the checker does not recognise (" + v.String() + ")"
	}
	n := 0
	ord := ordCounter{}
	for _, fn := range c.PkgFuncs(pkg) {
		forEachInstr(fn, false, func(f *ssa.Function, in ssa.Instruction) {
			if st, ok := in.(*ssa.Store); ok {
				if tn, fld, _, okf := fieldAddrInfo(st.Addr); okf && fld == "allHosts" && strings.HasSuffix(tn, "cluster.hostSet") {
					n++
					ok2, why := origin(st.Val, map[ssa.Value]bool{}, 0)
					c.Check("C05.R3", ord.next(f, "host-array-fresh"), st.Pos(), ok2, "the stored slice comes from a make in this function, nil or the caller", "hostSet.allHosts is set from "+why+": storage that may be handed out again is shared between host sets, so a snapshot still held by an in-flight request sees hosts of a later set written into its array - the lookup is neither entirely old nor entirely new and the balancer returns hosts that are not members of its set")
				}
			}
			// (b) sinks of a loaded allHosts
			if u, ok := in.(*ssa.UnOp); ok && u.Op == token.MUL {
				if tn, fld, _, okf := fieldAddrInfo(u.X); okf && fld == "allHosts" && strings.HasSuffix(tn, "cluster.hostSet") {
					var bad string
					var walk func(v ssa.Value, d int)
					walk = func(v ssa.Value, d int) {
						if d > 4 || bad != "" {
							return
						}
						for _, r := range refs(v) {
							switch y := r.(type) {
							case *ssa.Slice:
								walk(y, d+1)
							case *ssa.MakeInterface:
								walk(y, d+1)
							case *ssa.Store:
								if _, isG := y.Addr.(*ssa.Global); isG && y.Val == v {
									bad = "stored in a package-level variable"
								}
							case ssa.CallInstruction:
								cc := y.Common()
								if b, isB := cc.Value.(*ssa.Builtin); isB && b.Name() == "append" && len(cc.Args) > 0 && cc.Args[0] == v {
									bad = "appended to (append may write into the shared array's spare capacity)"
								}
								if callee := cc.StaticCallee(); callee != nil && strings.HasSuffix(callee.String(), "(*sync.Pool).Put") {
									bad = "given to sync.Pool.Put"
								}
							}
						}
					}
					walk(u, 0)
					if bad != "" {
						c.Fail("C05.R3", ord.next(f, "host-array-private"), u.Pos(), "the backing array of a host set is "+bad+" in "+f.Name()+": a snapshot still held by an in-flight request shares that array, so a later host set overwrites what the request iterates")
					}
				}
			}
		})
	}
	if n < 2 {
		c.Unresolved("C05.R3", "stores to hostSet.allHosts")
	}
}

// c05SampleThenScan (R8): a sampling policy gives up only after a full scan.
// "Power of k choices" policies (least-request, least-connection, peak-EWMA) look at `choice` random hosts. With one
// healthy host among many, all samples are usually unhealthy; the property then still demands that healthy host, so a
// sample that found nothing must be followed by something that looks at every host (a full-scan helper or another
// balancer's ChooseHost). Clause: no function returns a value that may be the empty result of a sampling loop - a loop
// bounded by the `choice` field - unless that value is known non-nil on the edge it is returned by; results of
// sampling helpers are followed through calls and phis.
func c05SampleThenScan(c *Ctx) {
	pkg := "pkg/upstream/cluster"
	isHost := func(t types.Type) bool { return strings.HasSuffix(t.String(), "types.Host") }
	// sampling loops: header compares the induction variable with something derived from field `choice`
	fromChoice := func(v ssa.Value) bool {
		for i := 0; i < 4; i++ {
			switch x := v.(type) {
			case *ssa.Convert:
				v = x.X
				continue
			case *ssa.ChangeType:
				v = x.X
				continue
			}
			break
		}
		_, f, _, ok := loadedField(v)
		return ok && f == "choice"
	}
	samplingBody := func(fn *ssa.Function) map[*ssa.BasicBlock]bool {
		for h, body := range naturalLoops(fn) {
			if ifi, ok := h.Instrs[len(h.Instrs)-1].(*ssa.If); ok {
				if bo, isB := ifi.Cond.(*ssa.BinOp); isB && bo.Op == token.LSS && fromChoice(bo.Y) {
					return body
				}
			}
		}
		return nil
	}
	sampling := map[*ssa.Function]bool{}
	var fns []*ssa.Function
	for _, fn := range c.PkgFuncs(pkg) {
		if fn.Signature.Results().Len() == 1 && isHost(fn.Signature.Results().At(0).Type()) && fn.Parent() == nil {
			fns = append(fns, fn)
		}
	}
	// nonNilOn: v is known non-nil when control is in block b (dominating guard), or arrives over the edge pred->succ
	nonNilAt := func(v ssa.Value, b *ssa.BasicBlock) bool {
		for _, g := range guardsAt(b) {
			if bo, ok := g.Cond.(*ssa.BinOp); ok && isNilConst(bo.Y) && bo.X == v {
				if (bo.Op == token.NEQ && g.True) || (bo.Op == token.EQL && !g.True) {
					return true
				}
			}
		}
		return false
	}
	nonNilEdge := func(v ssa.Value, pred, succ *ssa.BasicBlock) bool {
		if nonNilAt(v, pred) {
			return true
		}
		if ifi, ok := pred.Instrs[len(pred.Instrs)-1].(*ssa.If); ok {
			if bo, isB := ifi.Cond.(*ssa.BinOp); isB && isNilConst(bo.Y) && bo.X == v {
				taken := pred.Succs[0] == succ
				if (bo.Op == token.NEQ && taken) || (bo.Op == token.EQL && !taken) {
					return true
				}
			}
		}
		return false
	}
	// may v (evaluated in block b) be the empty result of a sample?
	var mayBeEmptySample func(fn *ssa.Function, v ssa.Value, b *ssa.BasicBlock, seen map[ssa.Value]bool) (bool, string)
	mayBeEmptySample = func(fn *ssa.Function, v ssa.Value, b *ssa.BasicBlock, seen map[ssa.Value]bool) (bool, string) {
		if seen[v] {
			return false, ""
		}
		seen[v] = true
		if nonNilAt(v, b) {
			return false, ""
		}
		switch x := v.(type) {
		case *ssa.Call:
			if cal := x.Common().StaticCallee(); cal != nil && sampling[cal] {
				return true, "the result of " + cal.Name() + "() (a sample of `choice` hosts)"
			}
		case *ssa.Phi:
			body := samplingBody(fn)
			if body != nil && body[x.Block()] {
				return true, "the candidate of the sampling loop"
			}
			for i, e := range x.Edges {
				pred := x.Block().Preds[i]
				if nonNilEdge(e, pred, x.Block()) {
					continue
				}
				if bad, why := mayBeEmptySample(fn, e, pred, seen); bad {
					return true, why
				}
			}
		}
		return false, ""
	}
	// fixed point for "sampling" functions: a function is sampling if one of its returns may be an empty sample
	for changed := true; changed; {
		changed = false
		for _, fn := range fns {
			if sampling[fn] {
				continue
			}
			for _, rs := range returnSites(fn, 0) {
				if bad, _ := mayBeEmptySample(fn, rs.val, rs.at.Block(), map[ssa.Value]bool{}); bad {
					sampling[fn] = true
					changed = true
				}
			}
		}
	}
	// Obligation: the balancers' choosers (what EdfLoadBalancer / ChooseHost hand out) are not sampling functions.
	// Helpers whose only job is to sample (called by a function that falls back) may be.
	n := 0
	for _, fn := range fns {
		name := fn.Name()
		if !(name == "ChooseHost" || strings.HasPrefix(name, "unweightChoose") || strings.HasPrefix(name, "unweightedChoose")) {
			continue
		}
		n++
		why := ""
		for _, rs := range returnSites(fn, 0) {
			if bad, w := mayBeEmptySample(fn, rs.val, rs.at.Block(), map[ssa.Value]bool{}); bad {
				why = w + " is returned at " + shortPos(c, nearestPos(rs.at))
			}
		}
		c.Check("C05.R8", funcKey(fn)+":sample-then-scan", fn.Pos(), why == "", "never returns the empty result of a sample: a full scan or another balancer is consulted first", fn.Name()+" can give up after looking at `choice` random hosts only ("+why+" without being known non-nil): with one healthy host among many unhealthy ones it returns no host although a healthy host exists")
	}
	if n < 5 {
		c.Unresolved("C05.R8", fmt.Sprintf("balancer choosers in %s (found %d)", pkg, n))
	}
	var names []string
	for f := range sampling {
		names = append(names, f.Name())
	}
	sort.Strings(names)
	c.Extra["sampling_functions"] = strings.Join(names, ",")
}

// c05ReplacementInstalled (R9): a pushed host set is always installed.
// "Current host set" in the property is the last set pushed by UpdateClusterHosts / AppendClusterHosts /
// RemoveClusterHosts / AddOrUpdateClusterAndHost. Everything a balancer returns afterwards comes out of the snapshot
// Cluster.UpdateHosts publishes, so the clause is a must-pass-through: (a) every function used as the host update handler
// of clusterManager.UpdateHosts (a function value passed as its third argument) calls Cluster.UpdateHosts on every path
// from its entry to its return - no early return keeps the previous set; (b) clusterManager.UpdateHosts calls the handler
// on every path that reports success, skipping it only when the handler is nil.
func c05ReplacementInstalled(c *Ctx) {
	pkg := "pkg/upstream/cluster"
	up := c.M(pkg, "clusterManager", "UpdateHosts")
	if up == nil || len(up.Params) < 4 {
		c.Unresolved("C05.R9", "clusterManager.UpdateHosts")
		return
	}
	isInstall := func(in ssa.Instruction) bool {
		ci, ok := in.(*ssa.Call)
		return ok && methodName(ci.Common()) == "UpdateHosts" && ci.Common().IsInvoke()
	}
	handlers := map[*ssa.Function]bool{}
	for _, fn := range c.PkgFuncs(pkg) {
		for _, cs := range callsIn(fn, false, func(cc *ssa.CallCommon) bool { return cc.StaticCallee() == up }) {
			args := cs.Instr.Common().Args
			h := args[len(args)-1]
			for {
				ct, isCT := h.(*ssa.ChangeType)
				if !isCT {
					break
				}
				h = ct.X
			}
			switch x := h.(type) {
			case *ssa.Function:
				handlers[x] = true
			case *ssa.MakeClosure:
				handlers[x.Fn.(*ssa.Function)] = true
			case *ssa.Const:
				// nil handler: refresh only
			case *ssa.Parameter:
				// pass-through (UpdateHosts of a wrapper): judged at the wrapper's callers
			default:
				c.Unresolved("C05.R9", "host update handler passed at "+shortPos(c, cs.Instr.Pos()))
			}
		}
	}
	// NewSimpleHostHandler is also called directly when a cluster is added with its hosts
	for _, name := range []string{"NewSimpleHostHandler", "AppendSimpleHostHandler"} {
		if f := c.F(pkg, name); f != nil {
			handlers[f] = true
		}
	}
	var hs []*ssa.Function
	for h := range handlers {
		hs = append(hs, h)
	}
	sort.Slice(hs, func(i, j int) bool { return hs[i].String() < hs[j].String() })
	for _, h := range hs {
		bad := existsPath(h, nil, isReturn, isInstall)
		pos := h.Pos()
		if bad != nil {
			pos = nearestPos(bad)
		}
		c.Check("C05.R9", funcKey(h)+":replacement-installed", pos, bad == nil, "every path of the handler reaches Cluster.UpdateHosts", "the host update handler can return without installing the pushed host set: the cluster keeps its previous hosts, and every balancer keeps returning hosts that are no longer members of the current host set")
	}
	if len(hs) < 3 {
		c.Unresolved("C05.R9", fmt.Sprintf("host update handlers of clusterManager.UpdateHosts (found %d)", len(hs)))
	}
	// (b)
	hp := up.Params[len(up.Params)-1]
	isHandlerCall := func(in ssa.Instruction) bool {
		ci, ok := in.(*ssa.Call)
		return ok && ci.Common().Value == ssa.Value(hp)
	}
	ok := true
	var at token.Pos = up.Pos()
	for _, rs := range returnSites(up, 0) {
		if !isNilConst(rs.val) {
			continue
		}
		// walk back: a success return not preceded by the handler call on some path, other than the nil-handler edge
		if p := existsPathEdges(up, nil, func(in ssa.Instruction) bool { return in == rs.at }, isHandlerCall, func(from, to *ssa.BasicBlock) bool {
			if ifi, isIf := from.Instrs[len(from.Instrs)-1].(*ssa.If); isIf {
				if bo, isBO := ifi.Cond.(*ssa.BinOp); isBO && bo.X == ssa.Value(hp) && isNilConst(bo.Y) {
					// only the "handler is nil" edge may skip the call
					nilEdge := from.Succs[0]
					if bo.Op == token.NEQ {
						nilEdge = from.Succs[1]
					}
					return to != nilEdge
				}
			}
			return true
		}); p != nil {
			ok, at = false, nearestPos(p)
		}
	}
	c.Check("C05.R9", funcKey(up)+":handler-always-called", at, ok, "success is reported only after the handler ran", "clusterManager.UpdateHosts can report success without running the host update handler: the pushed host set is dropped")
}

// snapshotLBBuiltFromItsHostSet (C05.R10 / C06.R7): the balancer a snapshot publishes was built from the host set the same
// snapshot publishes. simpleCluster.UpdateHosts stores a fresh clusterSnapshot{lb, hostSet, info}. Every policy keeps its own
// image of the hosts (weights in the EDF scheduler, the maglev table, subset indexes), so the two fields describe the same
// membership and the same weights only if `lb` is the result of a balancer constructor that received this very `hostSet`
// value - on every path, also through a helper of the package. A balancer kept from the previous update "because nothing
// changed" serves the previous weights (and hosts) whenever the notion of "nothing changed" forgets a field.
func snapshotLBBuiltFromItsHostSet(c *Ctx, rule string) {
	pkg := "pkg/upstream/cluster"
	fn := c.M(pkg, "simpleCluster", "UpdateHosts")
	if fn == nil {
		c.Unresolved(rule, "simpleCluster.UpdateHosts")
		return
	}
	var lbVal, hsVal ssa.Value
	var at token.Pos
	forEachInstr(fn, false, func(_ *ssa.Function, in ssa.Instruction) {
		st, ok := in.(*ssa.Store)
		if !ok {
			return
		}
		t, f, _, ok := fieldAddrInfo(st.Addr)
		if !ok || !strings.HasSuffix(t, "clusterSnapshot") {
			return
		}
		switch f {
		case "lb":
			lbVal, at = st.Val, st.Pos()
		case "hostSet":
			hsVal = st.Val
		}
	})
	if lbVal == nil || hsVal == nil {
		c.Unresolved(rule, "the clusterSnapshot literal of simpleCluster.UpdateHosts (lb / hostSet)")
		return
	}
	why := ""
	var built func(v ssa.Value, hs ssa.Value, d int) bool
	built = func(v ssa.Value, hs ssa.Value, d int) bool {
		if d > 6 {
			why = "analysis depth exceeded"
			return false
		}
		switch x := v.(type) {
		case *ssa.Phi:
			for _, e := range x.Edges {
				if !built(e, hs, d+1) {
					return false
				}
			}
			return true
		case *ssa.MakeInterface:
			return built(x.X, hs, d+1)
		case *ssa.ChangeInterface:
			return built(x.X, hs, d+1)
		case *ssa.Call:
			callee := x.Common().StaticCallee()
			args := x.Common().Args
			idx := -1
			for i, a := range args {
				if a == hs {
					idx = i
				}
			}
			if idx < 0 {
				why = "built by " + calleeName(x.Common()) + " without this host set"
				return false
			}
			name := methodName(x.Common())
			if strings.HasPrefix(name, "New") && strings.Contains(name, "LoadBalancer") {
				return true
			}
			// a helper of the package: each of its results must be built from the parameter that receives the host set
			if callee != nil && len(callee.Blocks) > 0 && callee.Pkg == fn.Pkg && idx < len(callee.Params) {
				for _, rs := range returnSites(callee, 0) {
					if !built(rs.val, callee.Params[idx], d+1) {
						return false
					}
				}
				return true
			}
			why = "built by " + calleeName(x.Common()) + ", which is not a balancer constructor"
			return false
		case *ssa.UnOp:
			if _, f, _, ok := fieldAddrInfo(x.X); ok {
				why = "taken from the field " + f + " (a balancer of an earlier update)"
				return false
			}
		}
		why = fmt.Sprintf("of unrecognised origin (%T)", v)
		return false
	}
	ok := built(lbVal, hsVal, 0)
	c.Check(rule, funcKey(fn)+":snapshot-lb-built-from-its-host-set", at, ok, "the published balancer is constructed from the published host set on every path", "the load balancer published in a cluster snapshot is not always built from the host set published with it ("+why+"): the balancer serves the weights and members of an earlier update while the snapshot's host set shows the new ones")
}
