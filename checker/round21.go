package main

import (
	"fmt"
	"go/constant"
	"go/token"
	"go/types"
	"strings"

	"golang.org/x/tools/go/ssa"
)

// Clauses for the repairs of round 16's side findings (S330-S356; /repo commits b41ba5b11..555aaca9b, §5 rows 152-159).

func runRound21(c *Ctx, spec *PropSpec) {
	switch spec.ID {
	case "C01":
		h2TruncatedHeaderListRefused(c, "C01.R29")
		http1ForwardAddsNoDefaultContentType(c)
		http1ClientSkipsInterimResponses(c)
	case "C08":
		h2HeadersOnHalfClosedStreamRefused(c, "C08.B17")
		tarsRecursiveReaderBehindDepthCheck(c)
	case "C09":
		pingPongCountsUnderItsLock(c, "C09.R18")
	case "C10":
		pingPongCountsUnderItsLock(c, "C10.MAXCONN")
	case "C13":
		sdsProvidersRegisteredAfterTheLastRefusal(c, "C13.R34")
	case "C17":
		redirectKeepsTheHostText(c)
		nonPositiveRequestTimeoutIgnored(c)
	case "C18":
		h2HeadersOnHalfClosedStreamRefused(c, "C18.W26")
		h2TruncatedHeaderListRefused(c, "C18.W27")
	}
}

// returnsOnlyErrors: every return reachable from block b has a non-nil last result.
func returnsOnlyErrors(fn *ssa.Function, b *ssa.BasicBlock) bool {
	ok := true
	reach := reachableFrom(b)
	for _, in := range instrsWhere(fn, isReturn) {
		if !reach[in.Block()] {
			continue
		}
		r := in.(*ssa.Return)
		if len(r.Results) == 0 || isNilConst(unspill(r, len(r.Results)-1)) {
			ok = false
		}
	}
	return ok
}

// ---------------------------------------------------------------------------------------------------------------------
// C08.B17 = C18.W26 (S338, repair 152): HEADERS for a stream whose request is complete (half-closed remote) is refused
// with STREAM_CLOSED, as the reference does. Taken for trailers it made the stream layer dereference a nil trailer map
// (a panic of the read loop on peer input) or hand the request to the proxy a second time. Clause: every
// mprocessTrailerHeaders call of MServerConn.processHeaders lies on the false edge of st.state == stateHalfClosedRemote,
// whose true edge leaves with an error.
func h2HeadersOnHalfClosedStreamRefused(c *Ctx, rule string) {
	c.Rule(rule, "HTTP/2 server: HEADERS on a half-closed (remote) stream is refused before it can be taken for trailers", 1)
	fn := c.M("pkg/module/http2", "MServerConn", "processHeaders")
	if fn == nil {
		c.Unresolved(rule, "MServerConn.processHeaders")
		return
	}
	half := int64(-1)
	if p := c.TypesPkg("pkg/module/http2"); p != nil {
		if k, ok := p.Scope().Lookup("stateHalfClosedRemote").(*types.Const); ok {
			half, _ = constant.Int64Val(k.Val())
		}
	}
	if half < 0 {
		c.Unresolved(rule, "constant stateHalfClosedRemote")
		return
	}
	n := 0
	ord := ordCounter{}
	for _, cs := range callsIn(fn, false, calledAs("mprocessTrailerHeaders")) {
		n++
		ok := false
		for _, g := range guardsAt(cs.Instr.Block()) {
			b, isB := g.Cond.(*ssa.BinOp)
			if !isB || (b.Op != token.EQL && b.Op != token.NEQ) {
				continue
			}
			bx, by := b.X, b.Y
			if _, isKx := constInt(bx); isKx {
				bx, by = by, bx
			}
			_, f, _, isF := loadedField(bx)
			k, isK := constInt(by)
			if isF && f == "state" && isK && k == half && (b.Op == token.EQL) != g.True {
				// the other edge only leaves with an error
				other := g.If.Block().Succs[0]
				if g.True {
					other = g.If.Block().Succs[1]
				}
				if b.Op == token.NEQ {
					other = g.If.Block().Succs[1]
				}
				if returnsOnlyErrors(fn, other) {
					ok = true
				}
			}
		}
		c.Check(rule, ord.next(fn, "half-closed-stream-refuses-headers"), cs.Instr.Pos(), ok, "under st.state != stateHalfClosedRemote; the other edge returns a stream error",
			"MServerConn.processHeaders takes a HEADERS frame for trailers although the request of that stream is already complete (half-closed remote): the stream layer dereferences the nil trailer map of a request without body - a panic of the connection's read loop on 18 peer bytes - or hands the request to the proxy a second time; the reference answers STREAM_CLOSED")
	}
	if n == 0 {
		c.Unresolved(rule, "mprocessTrailerHeaders call in MServerConn.processHeaders")
	}
}

// ---------------------------------------------------------------------------------------------------------------------
// C01.R29 = C18.W27 (S341, repair 153): a request whose header list was cut at MaxHeaderListSize is not served. Clause:
// processHeaders and mprocessTrailerHeaders read MetaHeadersFrame.Truncated and the true edge leaves with an error.
func h2TruncatedHeaderListRefused(c *Ctx, rule string) {
	c.Rule(rule, "HTTP/2 server: a header block the framer truncated (MaxHeaderListSize) is refused, for requests and for trailers", 2)
	pkg := "pkg/module/http2"
	for _, fn := range []*ssa.Function{c.M(pkg, "MServerConn", "processHeaders"), c.M(pkg, "stream", "mprocessTrailerHeaders")} {
		if fn == nil {
			c.Unresolved(rule, "MServerConn.processHeaders / stream.mprocessTrailerHeaders")
			continue
		}
		ok := false
		for _, b := range fn.Blocks {
			ifi, isIf := b.Instrs[len(b.Instrs)-1].(*ssa.If)
			if !isIf {
				continue
			}
			for _, g := range normGuard(Guard{Cond: ifi.Cond, True: true, If: ifi}) {
				if _, f, _, isF := loadedField(g.Cond); isF && f == "Truncated" {
					t := b.Succs[0]
					if !g.True {
						t = b.Succs[1]
					}
					if returnsOnlyErrors(fn, t) {
						ok = true
					}
				}
			}
		}
		c.Check(rule, funcKey(fn)+":truncated-block-refused", fn.Pos(), ok, "f.Truncated is tested and its true edge returns an error",
			fn.String()+" never looks at MetaHeadersFrame.Truncated: a request (or trailers) larger than the announced SETTINGS_MAX_HEADER_LIST_SIZE is routed and sent upstream with the tail of its header list silently missing; the reference answers 431")
	}
}

// ---------------------------------------------------------------------------------------------------------------------
// C01.R30 (S330, repair 157): a forwarded HTTP/1 message gets no Content-Type of fasthttp's invention. Clause: in
// clientStream.AppendHeaders and serverStream.AppendHeaders of pkg/stream/http every CopyTo into the outgoing header is
// followed, on every path to the return, by SetNoDefaultContentType(true).
func http1ForwardAddsNoDefaultContentType(c *Ctx) {
	const rule = "C01.R30"
	c.Rule(rule, "HTTP/1: the outgoing header a forwarded message is copied into has fasthttp's default Content-Type switched off", 2)
	pkg := "pkg/stream/http"
	n := 0
	for _, tn := range []string{"clientStream", "serverStream"} {
		fn := c.M(pkg, tn, "AppendHeaders")
		if fn == nil {
			c.Unresolved(rule, tn+".AppendHeaders")
			continue
		}
		ord := ordCounter{}
		for _, cs := range callsIn(fn, false, calledAs("CopyTo")) {
			n++
			off := func(in ssa.Instruction) bool {
				ci, ok := in.(ssa.CallInstruction)
				if !ok || methodName(ci.Common()) != "SetNoDefaultContentType" {
					return false
				}
				args := ci.Common().Args
				return len(args) > 0 && isConstBool(args[len(args)-1], true)
			}
			bad := existsPath(fn, cs.Instr, isReturn, off)
			c.Check(rule, ord.next(fn, "no-default-content-type"), cs.Instr.Pos(), bad == nil, "SetNoDefaultContentType(true) follows the copy on every path",
				tn+".AppendHeaders copies the forwarded header and leaves fasthttp's default Content-Type on: a message without Content-Type reaches the other side with one (text/plain; charset=utf-8 for a response, application/octet-stream for a request) although no rewrite is configured")
		}
	}
	if n < 2 {
		c.Unresolved(rule, fmt.Sprintf("CopyTo calls in the AppendHeaders of pkg/stream/http: %d found, 2 expected", n))
	}
}

// ---------------------------------------------------------------------------------------------------------------------
// C01.R31 (S334, repair 156): the HTTP/1 client hands over the final response. fasthttp skips one "100 Continue"; any
// other interim 1xx came back as the response and the real one was lost. Clause: in clientStreamConnection.serve every
// path from a Response.Read to handleResponse passes a test of the response's StatusCode.
func http1ClientSkipsInterimResponses(c *Ctx) {
	const rule = "C01.R31"
	c.Rule(rule, "HTTP/1 client: between reading a response and handing it over its status is tested for an interim 1xx (the final response is awaited)", 1)
	fn := c.M("pkg/stream/http", "clientStreamConnection", "serve")
	if fn == nil {
		c.Unresolved(rule, "clientStreamConnection.serve")
		return
	}
	reads := callsIn(fn, false, func(cc *ssa.CallCommon) bool {
		return methodName(cc) == "Read" && strings.Contains(calleeName(cc), "fasthttp.Response")
	})
	if len(reads) == 0 {
		c.Unresolved(rule, "Response.Read in serve")
		return
	}
	ord := ordCounter{}
	for _, rd := range reads {
		bad := existsPathEdges(fn, rd.Instr, func(in ssa.Instruction) bool {
			ci, ok := in.(ssa.CallInstruction)
			return ok && methodName(ci.Common()) == "handleResponse"
		}, func(in ssa.Instruction) bool {
			ci, ok := in.(ssa.CallInstruction)
			if !ok {
				return false
			}
			return methodName(ci.Common()) == "StatusCode" || (in != ssa.Instruction(rd.Instr) && methodName(ci.Common()) == "Read" && strings.Contains(calleeName(ci.Common()), "fasthttp.Response"))
		}, func(from, to *ssa.BasicBlock) bool {
			// only the paths on which the read succeeded: edges that assert a non-nil error are not followed (the CFG
			// alone would join `err == nil` false with `err != nil` false)
			ifi, ok := from.Instrs[len(from.Instrs)-1].(*ssa.If)
			if !ok {
				return true
			}
			b, isB := ifi.Cond.(*ssa.BinOp)
			if !isB || !isNilConst(b.Y) || !strings.HasSuffix(b.X.Type().String(), "error") {
				return true
			}
			if b.Op == token.EQL && to == from.Succs[1] && from.Succs[0] != from.Succs[1] {
				return false
			}
			if b.Op == token.NEQ && to == from.Succs[0] && from.Succs[0] != from.Succs[1] {
				return false
			}
			return true
		})
		c.Check(rule, ord.next(fn, "interim-response-not-handed-over"), rd.Instr.Pos(), bad == nil, "the status is looked at before handleResponse",
			"clientStreamConnection.serve hands a response over without having looked at its status: a 102 / 103 (or a second 100) the upstream sends ahead of its answer is taken for the answer, the client gets the interim response and the real one is lost on the connection")
	}
}

// ---------------------------------------------------------------------------------------------------------------------
// C17.R33 (S351, repair 154): the Location of a scheme redirect keeps the host as it was written. Clause: the value
// the redirect code stores into url.URL.Host when it strips a default port does not derive from SplitHostPort's host
// result (which has lost the brackets of an IPv6 literal).
func redirectKeepsTheHostText(c *Ctx) {
	const rule = "C17.R33"
	c.Rule(rule, "a scheme redirect that drops the default port keeps the host text (the brackets of an IPv6 literal): the new Host is not SplitHostPort's host result", 1)
	n := 0
	for _, fn := range c.PkgFuncs("pkg/proxy") {
		if len(fn.Blocks) == 0 {
			continue
		}
		ord := ordCounter{}
		forEachInstr(fn, false, func(_ *ssa.Function, in ssa.Instruction) {
			st, ok := in.(*ssa.Store)
			if !ok {
				return
			}
			tn, fld, _, okf := fieldAddrInfo(st.Addr)
			if !okf || fld != "Host" || !strings.HasSuffix(tn, "net/url.URL") {
				return
			}
			fromSplit, hostResult := false, false
			derivesFrom(st.Val, func(v ssa.Value) bool {
				ex, isE := v.(*ssa.Extract)
				if isE {
					if cl, isC := ex.Tuple.(*ssa.Call); isC && calleeName(cl.Common()) == "net.SplitHostPort" {
						fromSplit = true
						if ex.Index == 0 {
							hostResult = true
						}
					}
				}
				return false
			})
			if !fromSplit {
				return
			}
			n++
			c.Check(rule, ord.next(declaredFunc(fn), "host-text-kept"), st.Pos(), !hostResult, "the port suffix is cut off the original host",
				"the redirect code installs SplitHostPort's host result as the Location's host: for an IPv6 literal that result has no brackets, so `Host: [::1]:80` redirected to https gives `Location: https://::1/path` - not the configured redirect")
		})
	}
	if n == 0 {
		c.Unresolved(rule, "the store into url.URL.Host that strips the default port")
	}
}

// ---------------------------------------------------------------------------------------------------------------------
// C17.R34 (S352, repair 155): a request-supplied global timeout that is not positive says "none", it does not displace
// the route's. Clause: in parseProxyTimeout every store into GlobalTimeout of a value parsed from the request (a
// strconv result) lies under `> 0` on that parsed value.
func nonPositiveRequestTimeoutIgnored(c *Ctx) {
	const rule = "C17.R34"
	c.Rule(rule, "parseProxyTimeout accepts a header / protocol global timeout only when it is positive (0 or -1 leave the route's timeout in force)", 2)
	fn := c.F("pkg/proxy", "parseProxyTimeout")
	if fn == nil {
		c.Unresolved(rule, "proxy.parseProxyTimeout")
		return
	}
	n := 0
	ord := ordCounter{}
	for _, st := range storesToField(fn, "Timeout", "GlobalTimeout", false) {
		var parsed ssa.Value
		derivesFrom(st.Val, func(v ssa.Value) bool {
			if ex, isE := v.(*ssa.Extract); isE && ex.Index == 0 {
				if cl, isC := ex.Tuple.(*ssa.Call); isC && strings.HasPrefix(calleeName(cl.Common()), "strconv.") {
					parsed = ex
				}
			}
			return false
		})
		if parsed == nil {
			continue
		}
		n++
		ok := false
		for _, g := range guardsAt(st.Block()) {
			b, isB := g.Cond.(*ssa.BinOp)
			if !isB {
				continue
			}
			x, y, op := b.X, b.Y, b.Op
			if _, isKx := constInt(x); isKx { // 0 < v is v > 0
				x, y = y, x
				switch op {
				case token.LSS:
					op = token.GTR
				case token.GEQ:
					op = token.LEQ
				case token.GTR:
					op = token.LSS
				case token.LEQ:
					op = token.GEQ
				}
			}
			k, isK := constInt(y)
			if stripConv(x) == parsed && isK && k == 0 && ((op == token.GTR && g.True) || (op == token.LEQ && !g.True)) {
				ok = true
			}
		}
		c.Check(rule, ord.next(fn, "request-timeout-positive"), st.Pos(), ok, "the parsed value is stored under > 0",
			"parseProxyTimeout lets a parsed header / protocol value of 0 or -1 overwrite the route's global timeout; the sanitising step then turns it into the 60s default: a route configured with 5s waits 60s for every request whose frame says 'no timeout'")
	}
	if n < 2 {
		c.Unresolved(rule, fmt.Sprintf("stores of a parsed value into GlobalTimeout in parseProxyTimeout: %d found, 2 expected (header, variable)", n))
	}
}

// ---------------------------------------------------------------------------------------------------------------------
// C13.R34 (S350, repair 158): a refused listener update leaves the live tls policy alone. The sds providers
// are process-wide objects shared, by index, with the manager of the running listener; registering one writes the new
// configuration into it. Clause: in NewTLSServerContextManager no return with a non-nil error is reachable from an
// addOrUpdateProvider / NewProvider call that can register an sds provider - here: from any addOrUpdateProvider call.
func sdsProvidersRegisteredAfterTheLastRefusal(c *Ctx, rule string) {
	c.Rule(rule, "NewTLSServerContextManager registers shared sds providers only when nothing can refuse the configuration any more", 1)
	fn := c.F("pkg/mtls", "NewTLSServerContextManager")
	if fn == nil {
		c.Unresolved(rule, "mtls.NewTLSServerContextManager")
		return
	}
	regs := callsIn(fn, false, calledAs("addOrUpdateProvider"))
	if len(regs) == 0 {
		// the older shape: NewProvider registers sds providers itself, inside the validating loop
		np := callsIn(fn, false, calledAs("NewProvider"))
		if len(np) == 0 {
			c.Unresolved(rule, "addOrUpdateProvider / NewProvider call in NewTLSServerContextManager")
			return
		}
		sdsGuarded := true
		for _, cs := range np {
			// accepted only when the call cannot see an sds context: guarded by SdsConfig == nil or !Status
			g := false
			for _, gd := range guardsAt(cs.Instr.Block()) {
				if derivesFrom(gd.Cond, func(v ssa.Value) bool { _, f, _, isF := loadedField(v); return isF && f == "SdsConfig" }) {
					g = true
				}
			}
			if !g {
				sdsGuarded = false
			}
		}
		c.Check(rule, funcKey(fn)+":sds-registered-after-the-last-refusal", fn.Pos(), sdsGuarded, "NewProvider is only called for static contexts",
			"NewTLSServerContextManager registers an sds context (NewProvider -> addOrUpdateProvider) while later contexts can still be refused: the shared provider of the running listener already serves the refused configuration - client certificates no longer required, say - although the update was rejected")
		return
	}
	ord := ordCounter{}
	for _, cs := range regs {
		bad := existsPath(fn, cs.Instr, func(in ssa.Instruction) bool {
			r, ok := in.(*ssa.Return)
			return ok && isReturn(in) && len(r.Results) > 0 && !isNilConst(unspill(r, len(r.Results)-1))
		}, nil)
		c.Check(rule, ord.next(fn, "sds-registered-after-the-last-refusal"), cs.Instr.Pos(), bad == nil, "no error return is reachable from the registration",
			"NewTLSServerContextManager registers a shared sds provider and can still return an error afterwards: the update is refused, but the provider the running listener uses already carries the refused configuration")
	}
}

// ---------------------------------------------------------------------------------------------------------------------
// C10.MAXCONN = C09.R18 (S342, repair 159): the ping-pong pool's connection count is raised in the critical section that
// compared it with max_connections. Counted only after the dial, every request that arrives while a connection is being
// established passes the test and dials its own. Clause: the totalClientCount.Inc() of GetActiveClient runs with
// clientMux held.
func pingPongCountsUnderItsLock(c *Ctx, rule string) {
	c.Rule(rule, "ping-pong pool: the connection count is raised under clientMux, in the critical section that compared it with max_connections", 1)
	fn := c.M("pkg/stream/xprotocol", "poolPingPong", "GetActiveClient")
	if fn == nil {
		c.Unresolved(rule, "poolPingPong.GetActiveClient")
		return
	}
	n := 0
	ord := ordCounter{}
	forEachInstr(fn, false, func(_ *ssa.Function, in ssa.Instruction) {
		ci, ok := in.(*ssa.Call)
		if !ok || methodName(ci.Common()) != "Inc" {
			return
		}
		if _, f, _, isF := fieldAddrInfo(recvOf(ci.Common())); !isF || f != "totalClientCount" {
			return
		}
		n++
		c.Check(rule, ord.next(fn, "counted-where-compared"), in.Pos(), lockHeld(in, "clientMux"), "totalClientCount.Inc() with clientMux held",
			"poolPingPong.GetActiveClient raises totalClientCount outside the critical section in which it compared it with max_connections: all requests that arrive while a connection is being dialed pass the comparison and dial their own - max_connections does not trip at its threshold, and a close of the new connection before the increment wraps the unsigned counter")
	})
	if n == 0 {
		c.Unresolved(rule, "totalClientCount.Inc() in poolPingPong.GetActiveClient")
	}
}

// ---------------------------------------------------------------------------------------------------------------------
// C08.B18 (S366, recorded as a known finding): a reader that recurses on the structure of peer input is reached only
// behind a depth check. TarsGo's codec.Reader skips unknown fields by mutual recursion (skipField <-> SkipToStructEnd,
// one level per nested STRUCT_BEGIN / list / map head): about 10 MB of 0x2A bytes recurse ten million deep and end in
// `fatal error: stack overflow`, which no recover() catches - the whole process exits, every connection with it. Clause:
// for every function of the tars codec from which a recursive function of TarsGo's codec package is reachable, the
// decode entry point (tarsProtocol.Decode) calls, on every path in front of the first such function, a validator: a
// function of the tars package that takes the package bytes, can return an error, and reaches no recursive function.
func tarsRecursiveReaderBehindDepthCheck(c *Ctx) {
	const rule = "C08.B18"
	c.Rule(rule, "tars: TarsGo's recursive field skipping is reached only behind a non-recursive validation of the package (nesting depth bounded)", 1)
	pkg := "pkg/protocol/xprotocol/tars"
	dec := c.M(pkg, "tarsProtocol", "Decode")
	if dec == nil {
		c.Unresolved(rule, "tarsProtocol.Decode")
		return
	}
	// recursive functions of the TarsGo codec package: on a cycle of static calls
	const tg = "github.com/TarsCloud/TarsGo/tars/protocol/codec"
	var cfns []*ssa.Function
	for fn := range c.all {
		if fn.Pkg != nil && fn.Pkg.Pkg.Path() == tg && len(fn.Blocks) > 0 {
			cfns = append(cfns, fn)
		}
	}
	if len(cfns) == 0 {
		c.Unresolved(rule, tg+" is not loaded with function bodies")
		return
	}
	callees := func(f *ssa.Function) []*ssa.Function {
		var out []*ssa.Function
		forEachInstr(f, true, func(_ *ssa.Function, in ssa.Instruction) {
			if ci, ok := in.(ssa.CallInstruction); ok {
				if cal := ci.Common().StaticCallee(); cal != nil && len(cal.Blocks) > 0 {
					out = append(out, cal)
				}
			}
		})
		return out
	}
	recursive := map[*ssa.Function]bool{}
	for _, f := range cfns {
		seen := map[*ssa.Function]bool{}
		work := callees(f)
		for len(work) > 0 {
			x := work[len(work)-1]
			work = work[:len(work)-1]
			if x == f {
				recursive[f] = true
				break
			}
			if seen[x] || x.Pkg == nil || x.Pkg.Pkg.Path() != tg {
				continue
			}
			seen[x] = true
			work = append(work, callees(x)...)
		}
	}
	if len(recursive) == 0 {
		c.Pass(rule, funcKey(dec)+":recursive-reader-behind-depth-check", dec.Pos(), "no function of "+tg+" is recursive")
		return
	}
	reaches := func(f *ssa.Function) bool {
		for x := range staticReach([]*ssa.Function{f}, "") {
			if recursive[x] {
				return true
			}
		}
		return false
	}
	// the first calls of Decode from which a recursive reader is reachable
	n := 0
	ord := ordCounter{}
	for _, cs := range callsIn(dec, false, func(cc *ssa.CallCommon) bool {
		cal := cc.StaticCallee()
		return cal != nil && len(cal.Blocks) > 0 && reaches(cal)
	}) {
		n++
		validated := false
		for _, vs := range callsIn(dec, false, func(cc *ssa.CallCommon) bool {
			cal := cc.StaticCallee()
			if cal == nil || cal.Pkg != dec.Pkg || len(cal.Blocks) == 0 || reaches(cal) {
				return false
			}
			takesBytes := false
			for _, a := range cc.Args {
				if isByteSlice(a.Type()) || isIoBuffer(a.Type()) {
					takesBytes = true
				}
			}
			res := cal.Signature.Results()
			return takesBytes && res.Len() > 0 && strings.HasSuffix(res.At(res.Len()-1).Type().String(), "error")
		}) {
			if instrDominates(vs.Instr, cs.Instr) {
				validated = true
			}
		}
		c.Check(rule, ord.next(dec, "recursive-reader-behind-depth-check"), cs.Instr.Pos(), validated, "a non-recursive validator of the tars package runs first",
			fmt.Sprintf("tarsProtocol.Decode hands peer bytes to %s, from which TarsGo's recursive field skipping (%d mutually recursive functions of %s) is reachable, with no bounded pre-scan in front: a package of nested STRUCT_BEGIN heads recurses one level per byte and ends in a fatal stack overflow that no recover() catches - the process exits and every connection goes with it", cs.Instr.Common().StaticCallee().Name(), len(recursive), tg))
	}
	if n == 0 {
		c.Unresolved(rule, "no call of tarsProtocol.Decode reaches the TarsGo reader")
	}
}
