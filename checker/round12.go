package main

import (
	"fmt"
	"go/token"
	"go/types"
	"strings"

	"golang.org/x/tools/go/ssa"
)

// Clauses added in seeding round 12 (Cxx-10).

func runRound12(c *Ctx, spec *PropSpec) {
	switch spec.ID {
	case "C14":
		c14RegistrationOrderKept(c)
	case "C10":
		globalTimeoutActsOnCurrentTry(c, "C10.TIMER")
	case "C03":
		globalTimeoutActsOnCurrentTry(c, "C03.R15")
		c03CloseWalkUnderTheListLock(c)
	case "C17":
		c17RegexRewriteExpandsTemplate(c)
	case "C20":
		c20RawRedactionReEncodes(c)
	case "C18":
		c18TableBoundaryIdioms(c)
	case "C19":
		c.Rule("C19.R14", "live virtual-host positions equal configuration positions: a single-route update is recorded under the virtual host it was made in", 2)
		c12IndexAlignedRule(c, "C19.R14")
	case "C12":
		c12AssignmentIsUnionOfLocalities(c)
	case "C13":
		c13VerifiedLeafIsThePresentedOne(c)
	case "C05":
		c05SearchOrderAgreesWithSort(c)
	case "C07":
		c07PeekedByteIsCounted(c)
	case "C11":
		c11TransferTimeoutSetOnEveryStart(c)
	case "C15":
		c15BuilderVisitsEveryHost(c)
	case "C01":
		c01BufferResetKeepsNothing(c)
	case "C02":
		c.Rule("C02.R19", "a local reply replaces headers, data and trailers of the stored response (no body of another exchange under MOSN's own reply)", 2)
		for _, name := range []string{"sendHijackReply", "sendHijackReplyWithBody"} {
			if fn := c.M("pkg/proxy", "downStream", name); fn != nil {
				c14Raises(c, fn, "C02.R19")
			} else {
				c.Unresolved("C02.R19", "downStream."+name)
			}
		}
	}
}

// C14.R12 (seed C14-10): the filters of a chain run in the order they were registered. The parallel slices of filters and
// phases only grow by append (or are emptied); no element is ever stored over, swapped or sorted.
func c14RegistrationOrderKept(c *Ctx) {
	const rule = "C14.R12"
	c.Rule(rule, "the filter lists of a chain only grow by append: registration order is never permuted", 4)
	pkg := "pkg/streamfilter"
	fields := map[string]bool{"receiverFilters": true, "receiverFiltersPhase": true, "senderFilters": true, "senderFiltersPhase": true}
	ord := ordCounter{}
	n := 0
	for _, fn := range c.PkgFuncs(pkg) {
		forEachInstr(fn, true, func(f *ssa.Function, in ssa.Instruction) {
			st, ok := in.(*ssa.Store)
			if !ok {
				return
			}
			// a store over an element
			if ia, isIA := st.Addr.(*ssa.IndexAddr); isIA {
				if _, fld, _, okf := loadedField(ia.X); okf && fields[fld] {
					if t, _, _, _ := loadedField(ia.X); strings.HasSuffix(t, "DefaultStreamFilterChainImpl") {
						n++
						c.Fail(rule, ord.next(f, "element-overwritten:"+fld), st.Pos(), "an element of "+fld+" is stored over: the filters of a chain run in the order of this slice, moving entries (a swap, a sort - sort.Sort is not stable) permutes filters that were registered in a meaningful order, so a deny filter can run after a later filter of its phase")
					}
				}
				return
			}
			t, fld, _, okf := fieldAddrInfo(st.Addr)
			if !okf || !fields[fld] || !strings.HasSuffix(t, "DefaultStreamFilterChainImpl") {
				return
			}
			n++
			ok2 := false
			switch v := st.Val.(type) {
			case *ssa.Call:
				if b, isB := v.Common().Value.(*ssa.Builtin); isB && b.Name() == "append" {
					if _, f0, _, ok0 := loadedField(v.Common().Args[0]); ok0 && f0 == fld {
						ok2 = true
					}
				}
			case *ssa.Slice:
				// truncation to empty: x[:0]
				if _, f0, _, ok0 := loadedField(v.X); ok0 && f0 == fld && v.Low == nil && v.High != nil && isZero(v.High) {
					ok2 = true
				}
			case *ssa.Const:
				ok2 = v.IsNil()
			case *ssa.MakeSlice:
				ok2 = true
			}
			c.Check(rule, ord.next(f, "append-only:"+fld), st.Pos(), ok2,
				fld+" is extended by append (or emptied)",
				fld+" is replaced by something other than append(itself, ..) or an empty list: the order in which the filters of a chain run would no longer be the order of registration")
		})
	}
	if n == 0 {
		c.Fail(rule, pkg+":append-only", token.NoPos, "no store to the filter lists found")
	}
}

// C10.TIMER / C03.R15 (seed C10-10): the global timeout spans all tries of a request; when it fires it must end the try that
// is current at that moment. The request it resets is read from downStream.upstreamRequest when the handler runs, never a
// value captured when the timer was armed (after a retry that is the first try, whose stream is long destroyed, and the
// current try's stream - with its breaker slot and gauges - is never ended).
func globalTimeoutActsOnCurrentTry(c *Ctx, rule string) {
	c.Rule(rule, "the global timeout resets the upstream request that is current when it fires", 1)
	pkg := "pkg/proxy"
	n := 0
	ord := ordCounter{}
	for _, fn := range c.PkgFuncs(pkg) {
		for _, cs := range callsIn(fn, true, calledAs("OnResetStream")) {
			args := cs.Instr.Common().Args
			if len(args) < 2 {
				continue
			}
			reason, ok := constStringVal(args[len(args)-1])
			if !ok || reason != "UpstreamGlobalTimeout" {
				continue
			}
			n++
			recv := args[0]
			_, f, _, isF := loadedField(recv)
			c.Check(rule, ord.next(cs.Fn, "global-timeout-on-current-try"), cs.Instr.Pos(), isF && f == "upstreamRequest",
				"the request reset for the global timeout is loaded from downStream.upstreamRequest in the handler",
				"the global timeout resets an upstream request that is not read from downStream.upstreamRequest when the timer fires (a value captured when the timer was armed, or a parameter): the global timer is armed once and spans all tries, so after a retry it ends the first try again, the current try's stream is never destroyed and its requests-breaker slot and active gauges are never given back")
		}
	}
	if n == 0 {
		c.Fail(rule, pkg+":global-timeout-on-current-try", token.NoPos, "no OnResetStream(UpstreamGlobalTimeout) call found")
	}
}

// C17.R19 (seed C17-10): the substitution of a regex_rewrite is a template ($1, ${name}, $0, $$) for every pattern, with or
// without capture groups: the rewrite goes through Regexp.ReplaceAllString, never through the literal variant.
func c17RegexRewriteExpandsTemplate(c *Ctx) {
	const rule = "C17.R19"
	c.Rule(rule, "the regex_rewrite substitution is always expanded as a template", 1)
	pkg := "pkg/router"
	fn := c.M(pkg, "RouteRuleImplBase", "finalizePathHeader")
	if fn == nil {
		c.Unresolved(rule, "RouteRuleImplBase.finalizePathHeader")
		return
	}
	exp, lit := 0, token.NoPos
	for f := range staticReach([]*ssa.Function{fn}, pkg) {
		for _, cs := range callsIn(f, true, func(cc *ssa.CallCommon) bool {
			n := calleeName(cc)
			return strings.HasPrefix(n, "(*regexp.Regexp).Replace")
		}) {
			recv := cs.Instr.Common().Args[0]
			onPattern := false
			if _, fld, _, ok := loadedField(recv); ok && fld == "regexPattern" {
				onPattern = true
			}
			if _, isP := recv.(*ssa.Parameter); isP {
				onPattern = true // a helper given the pattern
			}
			if !onPattern {
				continue
			}
			switch calleeName(cs.Instr.Common()) {
			case "(*regexp.Regexp).ReplaceAllString":
				exp++
			default:
				lit = cs.Instr.Pos()
			}
		}
	}
	c.Check(rule, funcKey(fn)+":substitution-expanded", fn.Pos(), exp > 0 && lit == token.NoPos,
		"the path is rewritten with ReplaceAllString only",
		"the regex rewrite uses a non-expanding replace (at "+c.pos(lit)+") on some path: a substitution is a template whatever the pattern looks like - `$0`/`${0}` (the whole match) and `$$` are valid without any capture group and would be copied into the upstream path verbatim")
}

// C20.R8 (seed C20-10): the redacted form of a raw JSON section is the re-encoding of the decoded document in which the keys
// were replaced. A JSON string has several spellings (\/, \u000a, < ...), so substituting the key's text in the raw bytes
// misses every spelling but one. Every result of redactRawJSON is the input itself (nothing to redact), a constant, or what
// json.Marshal / an Encoder produced.
func c20RawRedactionReEncodes(c *Ctx) {
	const rule = "C20.R8"
	c.Rule(rule, "a redacted raw JSON section is the re-encoded redacted document, not a text substitution", 2)
	fn := c.F("pkg/configmanager", "redactRawJSON")
	if fn == nil {
		c.Unresolved(rule, "configmanager.redactRawJSON")
		return
	}
	param := ssa.Value(fn.Params[0])
	ord := ordCounter{}
	var ok func(v ssa.Value, d int) bool
	ok = func(v ssa.Value, d int) bool {
		if d > 6 {
			return false
		}
		switch x := v.(type) {
		case *ssa.Parameter:
			return x == param
		case *ssa.Const:
			return true
		case *ssa.Convert:
			return ok(x.X, d+1)
		case *ssa.ChangeType:
			return ok(x.X, d+1)
		case *ssa.Extract:
			if call, isC := x.Tuple.(*ssa.Call); isC {
				n := calleeName(call.Common())
				return n == "encoding/json.Marshal" || n == "encoding/json.MarshalIndent"
			}
		case *ssa.Call:
			// buf.Bytes() of a buffer an Encoder wrote
			if methodName(x.Common()) == "Bytes" {
				return true
			}
		case *ssa.Phi:
			for _, e := range x.Edges {
				if !ok(e, d+1) {
					return false
				}
			}
			return true
		}
		return false
	}
	for _, in := range instrsWhere(fn, isReturn) {
		ret := in.(*ssa.Return)
		c.Check(rule, ord.next(fn, "re-encoded"), nearestPos(ret), ok(unspill(ret, 0), 0),
			"the result is the input, a constant or the output of json.Marshal",
			"redactRawJSON returns bytes that are neither its input nor the re-encoding of the redacted document (a substitution in the raw text): a key whose JSON text is spelled differently from what the substitution looks for (\\\\/ for /, \\\\u000a for a newline) is not replaced and the section is dumped with the key")
	}
}

// C18.W17 (seed C18-10): RFC 7541 4.4 - an entry whose size equals the table's maximum fits. In the dynamic table every
// comparison of a size with maxSize keeps on equality: the only forms are `size > maxSize` (evict) and `size <= maxSize`.
func c18TableBoundaryIdioms(c *Ctx) {
	const rule = "C18.W17"
	c.Rule(rule, "HPACK dynamic table: an entry that fits exactly is kept (size comparisons with maxSize keep on equality)", 1)
	n := 0
	ord := ordCounter{}
	for f := range c.all {
		if f.Pkg == nil || !strings.HasSuffix(f.Pkg.Pkg.Path(), "pkg/module/http2/hpack") || f.Signature.Recv() == nil {
			continue
		}
		if !strings.HasSuffix(typeName(f.Signature.Recv().Type()), "dynamicTable") {
			continue
		}
		forEachInstr(f, false, func(_ *ssa.Function, in ssa.Instruction) {
			bo, ok := in.(*ssa.BinOp)
			if !ok {
				return
			}
			isMax := func(v ssa.Value) bool { _, fld, _, okf := loadedField(v); return okf && fld == "maxSize" }
			var op token.Token
			switch {
			case isMax(bo.Y):
				op = bo.Op
			case isMax(bo.X):
				switch bo.Op {
				case token.LSS:
					op = token.GTR
				case token.GTR:
					op = token.LSS
				case token.LEQ:
					op = token.GEQ
				case token.GEQ:
					op = token.LEQ
				default:
					op = bo.Op
				}
			default:
				return
			}
			if op != token.LSS && op != token.GTR && op != token.LEQ && op != token.GEQ {
				return
			}
			n++
			c.Check(rule, ord.next(f, "keeps-on-equality"), bo.Pos(), op == token.GTR || op == token.LEQ,
				"size "+op.String()+" maxSize",
				"the dynamic table compares a size with maxSize by `"+op.String()+"`: an entry (or a table) of exactly the maximum size is treated as too big, where RFC 7541 4.4 and the reference keep it - the peer's encoder indexes such a field and refers to it in the next block, which this side answers with COMPRESSION_ERROR")
		})
	}
	if n == 0 {
		c.Fail(rule, "pkg/module/http2/hpack:keeps-on-equality", token.NoPos, "no comparison with dynamicTable.maxSize found")
	}
}

// C12.R15 (seed C12-10): an endpoint assignment yields the union of all its endpoints. The host list built from the
// localities of a load assignment is the concatenation, in one full loop over the localities, of what ConvertEndpointsConfig
// returns for each: every iteration reaches the append, and what is appended is that iteration's conversion (not the read
// of a keyed container under computed keys, which can miss keys).
func c12AssignmentIsUnionOfLocalities(c *Ctx) {
	const rule = "C12.R15"
	c.Rule(rule, "the hosts of a load assignment are the concatenation of the converted endpoints of every locality", 2)
	pkg := "istio/istio1106/xds/conv"
	conv := c.F(pkg, "ConvertEndpointsConfig")
	if conv == nil {
		c.Unresolved(rule, "conv.ConvertEndpointsConfig")
		return
	}
	isAppend := func(v ssa.Value) *ssa.Call {
		call, ok := v.(*ssa.Call)
		if !ok {
			return nil
		}
		if b, isB := call.Common().Value.(*ssa.Builtin); isB && b.Name() == "append" {
			return call
		}
		return nil
	}
	// union(v): v is built only by appending per-locality conversions in full loops
	var union func(fn *ssa.Function, v ssa.Value, seen map[ssa.Value]bool, d int) (bool, string)
	union = func(fn *ssa.Function, v ssa.Value, seen map[ssa.Value]bool, d int) (bool, string) {
		if d > 8 {
			return false, "too deep"
		}
		if seen[v] {
			return true, ""
		}
		seen[v] = true
		switch x := v.(type) {
		case *ssa.Const:
			return x.IsNil(), "constant"
		case *ssa.MakeSlice:
			return true, ""
		case *ssa.Phi:
			for _, e := range x.Edges {
				if ok, why := union(fn, e, seen, d+1); !ok {
					return false, why
				}
			}
			return true, ""
		case *ssa.UnOp:
			// accumulator kept in a field (cluster.Hosts)
			if _, f, _, ok := loadedField(x); ok && f == "Hosts" {
				return true, ""
			}
		case *ssa.Call:
			if app := isAppend(x); app != nil {
				if ok, why := union(fn, app.Common().Args[0], seen, d+1); !ok {
					return false, why
				}
				if len(app.Common().Args) < 2 {
					return true, ""
				}
				el := app.Common().Args[1]
				if call, isC := el.(*ssa.Call); isC && call.Common().StaticCallee() == conv {
					// executed on every iteration of the loop it is in
					var ih *ssa.BasicBlock
					var ibody map[*ssa.BasicBlock]bool
					for h, body := range naturalLoops(fn) {
						if body[app.Block()] && (ibody == nil || len(body) < len(ibody)) {
							ih, ibody = h, body
						}
					}
					if ih == nil {
						return false, "the conversion of a locality is appended outside any loop over the localities"
					}
					for h, body := range map[*ssa.BasicBlock]map[*ssa.BasicBlock]bool{ih: ibody} {
						from := h.Instrs[len(h.Instrs)-1]
						if skip := existsPathEdges(fn, from, func(in ssa.Instruction) bool { return in.Block() == h }, func(in ssa.Instruction) bool { return in == ssa.Instruction(app) },
							func(a, b *ssa.BasicBlock) bool { return body[b] }); skip != nil {
							return false, "a locality can be skipped (the loop goes round without the append)"
						}
					}
					return true, ""
				}
				if ok, _ := union(fn, el, seen, d+1); ok {
					if _, isConst := el.(*ssa.Const); !isConst {
						return true, ""
					}
				}
				return false, "what is appended (" + el.String() + ") is not the conversion of a locality"
			}
			if callee := x.Common().StaticCallee(); callee != nil && callee.Pkg == fn.Pkg && len(callee.Blocks) > 0 {
				for _, in := range instrsWhere(callee, isReturn) {
					if ok, why := union(callee, unspill(in.(*ssa.Return), 0), map[ssa.Value]bool{}, d+1); !ok {
						return false, callee.Name() + ": " + why
					}
				}
				return true, ""
			}
		}
		return false, "built by " + v.String()
	}
	n := 0
	ord := ordCounter{}
	for _, fn := range c.PkgFuncs(pkg) {
		for _, cs := range callsIn(fn, false, calledAs("TriggerClusterHostUpdate")) {
			args := cs.Instr.Common().Args
			n++
			ok, why := union(fn, args[len(args)-1], map[ssa.Value]bool{}, 0)
			c.Check(rule, ord.next(fn, "assignment-union"), cs.Instr.Pos(), ok,
				"the hosts handed to the cluster update are the concatenation of every locality's converted endpoints",
				"the host list of an endpoint assignment is not the concatenation of the converted endpoints of every locality ("+why+"): localities can be dropped from the live host set and from the stored configuration")
		}
	}
	if cc := c.F(pkg, "ConvertClustersConfig"); cc != nil {
		for _, st := range storesToField(cc, "v2.Cluster", "Hosts", false) {
			n++
			ok, why := union(cc, st.Val, map[ssa.Value]bool{}, 0)
			c.Check(rule, ord.next(cc, "assignment-union"), st.Pos(), ok,
				"cluster.Hosts is the concatenation of every locality's converted endpoints",
				"the hosts of a cluster's inline load assignment are not the concatenation of the converted endpoints of every locality ("+why+")")
		}
	}
	if n == 0 {
		c.Fail(rule, pkg+":assignment-union", token.NoPos, "no host list built from a load assignment found")
	}
}

var _ = fmt.Sprintf
var _ = types.Typ

// C07.B2p (seed C07-10): the plaintext wrapper under the TLS inspector has consumed one byte of the stream (Peek); Read
// puts it into b[0] and must count it in what it returns on every path behind that store - also when the read of the rest
// fails or times out; otherwise the first byte of the stream is lost whenever the first segment is one byte long.
func c07PeekedByteIsCounted(c *Ctx) {
	const rule = "C07.B2p"
	c.Rule(rule, "the byte the TLS inspector peeked is counted by every Read that hands it out", 1)
	fn := c.M("pkg/mtls", "Conn", "Read")
	if fn == nil {
		c.Unresolved(rule, "mtls.Conn.Read")
		return
	}
	b := ssa.Value(fn.Params[1])
	var put *ssa.Store
	forEachInstr(fn, false, func(_ *ssa.Function, in ssa.Instruction) {
		if st, ok := in.(*ssa.Store); ok {
			if ia, isIA := st.Addr.(*ssa.IndexAddr); isIA && ia.X == b {
				if k, isK := constInt(ia.Index); isK && k == 0 {
					put = st
				}
			}
		}
	})
	if put == nil {
		c.Fail(rule, funcKey(fn)+":peeked-byte-counted", fn.Pos(), "no store of the peeked byte into b[0] found")
		return
	}
	// evaluate the count returned along every path from the store, resolving phis by the edge taken:
	// count = k + (number of inner Read results added)
	type val struct {
		k     int64
		inner int
		ok    bool
	}
	var eval func(v ssa.Value, edge map[*ssa.BasicBlock]*ssa.BasicBlock, d int) val
	eval = func(v ssa.Value, edge map[*ssa.BasicBlock]*ssa.BasicBlock, d int) val {
		if d > 8 {
			return val{}
		}
		if k, isK := constInt(v); isK {
			return val{k: k, ok: true}
		}
		switch x := v.(type) {
		case *ssa.BinOp:
			if x.Op == token.ADD {
				a, b2 := eval(x.X, edge, d+1), eval(x.Y, edge, d+1)
				return val{a.k + b2.k, a.inner + b2.inner, a.ok && b2.ok}
			}
		case *ssa.Extract:
			if call, isC := x.Tuple.(*ssa.Call); isC && x.Index == 0 && (methodName(call.Common()) == "Read") {
				return val{0, 1, true}
			}
		case *ssa.Phi:
			if pred, okp := edge[x.Block()]; okp {
				for i, p := range x.Block().Preds {
					if p == pred {
						return eval(x.Edges[i], edge, d+1)
					}
				}
			}
		}
		return val{}
	}
	bad := token.NoPos
	undec := false
	n := 0
	var dfs func(blk *ssa.BasicBlock, edge map[*ssa.BasicBlock]*ssa.BasicBlock, depth int)
	dfs = func(blk *ssa.BasicBlock, edge map[*ssa.BasicBlock]*ssa.BasicBlock, depth int) {
		if depth > 12 {
			undec = true
			return
		}
		if ret, ok := blk.Instrs[len(blk.Instrs)-1].(*ssa.Return); ok && isReturn(blk.Instrs[len(blk.Instrs)-1]) {
			n++
			r := eval(unspill(ret, 0), edge, 0)
			if !r.ok {
				undec = true
			} else if r.k < 1 {
				bad = nearestPos(ret)
			}
			return
		}
		for _, s := range blk.Succs {
			e2 := map[*ssa.BasicBlock]*ssa.BasicBlock{}
			for k, v := range edge {
				e2[k] = v
			}
			e2[s] = blk
			dfs(s, e2, depth+1)
		}
	}
	// phis in the store's own block and before are resolved by the path to it: start with the unique-predecessor chain
	start := map[*ssa.BasicBlock]*ssa.BasicBlock{}
	dfs(put.Block(), start, 0)
	switch {
	case undec:
		c.Fail(rule, funcKey(fn)+":peeked-byte-counted", put.Pos(), "undecided: the count returned behind the store of the peeked byte is not a sum of constants and inner Read results")
	default:
		c.Check(rule, funcKey(fn)+":peeked-byte-counted", put.Pos(), bad == token.NoPos && n > 0,
			fmt.Sprintf("every one of the %d returns behind the store counts the peeked byte", n),
			"Read has put the peeked byte into b[0] and can still return a count that does not include it (return at "+c.pos(bad)+", the path on which the read of the rest fails or times out): the first byte of the stream is lost when the first TCP segment is one byte long - \"GET /\" becomes \"ET /\", a bolt frame loses its protocol code, and what is detected depends on how TCP cut the stream")
	}
}

// C11.O20 (seed C11-10): the old process hands each xprotocol connection over at a random time within TransferTimeout and
// exits after a wait derived from GracefulTimeout; the two only fit together if every mosn - also one that was started
// cold - sets TransferTimeout from the configured graceful timeout in its start sequence.
func c11TransferTimeoutSetOnEveryStart(c *Ctx) {
	const rule = "C11.O20"
	c.Rule(rule, "every mosn sets the hand-over schedule (TransferTimeout) from the configured graceful timeout when it starts", 1)
	fn := c.M("pkg/mosn", "Mosn", "TransferConnection")
	if fn == nil {
		c.Unresolved(rule, "Mosn.TransferConnection")
		return
	}
	ok := false
	for _, cs := range callsIn(fn, false, calledAs("SetTransferTimeout")) {
		if unconditionalIn(cs.Instr) {
			if _, isG := stripConv(cs.Instr.Common().Args[0]).(*ssa.UnOp); isG {
				ok = true
			}
		}
	}
	c.Check(rule, funcKey(fn)+":transfer-timeout-on-every-start", fn.Pos(), ok,
		"TransferConnection, which every start runs, calls network.SetTransferTimeout(server.GracefulTimeout) on every path",
		"network.SetTransferTimeout is no longer called on every path of Mosn.TransferConnection (the stage every mosn runs): a cold-started mosn keeps the 30s default while it exits 2 x graceful_timeout + 30s after an upgrade, so with a short graceful_timeout the connections whose random hand-over slot lies behind the exit die with the process together with the requests on them")
}

// C15.R16 (seed C15-10): the subset builders look at every host of the cluster: a callback given to HostSet.Range, whose
// false answer ends the whole iteration, answers true on every path.
func c15BuilderVisitsEveryHost(c *Ctx) {
	const rule = "C15.R16"
	c.Rule(rule, "the subset builders visit every host: their HostSet.Range callbacks never end the iteration", 3)
	pkg := "pkg/upstream/cluster"
	n := 0
	ord := ordCounter{}
	for _, fn := range c.PkgFuncs(pkg) {
		if fn.Signature.Recv() == nil {
			continue
		}
		rt := typeName(fn.Signature.Recv().Type())
		if !strings.Contains(rt, "subsetLoadBalancer") {
			continue
		}
		for _, cs := range callsIn(fn, false, func(cc *ssa.CallCommon) bool { return cc.IsInvoke() && cc.Method.Name() == "Range" }) {
			args := cs.Instr.Common().Args
			if len(args) != 1 {
				continue
			}
			mc, ok := args[0].(*ssa.MakeClosure)
			var cb *ssa.Function
			if ok {
				cb, _ = mc.Fn.(*ssa.Function)
			} else if f, isF := args[0].(*ssa.Function); isF {
				cb = f
			}
			if cb == nil {
				continue
			}
			n++
			bad := token.NoPos
			for _, in := range instrsWhere(cb, isReturn) {
				r := in.(*ssa.Return)
				if b, isB := constBool(unspill(r, 0)); !isB || !b {
					bad = nearestPos(in)
				}
			}
			c.Check(rule, ord.next(fn, "range-visits-every-host"), cs.Instr.Pos(), bad == token.NoPos,
				"the callback answers true on every path",
				"a callback given to HostSet.Range by a subset builder can answer something other than true (at "+c.pos(bad)+"): false does not skip one host, it ends the whole iteration, so every subset whose first member comes later is never built and requests for it get the fallback although matching hosts exist")
		}
	}
	if n == 0 {
		c.Fail(rule, pkg+":range-visits-every-host", token.NoPos, "no HostSet.Range callback found in the subset builders")
	}
}

// C01.R17 (seed C01-10): when a per-request buffer context is given back its frames' storage goes back to the byte pool;
// the pooled model must keep nothing of the old frame: behind the zeroing of *buf no field of it is restored from a value
// read out of the old content (a kept header slice still points, beyond its length, into the released raw buffer, and the
// next Set of a new key writes into memory that belongs to another frame).
func c01BufferResetKeepsNothing(c *Ctx) {
	const rule = "C01.R17"
	c.Rule(rule, "a recycled codec buffer keeps nothing of the frame it held (no field restored from the old content)", 2)
	n := 0
	for _, pkg := range []string{"pkg/protocol/xprotocol/bolt", "pkg/protocol/xprotocol/boltv2"} {
		for _, fn := range c.PkgFuncs(pkg) {
			if fn.Name() != "Reset" || fn.Signature.Recv() == nil || !strings.HasSuffix(typeName(fn.Signature.Recv().Type()), "BufferCtx") {
				continue
			}
			// the pooled struct: the pointer obtained by asserting the interface parameter
			var buf ssa.Value
			forEachInstr(fn, false, func(_ *ssa.Function, in ssa.Instruction) {
				if ta, ok := in.(*ssa.TypeAssert); ok && sameParam(ta.X, fn.Params[1]) {
					buf = ta
					if ta.CommaOk {
						for _, r := range refs(ta) {
							if ex, isE := r.(*ssa.Extract); isE && ex.Index == 0 {
								buf = ex
							}
						}
					}
				}
			})
			if buf == nil {
				continue
			}
			n++
			derives := func(v ssa.Value) bool {
				seen := map[ssa.Value]bool{}
				var walk func(v ssa.Value, d int) bool
				walk = func(v ssa.Value, d int) bool {
					if d > 10 || seen[v] {
						return false
					}
					seen[v] = true
					if v == buf {
						return true
					}
					in, ok := v.(ssa.Instruction)
					if !ok {
						return false
					}
					for _, op := range in.Operands(nil) {
						if *op != nil && walk(*op, d+1) {
							return true
						}
					}
					return false
				}
				return walk(v, 0)
			}
			bad := token.NoPos
			zeroed := false
			forEachInstr(fn, false, func(_ *ssa.Function, in ssa.Instruction) {
				st, ok := in.(*ssa.Store)
				if !ok {
					return
				}
				if st.Addr == buf {
					// whole-struct store: must be the zero value
					if isZeroAggregate(st.Val) || isZeroStructValue(st.Val) {
						zeroed = true
					} else {
						bad = st.Pos()
					}
					return
				}
				// a field (path) of *buf written from something read out of *buf
				root := st.Addr
				for {
					if fa, isFA := root.(*ssa.FieldAddr); isFA {
						root = fa.X
						continue
					}
					break
				}
				if root == buf && derives(st.Val) {
					bad = st.Pos()
				}
			})
			c.Check(rule, funcKey(fn)+":reset-keeps-nothing", fn.Pos(), zeroed && bad == token.NoPos,
				"the pooled buffer is zeroed and nothing is restored from its old content",
				"Reset restores a field of the pooled buffer from its old content (at "+c.pos(bad)+"): the raw buffer of the old frame has just gone back to the byte pool, a kept slice still points into it beyond its length, and the next header added to a frame decoded into this model is written into memory that now belongs to another frame - a frame that nobody modified is forwarded changed")
		}
	}
	if n == 0 {
		c.Fail(rule, "pkg/protocol/xprotocol:reset-keeps-nothing", token.NoPos, "no BufferCtx.Reset found in the bolt codecs")
	}
}

// C03.R16 (seed C03-10): a downStream is pooled; what keeps a stream found in the proxy's active-stream list from being
// recycled under the close handler's feet is the list's lock (cleanStream takes it for writing before it gives the stream
// back). The close handler therefore notifies the streams while it holds that lock.
func c03CloseWalkUnderTheListLock(c *Ctx) {
	const rule = "C03.R16"
	c.Rule(rule, "the connection-close handler touches the streams of the active list only while it holds the list's lock", 1)
	fn := c.M("pkg/proxy", "proxy", "onDownstreamEvent")
	if fn == nil {
		c.Unresolved(rule, "proxy.onDownstreamEvent")
		return
	}
	n := 0
	ord := ordCounter{}
	for _, cs := range callsIn(fn, false, func(cc *ssa.CallCommon) bool {
		callee := cc.StaticCallee()
		return callee != nil && callee.Signature.Recv() != nil && strings.HasSuffix(typeName(callee.Signature.Recv().Type()), "downStream")
	}) {
		n++
		c.Check(rule, ord.next(fn, "stream-touched-under-list-lock"), cs.Instr.Pos(), lockHeld(cs.Instr, "asMux"),
			"the stream is notified with asMux held",
			"the close handler calls "+methodName(cs.Instr.Common())+" on a stream taken from the active list after releasing asMux: a stream that finishes in between is zeroed and given back to the process-wide pool (or already reused by another connection) when the handler reaches it, the handler marks that struct as reset by the client, and the request that owns it next is dropped without being forwarded and without a reply although its client never disconnected")
	}
	if n == 0 {
		c.Fail(rule, funcKey(fn)+":stream-touched-under-list-lock", fn.Pos(), "no call on a downStream found in onDownstreamEvent")
	}
}

// C13.R19 (seed C13-10): the TLS handshake proves possession of the key of the FIRST certificate the peer presents. A
// custom verifier that builds and checks a chain itself must verify that certificate: the receiver of every
// (*x509.Certificate).Verify under pkg/mtls is element 0 of the presented list (rawCerts[0] parsed, or [0] of the slice of
// parsed certificates), never a certificate picked by a property of its content.
func c13VerifiedLeafIsThePresentedOne(c *Ctx) {
	const rule = "C13.R19"
	c.Rule(rule, "a custom verifier verifies the first presented certificate (the one whose key the handshake proves)", 1)
	n := 0
	ord := ordCounter{}
	for f := range c.all {
		if f.Pkg == nil || !strings.Contains(f.Pkg.Pkg.Path(), "/pkg/mtls") || strings.Contains(f.Pkg.Pkg.Path(), "/crypto/") {
			continue
		}
		for _, cs := range callsIn(f, true, func(cc *ssa.CallCommon) bool { return calleeName(cc) == "(*crypto/x509.Certificate).Verify" }) {
			n++
			recv := cs.Instr.Common().Args[0]
			first := func(v ssa.Value) bool {
				// x[0]
				if u, ok := v.(*ssa.UnOp); ok && u.Op == token.MUL {
					if ia, isIA := u.X.(*ssa.IndexAddr); isIA {
						if k, isK := constInt(ia.Index); isK && k == 0 {
							return true
						}
					}
				}
				// parse(rawCerts[0])
				if ex, ok := v.(*ssa.Extract); ok && ex.Index == 0 {
					if call, isC := ex.Tuple.(*ssa.Call); isC {
						for _, a := range call.Common().Args {
							if u, isU := a.(*ssa.UnOp); isU && u.Op == token.MUL {
								if ia, isIA := u.X.(*ssa.IndexAddr); isIA {
									if k, isK := constInt(ia.Index); isK && k == 0 {
										return true
									}
								}
							}
						}
					}
				}
				return false
			}
			c.Check(rule, ord.next(cs.Fn, "verifies-the-presented-leaf"), cs.Instr.Pos(), first(recv),
				"the verified certificate is element 0 of the presented chain",
				"a custom verifier calls Verify on a certificate that is not element 0 of what the peer presented (a certificate picked by looking at its content, e.g. the first one that is not a CA): the handshake only proves possession of the key of rawCerts[0], so a peer can present its own self-signed certificate first and somebody else's CA-issued certificate behind it and is accepted without owning any certificate that chains to the configured CA")
		}
	}
	if n == 0 {
		c.Pass(rule, "pkg/mtls:verifies-the-presented-leaf", token.NoPos, "no custom chain verification under pkg/mtls")
	}
}

// C05.R11 (seed C05-10): RemoveClusterHosts sorts the members and finds the address to remove by binary search; the search
// predicate (`AddressString() >= addr`, plain string order) is only right on a slice sorted by the same key in the same
// order: the Less of the sort.Interface it sorts with compares the two elements' AddressString() with `<` and nothing else.
func c05SearchOrderAgreesWithSort(c *Ctx) {
	const rule = "C05.R11"
	c.Rule(rule, "the binary search for a host to remove uses the order the members were sorted by", 2)
	fn := c.M("pkg/upstream/cluster", "clusterManager", "RemoveClusterHosts")
	if fn == nil {
		c.Unresolved(rule, "clusterManager.RemoveClusterHosts")
		return
	}
	isAddr := func(v ssa.Value) bool {
		call, ok := v.(*ssa.Call)
		return ok && call.Common().IsInvoke() && call.Common().Method.Name() == "AddressString"
	}
	// the predicate
	nSearch := 0
	var lessOf *ssa.Function
	for _, f := range append([]*ssa.Function{fn}, fn.AnonFuncs...) {
		for _, cs := range callsIn(f, false, func(cc *ssa.CallCommon) bool { return calleeName(cc) == "sort.Search" }) {
			nSearch++
			var pred *ssa.Function
			switch x := cs.Instr.Common().Args[1].(type) {
			case *ssa.MakeClosure:
				pred, _ = x.Fn.(*ssa.Function)
			case *ssa.Function:
				pred = x
			}
			ok := pred != nil
			if ok {
				for _, in := range instrsWhere(pred, isReturn) {
					bo, isB := unspill(in.(*ssa.Return), 0).(*ssa.BinOp)
					if !isB || bo.Op != token.GEQ || !isAddr(bo.X) {
						ok = false
					}
				}
			}
			c.Check(rule, funcKey(fn)+":search-predicate", cs.Instr.Pos(), ok, "the search predicate is AddressString() >= addr", "the binary search predicate is not `element.AddressString() >= addr`")
		}
		for _, cs := range callsIn(f, false, func(cc *ssa.CallCommon) bool { return calleeName(cc) == "sort.Sort" || calleeName(cc) == "sort.Stable" }) {
			if mi, ok := cs.Instr.Common().Args[0].(*ssa.MakeInterface); ok {
				lessOf = c.methodOf(mi.X.Type(), "Less")
			}
		}
	}
	if nSearch == 0 {
		c.Pass(rule, funcKey(fn)+":search-predicate", fn.Pos(), "RemoveClusterHosts does not use a binary search")
		return
	}
	if lessOf == nil || len(lessOf.Blocks) == 0 {
		c.Fail(rule, funcKey(fn)+":sorted-by-the-search-key", fn.Pos(), "the sort.Interface the members are sorted with was not found (or its Less has no body in scope)")
		return
	}
	ok := true
	for _, in := range instrsWhere(lessOf, isReturn) {
		bo, isB := unspill(in.(*ssa.Return), 0).(*ssa.BinOp)
		if !isB || bo.Op != token.LSS || !isAddr(bo.X) || !isAddr(bo.Y) {
			ok = false
		}
	}
	c.Check(rule, funcKey(lessOf)+":sorted-by-the-search-key", lessOf.Pos(), ok,
		"Less is AddressString() < AddressString()",
		"the members are sorted by something other than the plain string order of AddressString() while RemoveClusterHosts finds the address to remove with the binary search predicate `AddressString() >= addr`: where the two orders disagree (10.0.0.1 / 10.0.0.10, ports with different digit counts) the search misses, the host is silently not removed and every balancer keeps returning a host that is no longer a member of the cluster")
}
