package main

import (
	"fmt"
	"go/token"
	"go/types"
	"sort"
	"strings"

	"golang.org/x/tools/go/ssa"
)

// C04 — route selection follows the documented precedence, deterministically (structural clauses).

func init() {
	register(&PropSpec{
		ID:       "C04",
		Patterns: []string{"./pkg/router", "./pkg/cel/extract"},
		Explanation: "(R1) host names are lower-cased on both sides: every domain that feeds the host tables in NewRouters and the request host in findVirtualHost flow through strings.ToLower; " +
			"(R2) precedence: in findHighestPriorityIndex the decision points, tagged by the data they consult — (exact map, port), (exact map, \"*\"), (wildcard list of port), (wildcard list of \"*\"), default — are reachable only through the miss edges of the earlier ones, and each wildcard scan is a forward range loop that returns at the first suffix match under the guard hostLen < len(host); " +
			"(R3) longest suffix first: every wildcard list is sorted after the last insertion and the comparator orders by decreasing hostLen; (R4) first match in configuration order: GetRouteFromEntries is a forward range over routes returning at the first non-nil Match, routes are only appended or truncated, never reordered; " +
			"(R5) routes and fastIndex are touched only under the virtual host's mutex; (R6) purity: nothing reachable from MatchRoute/MatchAllRoutes/MatchRouteFromHeaderKV stores into a field of routersImpl, VirtualHostImpl or a route rule. (R5, view) a route list read under vh.mutex is not returned, stored or indexed after the lock is released while writers update the backing array in place. (R7) Path/Prefix/Regex rules return themselves only behind the true edges of matchRoute and of their own predicate applied as (request path variable, configured pattern); header/method/variable matchers and matchRoute have the all-of shape. (R7, helpers) the path predicate may live in a helper of the package receiving the request path; any further strings/regexp call on the request path besides the rule's own predicate is reported. (R1, round 5) every findVirtualHostIndex/findHighestPriorityIndex call made for a request takes the result of strings.ToLower - universally, not just the last one. (R1 every-domain-indexed) every edge leaving the loop over a virtual host's domains (in NewRouters or a helper it calls) from a block other than the loop header leads only to error returns. (R9) the constructor whose result CreateRPCRule stores into RPCRouteRuleImpl.configHeaders returns a type whose Matches calls no mosn.io/pkg/variable.Get*.",
		Run: runC04,
	})
}

func runC04(c *Ctx) {
	c.Assumptions = append(c.Assumptions, "sort.Sort/sort.Stable call Less/Swap only on the slice they are given", "sync.RWMutex semantics")
	c.Rule("C04.R1", "host names lower-cased on the configuration side and on the request side", 2)
	c.Rule("C04.R2", "virtual-host lookup order equals the documented precedence; wildcard scans return the first suffix match", 7)
	c.Rule("C04.R3", "wildcard lists sorted longest suffix first before use", 2)
	c.Rule("C04.R4", "first matching route in configuration order; routes never reordered", 3)
	c.Rule("C04.R5", "route tables only touched under the virtual host's mutex", 6)
	c.Rule("C04.R6", "lookups write no router state", 3)
	c.Rule("C04.R7", "a route is selected only if the common matchers and its own path predicate all hold; conjunction matchers are all-of", 6)
	defer c04Matchers(c, "pkg/router")
	defer c04EveryHeaderConditionEvaluated(c, "pkg/router")
	c.Rule("C04.R10", "variable matchers combine as an or of and-groups (finite-domain fixed point against a reference monitor)", 1)
	defer c04VariableLogic(c, "pkg/router")
	c.Rule("C04.R9", "RPC routes evaluate all their configured headers on the header map (no diversion to HTTP request variables)", 1)
	defer c04RPCHeadersAreHeaders(c, "pkg/router")
	c.Rule("C04.R11", "the default virtual host is the last resort for every request: 'no virtual host' only without a default (decision table)", 1)
	defer c04DefaultIsLastResort(c, "pkg/router")
	c.Rule("C04.R12", "the host of an address without port is normalised like the host of one with a port (not the raw argument on every path)", 1)
	defer c04HostLiteralNormalised(c, "pkg/router")
	c.Rule("C04.R13", "a matcher constructor that can refuse its input has its result tested before it is stored into a route", 1)
	defer c04NoNilMatcherStored(c, "pkg/router")
	c.Rule("C04.R14", "the RPC rule's literal shortcut is armed only for a non-regex matcher", 1)
	defer c04FastMatchOnlyLiteral(c, "pkg/router")
	c.NotDecided = append(c.NotDecided, "results of header / regex / variable matchers on concrete values", "weighted-cluster randomness (C06)", "splitHostPortGraceful on malformed host:port values")

	pkg := "pkg/router"
	// R1
	nr := c.F(pkg, "NewRouters")
	if nr == nil {
		c.Unresolved("C04.R1", "router.NewRouters")
	} else {
		// the domain loop may live in NewRouters or in a helper of the package that NewRouters calls
		isGen := func(cc *ssa.CallCommon) bool { return methodName(cc) == "generateHostWithPortConfig" }
		var dl *ssa.Function
		var gens []CallSite
		var reachFns []*ssa.Function
		for f := range staticReach([]*ssa.Function{nr}, pkg) {
			reachFns = append(reachFns, f)
		}
		sort.Slice(reachFns, func(i, j int) bool { return reachFns[i].String() < reachFns[j].String() })
		for _, f := range reachFns {
			for _, cs := range callsIn(f, false, isGen) {
				if inLoop(cs.Instr.Block()) {
					dl = f
					gens = append(gens, cs)
				}
			}
		}
		// the value split into host/port for generateHostWithPortConfig is a ToLower result
		ok := len(gens) > 0
		for _, cs := range gens {
			if !fromToLower(argsOf(cs.Instr.Common())[0], 0) {
				ok = false
			}
		}
		c.Check("C04.R1", funcKey(nr)+":domains-lowercased", nr.Pos(), ok, "configured domains pass strings.ToLower before they index the host tables", "a configured domain reaches the host tables without strings.ToLower: mixed-case domains would never match")
		// every configured domain is indexed: the loop over a virtual host's domains is left early only with an error. A
		// silent early exit (return nil, break) drops the remaining domains: their hosts fall through to a wildcard or the
		// default virtual host instead of the one that names them.
		if dl != nil && len(gens) == 1 {
			g := gens[0].Instr
			var body map[*ssa.BasicBlock]bool
			var header *ssa.BasicBlock
			for h, b := range naturalLoops(dl) {
				if b[g.Block()] && (body == nil || len(b) < len(body)) {
					body, header = b, h
				}
			}
			errIdx := dl.Signature.Results().Len() - 1
			early := ""
			// every edge that leaves the loop from a block other than its header (return, break, goto) may only lead to
			// error returns
			for b := range body {
				if b == header {
					continue
				}
				for _, t := range b.Succs {
					if body[t] {
						continue
					}
					reach := reachableFrom(t)
					for _, in := range instrsWhere(dl, isReturn) {
						if (in.Block() == t || reach[in.Block()]) && errIdx >= 0 && isNilConst(unspill(in.(*ssa.Return), errIdx)) {
							early = c.pos(nearestPos(b.Instrs[len(b.Instrs)-1])) + " -> return at " + c.pos(nearestPos(in))
						}
					}
				}
			}
			c.Check("C04.R1", funcKey(dl)+":every-domain-indexed", g.Pos(), early == "", "the loop over a virtual host's domains is left early only with an error", "the loop over a virtual host's domains can be left without an error before all domains were indexed (exit at "+early+"): the domains listed after that point are silently dropped, so their hosts are routed by a wildcard or the default virtual host instead of the one that names them")
		} else {
			c.Fail("C04.R1", funcKey(nr)+":every-domain-indexed", nr.Pos(), fmt.Sprintf("expected one generateHostWithPortConfig call inside the domain loop of NewRouters or of a helper it calls, found %d", len(gens)))
		}
	}
	fv := c.M(pkg, "routersImpl", "findVirtualHost")
	if fv == nil {
		c.Unresolved("C04.R1", "routersImpl.findVirtualHost")
	} else {
		// every lookup made for a request uses the lower-cased host (a raw lookup tried first can already answer with a
		// lower-priority wildcard whose suffix happens to be lower case)
		lookups := callsIn(fv, true, func(cc *ssa.CallCommon) bool {
			return methodName(cc) == "findVirtualHostIndex" || methodName(cc) == "findHighestPriorityIndex"
		})
		ok := len(lookups) > 0
		for _, cs := range lookups {
			if !fromToLower(argsOf(cs.Instr.Common())[0], 0) {
				ok = false
			}
		}
		c.Check("C04.R1", funcKey(fv)+":request-host-lowercased", fv.Pos(), ok, "the request host passes strings.ToLower before lookup", "the request host is looked up without strings.ToLower: 'Example.com' and 'example.com' would select different virtual hosts")
	}

	// R2
	fh := c.M(pkg, "routersImpl", "findHighestPriorityIndex")
	if fh == nil {
		c.Unresolved("C04.R2", "routersImpl.findHighestPriorityIndex")
	} else {
		c04Precedence(c, fh)
	}

	// R3
	if nr != nil {
		sorts := callsIn(nr, false, func(cc *ssa.CallCommon) bool { return calleeName(cc) == "sort.Sort" || calleeName(cc) == "sort.Stable" })
		gens := callsIn(nr, false, func(cc *ssa.CallCommon) bool { return methodName(cc) == "generateHostWithPortConfig" })
		if len(gens) == 0 {
			// the insertions happen in a helper NewRouters calls: order the sort after that call
			gens = callsIn(nr, false, func(cc *ssa.CallCommon) bool {
				f := cc.StaticCallee()
				if f == nil || len(f.Blocks) == 0 {
					return false
				}
				return len(callsIn(f, false, func(c2 *ssa.CallCommon) bool { return methodName(c2) == "generateHostWithPortConfig" })) > 0
			})
		}
		ok := len(sorts) == 1 && len(gens) == 1
		if ok {
			ba := newBA(c, nr)
			// every insertion precedes the sort; the sort ranges over portWildcardVirtualHost; every success return passes the sort
			ok = ba.mayPrecede(gens[0].Instr, sorts[0].Instr) && !ba.mayPrecede(sorts[0].Instr, gens[0].Instr)
			rangesField := false
			for _, in := range instrsWhere(nr, func(in ssa.Instruction) bool { _, ok := in.(*ssa.Range); return ok }) {
				if _, f, _, okf := loadedField(in.(*ssa.Range).X); okf && f == "portWildcardVirtualHost" {
					rangesField = true
				}
			}
			ok = ok && rangesField
			// the thing sorted is the list itself (converted to the comparator's slice type), not a wrapper such as sort.Reverse
			arg := sorts[0].Instr.Common().Args[0]
			direct := false
			if mi, isMI := arg.(*ssa.MakeInterface); isMI {
				if shortTypeName(mi.X.Type()) == "WildcardVirtualHostWithPortSlice" {
					direct = true
				}
			}
			ok = ok && direct
		}
		c.Check("C04.R3", funcKey(nr)+":sorted-after-build", nr.Pos(), ok, "every wildcard list is sorted after the last insertion", "wildcard host lists are not sorted after they are built: a shorter suffix could shadow a longer one")
		// no other writer of portWildcardVirtualHost after NewRouters
		bad := []string{}
		for _, f := range c.PkgFuncs(pkg) {
			if f == nr || f.Name() == "generateHostWithPortConfig" {
				continue
			}
			forEachInstr(f, true, func(_ *ssa.Function, in ssa.Instruction) {
				if mu, ok := in.(*ssa.MapUpdate); ok {
					if _, fl, _, ok := loadedField(mu.Map); ok && (fl == "portWildcardVirtualHost" || fl == "virtualHostPortsMap") {
						bad = append(bad, f.Name())
					}
				}
			})
		}
		c.Check("C04.R3", "pkg/router.routersImpl:host-tables-immutable", nr.Pos(), len(bad) == 0, "host tables are written only while the routers object is built", "host tables are modified after construction by "+strings.Join(bad, ","))
	}
	if less := c.M(pkg, "WildcardVirtualHostWithPortSlice", "Less"); less == nil {
		c.Unresolved("C04.R3", "WildcardVirtualHostWithPortSlice.Less")
	} else {
		ok := false
		for _, in := range instrsWhere(less, isReturn) {
			if bo, isB := unspill(in.(*ssa.Return), 0).(*ssa.BinOp); isB {
				xi, xok := hostLenIndex(bo.X)
				yi, yok := hostLenIndex(bo.Y)
				if xok && yok && len(less.Params) == 3 {
					i, j := ssa.Value(less.Params[1]), ssa.Value(less.Params[2])
					// a[j].hostLen < a[i].hostLen  or  a[i].hostLen > a[j].hostLen
					if (bo.Op == token.LSS && xi == j && yi == i) || (bo.Op == token.GTR && xi == i && yi == j) {
						ok = true
					}
				}
			}
		}
		c.Check("C04.R3", funcKey(less)+":descending-hostlen", less.Pos(), ok, "Less(i,j) iff a[i].hostLen > a[j].hostLen (longest suffix first)", "the comparator does not order wildcard hosts by decreasing suffix length")
	}

	// R4
	if fn := c.M(pkg, "VirtualHostImpl", "GetRouteFromEntries"); fn == nil {
		c.Unresolved("C04.R4", "VirtualHostImpl.GetRouteFromEntries")
	} else {
		fk := funcKey(fn)
		ranges := instrsWhere(fn, func(in ssa.Instruction) bool { _, ok := in.(*ssa.Range); return ok })
		// `for _, r := range slice` over a slice is lowered to an index loop, not ssa.Range: detect index loop over vh.routes
		fwd := forwardSliceLoop(fn, "routes")
		_ = ranges
		match := callsIn(fn, false, func(cc *ssa.CallCommon) bool { return cc.IsInvoke() && cc.Method.Name() == "Match" })
		okFirst := false
		if len(match) == 1 {
			// the true edge of `Match(...) != nil` returns that value
			for _, r := range refs(match[0].Instr.(ssa.Value)) {
				if bo, ok := r.(*ssa.BinOp); ok && bo.Op == token.NEQ && isNilConst(bo.Y) {
					for _, r2 := range refs(bo) {
						if ifi, ok := r2.(*ssa.If); ok {
							for _, in := range ifi.Block().Succs[0].Instrs {
								if ret, ok := in.(*ssa.Return); ok && isReturn(in) && len(ret.Results) == 1 && sameThroughSpill(unspill(ret, 0), match[0].Instr.(ssa.Value)) {
									okFirst = true
								}
							}
							// spilled result (function has defer): a store of the match then return
							for _, in := range ifi.Block().Succs[0].Instrs {
								if st, ok := in.(*ssa.Store); ok && st.Val == match[0].Instr.(ssa.Value) {
									okFirst = true
								}
							}
						}
					}
				}
			}
		}
		c.Check("C04.R4", fk+":forward-scan", fn.Pos(), fwd, "routes are scanned forward from index 0 with stride 1", "routes are not scanned forward in configuration order")
		c.Check("C04.R4", fk+":first-match-returns", fn.Pos(), okFirst, "the first non-nil Match is returned immediately", "the scan does not return the first matching route (a later route could win)")
	}
	// routes only appended or truncated
	badW := []string{}
	nW := 0
	for _, f := range c.PkgFuncs(pkg) {
		for _, st := range storesToField(f, ".VirtualHostImpl", "routes", false) {
			nW++
			okw := false
			switch v := st.Val.(type) {
			case *ssa.Call:
				if methodName(v.Common()) == "append" {
					if _, fl, _, ok := loadedField(v.Common().Args[0]); ok && fl == "routes" {
						okw = true
					}
				}
			case *ssa.Slice:
				if _, fl, _, ok := loadedField(v.X); ok && fl == "routes" && v.Low == nil {
					okw = true
				}
			}
			if isNilConst(st.Val) {
				okw = true
			}
			if !okw {
				badW = append(badW, f.Name())
			}
		}
		// element writes reorder
		forEachInstr(f, false, func(_ *ssa.Function, in ssa.Instruction) {
			if st, ok := in.(*ssa.Store); ok {
				if ia, ok := st.Addr.(*ssa.IndexAddr); ok {
					if _, fl, _, ok := loadedField(ia.X); ok && fl == "routes" {
						badW = append(badW, f.Name()+"(element write)")
					}
				}
			}
		})
	}
	sort.Strings(badW)
	c.Check("C04.R4", "pkg/router.VirtualHostImpl.routes:append-or-truncate-only", token.NoPos, len(badW) == 0 && nW >= 2, fmt.Sprintf("%d writers, all append or truncate", nW), "routes are written other than by append/truncate (order can change): "+strings.Join(badW, ","))

	// R5
	ord := ordCounter{}
	nacc := 0
	for _, f := range c.PkgFuncs(pkg) {
		for _, fld := range []string{"routes", "fastIndex"} {
			for _, acc := range fieldAccesses(f, ".VirtualHostImpl", fld, false) {
				nacc++
				key := ord.next(f, "access-"+fld)
				held, how := accessHeld(c, pkg, acc, "mutex", 0)
				switch {
				case held:
					c.Pass("C04.R5", key, nearestPos(acc), "vh.mutex "+how)
				case strings.HasPrefix(f.Name(), "New"):
					c.Pass("C04.R5", key, nearestPos(acc), "construction")
				default:
					c.Fail("C04.R5", key, nearestPos(acc), "VirtualHostImpl."+fld+" accessed without vh.mutex: a lookup concurrent with AddRoute/RemoveAllRoutes can see a half-updated table")
				}
			}
		}
	}
	if nacc < 6 {
		c.Unresolved("C04.R5", fmt.Sprintf("VirtualHostImpl.routes/fastIndex accesses (found %d)", nacc))
	}

	c04NoEscape(c, pkg)

	// R6 purity: stores to fields of routersImpl / VirtualHostImpl / RouteRuleImplBase in functions reachable from the lookups
	roots := []*ssa.Function{c.M(pkg, "routersImpl", "MatchRoute"), c.M(pkg, "routersImpl", "MatchAllRoutes"), c.M(pkg, "routersImpl", "MatchRouteFromHeaderKV")}
	seen := map[*ssa.Function]bool{}
	var work []*ssa.Function
	for _, r := range roots {
		if r == nil {
			c.Unresolved("C04.R6", "routersImpl.Match*")
			continue
		}
		work = append(work, r)
		seen[r] = true
	}
	// interface calls GetRouteFromEntries / Match resolve to the package's implementations by method name
	byName := map[string][]*ssa.Function{}
	for _, f := range c.PkgFuncs(pkg) {
		byName[f.Name()] = append(byName[f.Name()], f)
	}
	for len(work) > 0 {
		f := work[len(work)-1]
		work = work[:len(work)-1]
		forEachInstr(f, true, func(_ *ssa.Function, in ssa.Instruction) {
			ci, ok := in.(ssa.CallInstruction)
			if !ok {
				return
			}
			var next []*ssa.Function
			if callee := ci.Common().StaticCallee(); callee != nil {
				next = append(next, callee)
			} else if ci.Common().IsInvoke() {
				switch ci.Common().Method.Name() {
				case "GetRouteFromEntries", "GetAllRoutesFromEntries", "GetRouteFromHeaderKV", "Match", "Matches":
					next = byName[ci.Common().Method.Name()]
				}
			}
			for _, n := range next {
				if n.Pkg != nil && n.Pkg.Pkg.Path() == modPath+"/"+pkg && !seen[n] && len(n.Blocks) > 0 {
					seen[n] = true
					work = append(work, n)
				}
			}
		})
	}
	var writes []string
	for f := range seen {
		forEachInstr(f, true, func(_ *ssa.Function, in ssa.Instruction) {
			var addr ssa.Value
			switch x := in.(type) {
			case *ssa.Store:
				addr = x.Addr
			case *ssa.MapUpdate:
				addr = x.Map
			default:
				return
			}
			t, fl, _, ok := fieldAddrInfo(addr)
			if !ok {
				if u, isU := addr.(*ssa.UnOp); isU {
					t, fl, _, ok = fieldAddrInfo(u.X)
				}
			}
			if !ok {
				return
			}
			st := shortName(t)
			if st == "routersImpl" || st == "VirtualHostImpl" || strings.Contains(st, "RouteRuleImpl") || strings.Contains(st, "RuleImpl") {
				// lazily created random source under its own lock is the listed exception (weighted clusters, C06)
				if fl == "randInstance" {
					return
				}
				writes = append(writes, funcKey(f)+" writes "+st+"."+fl)
			}
		})
	}
	sort.Strings(writes)
	c.Extra["functions_reachable_from_lookup"] = len(seen)
	c.Check("C04.R6", "pkg/router.routersImpl.MatchRoute:pure", token.NoPos, len(writes) == 0 && len(seen) >= 5, fmt.Sprintf("%d functions reachable from the lookups, none stores into router state", len(seen)), "a route lookup writes router state: "+strings.Join(writes, "; ")+" — the result would depend on earlier lookups")
	c.Check("C04.R6", "pkg/router.routersImpl.MatchRoute:reach", token.NoPos, len(seen) >= 5, "lookup call tree resolved", "lookup call tree did not resolve")
	c.Check("C04.R6", "pkg/router.routersImpl.findVirtualHost:reachable", token.NoPos, fv != nil && seen[fv], "findVirtualHost is on the lookup path", "findVirtualHost is no longer on the lookup path")
}

// fromToLower: v derives (through extract/phi of one source) from strings.ToLower.
func fromToLower(v ssa.Value, depth int) bool {
	if depth > 6 {
		return false
	}
	switch x := v.(type) {
	case *ssa.Call:
		if calleeName(x.Common()) == "strings.ToLower" {
			return true
		}
		// host, port, err := splitHostPortGraceful(lowered)
		if f := x.Common().StaticCallee(); f != nil && f.Name() == "splitHostPortGraceful" {
			return fromToLower(x.Common().Args[0], depth+1)
		}
	case *ssa.Extract:
		return fromToLower(x.Tuple, depth+1)
	case *ssa.UnOp:
		if al, ok := x.X.(*ssa.Alloc); ok {
			okAll, n := true, 0
			for _, r := range refs(al) {
				if st, ok := r.(*ssa.Store); ok && st.Addr == ssa.Value(al) {
					n++
					if !fromToLower(st.Val, depth+1) {
						okAll = false
					}
				}
			}
			return okAll && n > 0
		}
	case *ssa.Phi:
		for _, e := range x.Edges {
			if !fromToLower(e, depth+1) {
				return false
			}
		}
		return true
	}
	return false
}

func hostLenIndex(v ssa.Value) (ssa.Value, bool) {
	u, ok := v.(*ssa.UnOp)
	if !ok {
		return nil, false
	}
	fa, ok := u.X.(*ssa.FieldAddr)
	if !ok {
		return nil, false
	}
	if _, f, _, ok := fieldAddrInfo(fa); !ok || f != "hostLen" {
		return nil, false
	}
	ia, ok := fa.X.(*ssa.IndexAddr)
	if !ok {
		return nil, false
	}
	return ia.Index, true
}

func sameThroughSpill(a, b ssa.Value) bool {
	if a == b {
		return true
	}
	if u, ok := a.(*ssa.UnOp); ok {
		if al, ok := u.X.(*ssa.Alloc); ok {
			for _, r := range refs(al) {
				if st, ok := r.(*ssa.Store); ok && st.Val == b {
					return true
				}
			}
		}
	}
	return false
}

// forwardSliceLoop: fn contains `for i := range <field>` (index from 0, stride 1, bound len(field)).
func forwardSliceLoop(fn *ssa.Function, field string) bool {
	for _, b := range fn.Blocks {
		for _, in := range b.Instrs {
			ia, ok := in.(*ssa.IndexAddr)
			if !ok {
				continue
			}
			if !derivesFromField(ia.X, field, 0) {
				continue
			}
			if sl, ok := rangeLoopSlice(ia.Index); ok {
				if sl == ia.X || derivesFromField(sl, field, 0) {
					return true
				}
			}
		}
	}
	return false
}

// derivesFromField: v is the slice held in the field, in the field's order: the loaded field itself, an order-preserving
// copy of it (append(nil-or-fresh, field...), make+copy), or the result of a same-package function all of whose returns are.
func derivesFromField(v ssa.Value, field string, depth int) bool {
	if depth > 3 {
		return false
	}
	v = stripConv(v)
	if _, f, _, ok := loadedField(v); ok && f == field {
		return true
	}
	switch x := v.(type) {
	case *ssa.Call:
		cc := x.Common()
		if b, ok := cc.Value.(*ssa.Builtin); ok && b.Name() == "append" && len(cc.Args) == 2 {
			// append(dst, field...) where dst is empty
			if derivesFromField(cc.Args[1], field, depth+1) && (isNilConst(cc.Args[0]) || emptyFresh(cc.Args[0])) {
				return true
			}
			return false
		}
		if callee := cc.StaticCallee(); callee != nil && callee.Blocks != nil && !cc.IsInvoke() {
			sites := returnSites(callee, 0)
			if len(sites) == 0 {
				return false
			}
			for _, rs := range sites {
				if !derivesFromField(rs.val, field, depth+1) {
					return false
				}
			}
			return true
		}
	case *ssa.MakeSlice:
		// make + copy(dst, field)
		for _, r := range refs(x) {
			if c, ok := r.(*ssa.Call); ok {
				if b, ok := c.Call.Value.(*ssa.Builtin); ok && b.Name() == "copy" && c.Call.Args[0] == ssa.Value(x) && derivesFromField(c.Call.Args[1], field, depth+1) {
					return true
				}
			}
		}
	}
	return false
}

func emptyFresh(v ssa.Value) bool {
	switch x := v.(type) {
	case *ssa.MakeSlice:
		n, ok := constInt(x.Len)
		return ok && n == 0
	case *ssa.Slice:
		// make([]T, 0, n) is lowered to new [n]T; slice[:0]
		if _, ok := x.X.(*ssa.Alloc); ok && x.High != nil {
			n, ok := constInt(x.High)
			return ok && n == 0
		}
	}
	return false
}

// c04NoEscape (R5): while writers update the backing array in place (append / truncate-and-reuse), the slice read from
// the field under the lock must not be used once the lock is released: not returned, stored elsewhere, or indexed after
// the unlock. Exempt when every writer installs a freshly built slice (copy-on-write), which makes old headers immutable.
func c04NoEscape(c *Ctx, pkg string) { c04NoEscapeRule(c, pkg, "C04.R5") }

func c04NoEscapeRule(c *Ctx, pkg, rule string) {
	cow := true
	for _, f := range c.PkgFuncs(pkg) {
		for _, st := range storesToField(f, ".VirtualHostImpl", "routes", false) {
			switch v := st.Val.(type) {
			case *ssa.Call:
				if methodName(v.Common()) == "append" {
					if _, fl, _, ok := loadedField(v.Common().Args[0]); ok && fl == "routes" {
						cow = false
					}
				}
			case *ssa.Slice:
				if _, fl, _, ok := loadedField(v.X); ok && fl == "routes" {
					cow = false
				}
			}
		}
	}
	ord := ordCounter{}
	n := 0
	for _, f := range c.PkgFuncs(pkg) {
		if strings.HasPrefix(f.Name(), "New") {
			continue
		}
		forEachInstr(f, false, func(_ *ssa.Function, in ssa.Instruction) {
			ld, ok := in.(*ssa.UnOp)
			if !ok || ld.Op != token.MUL {
				return
			}
			if _, fl, _, okf := fieldAddrInfo(ld.X); !okf || fl != "routes" {
				return
			}
			if !strings.HasSuffix(typeName(fieldBaseType(ld.X)), ".VirtualHostImpl") {
				return
			}
			n++
			key := ord.next(f, "routes-view")
			if cow {
				c.Pass(rule, key, ld.Pos(), "writers are copy-on-write: a loaded header is immutable")
				return
			}
			bad := ""
			seen := map[ssa.Value]bool{}
			var walk func(v ssa.Value)
			walk = func(v ssa.Value) {
				if seen[v] || bad != "" {
					return
				}
				seen[v] = true
				for _, r := range refs(v) {
					switch u := r.(type) {
					case *ssa.Return:
						bad = "returned to the caller"
					case *ssa.Store:
						if u.Val == v {
							if _, fl, _, okf := fieldAddrInfo(u.Addr); okf && fl == "routes" {
								continue // written back to the field itself
							}
							bad = "stored outside the field"
						}
					case *ssa.Slice:
						walk(u)
					case *ssa.Phi:
						walk(u)
					case *ssa.ChangeType:
						walk(u)
					case *ssa.IndexAddr:
						if held, _ := accessHeld(c, pkg, u, "mutex", 0); !held {
							bad = "elements read after the lock is released"
						}
					case *ssa.Call:
						if b, isB := u.Call.Value.(*ssa.Builtin); isB {
							if b.Name() == "append" && len(u.Call.Args) > 0 && u.Call.Args[0] == v {
								walk(u) // append(routes, r): result is written back (checked at the store)
							}
							if (b.Name() == "append" || b.Name() == "copy") && len(u.Call.Args) > 1 && u.Call.Args[1] == v {
								if held, _ := accessHeld(c, pkg, u, "mutex", 0); !held {
									bad = "copied after the lock is released"
								}
							}
							continue
						}
						if held, _ := accessHeld(c, pkg, u, "mutex", 0); !held {
							bad = "passed to a call made without the lock"
						}
					case *ssa.MakeClosure, *ssa.MakeInterface, *ssa.Go, *ssa.Defer:
						bad = "captured"
					}
				}
			}
			walk(ld)
			c.Check(rule, key, ld.Pos(), bad == "", "the route list read under the lock is only used while the lock is held", "the route list read under vh.mutex is "+bad+", but AddRoute/RemoveAllRoutes rewrite its backing array in place: a lookup can walk a mixture of the old and the new route list and return a route that is the first match of neither")
		})
	}
	if n < 3 {
		c.Unresolved(rule, fmt.Sprintf("loads of VirtualHostImpl.routes (found %d)", n))
	}
}

func fieldBaseType(addr ssa.Value) types.Type {
	if fa, ok := addr.(*ssa.FieldAddr); ok {
		return fa.X.Type()
	}
	return addr.Type()
}

// c04Precedence: decision points of findHighestPriorityIndex in order.
func c04Precedence(c *Ctx, fn *ssa.Function) {
	fk := funcKey(fn)
	host, port := ssa.Value(fn.Params[1]), ssa.Value(fn.Params[2])
	type dp struct {
		name string
		in   ssa.Instruction
	}
	var dps []dp
	isStar := func(v ssa.Value) bool {
		k, ok := v.(*ssa.Const)
		if !ok {
			return false
		}
		s, ok := constString(k)
		return ok && s == "*"
	}
	forEachInstr(fn, false, func(_ *ssa.Function, in ssa.Instruction) {
		l, ok := in.(*ssa.Lookup)
		if !ok {
			return
		}
		_, f, _, isField := loadedField(l.X)
		switch {
		case isField && f == "virtualHostPortsMap" && l.Index == host:
			dps = append(dps, dp{"exact-host", in})
		case isField && f == "portWildcardVirtualHost" && l.Index == port:
			dps = append(dps, dp{"3:wildcard-host/port", in})
		case isField && f == "portWildcardVirtualHost" && isStar(l.Index):
			dps = append(dps, dp{"4:wildcard-host/*", in})
		case !isField && l.Index == port:
			dps = append(dps, dp{"1:exact-host/port", in})
		case !isField && isStar(l.Index):
			dps = append(dps, dp{"2:exact-host/*", in})
		}
	})
	order := []string{"exact-host", "1:exact-host/port", "2:exact-host/*", "3:wildcard-host/port", "4:wildcard-host/*"}
	got := map[string]ssa.Instruction{}
	for _, d := range dps {
		if _, dup := got[d.name]; dup {
			c.Fail("C04.R2", fk+":duplicate-"+d.name, d.in.Pos(), "decision point "+d.name+" appears twice")
		}
		got[d.name] = d.in
	}
	for _, n := range order {
		if got[n] == nil {
			c.Fail("C04.R2", fk+":missing-"+n, fn.Pos(), "decision point "+n+" not found: the documented precedence has five levels")
			return
		}
	}
	ba := newBA(c, fn)
	for i := 0; i+1 < len(order); i++ {
		a, b := got[order[i]], got[order[i+1]]
		ok := ba.mayPrecede(a, b) && !ba.mayPrecede(b, a)
		// a hit at level a returns before b is consulted: from a's hit edge, b is unreachable
		hitReturns := true
		if i >= 1 {
			hitReturns = c04HitReturns(fn, a.(*ssa.Lookup), b)
		}
		c.Check("C04.R2", fmt.Sprintf("%s:order-%s-before-%s", fk, order[i], order[i+1]), a.Pos(), ok && hitReturns, order[i]+" is consulted before "+order[i+1]+", which is reachable only after a miss", "precedence broken: "+order[i+1]+" can be consulted before (or despite a hit of) "+order[i])
	}
	// default last: every return of defaultVirtualHostIndex comes after the wildcard lookups
	defOK, nDef := true, 0
	for _, in := range instrsWhere(fn, isReturn) {
		if _, f, _, ok := loadedField(unspill(in.(*ssa.Return), 0)); ok && f == "defaultVirtualHostIndex" {
			nDef++
			// reachable only after level 4 was consulted or skipped because no wildcard table exists:
			// the return must not be able to precede the level-4 lookup and must not sit inside the wildcard region
			if ba.mayPrecede(in, got["4:wildcard-host/*"]) || !ba.mayPrecede(got["exact-host"], in) && false {
				defOK = false
			}
			if instrDominates(got["3:wildcard-host/port"], in) && !instrDominates(got["4:wildcard-host/*"], in) {
				defOK = false
			}
		}
	}
	defOK = defOK && nDef >= 1
	c.Check("C04.R2", fk+":default-last", fn.Pos(), defOK, "the default virtual host is returned only after every other level missed", "the default virtual host can win before the specific levels were tried")
	// wildcard scans: guard hostLen < len(host) (skip when hostLen >= len(host)), suffix compare, return index at first match, forward loop
	for _, lv := range []string{"3:wildcard-host/port", "4:wildcard-host/*"} {
		l := got[lv].(*ssa.Lookup)
		// the slice value
		var arr ssa.Value
		for _, r := range refs(l) {
			if ex, ok := r.(*ssa.Extract); ok && ex.Index == 0 {
				arr = ex
			}
		}
		okLoop, okGuard, okSuffix, okRet := false, false, false, false
		forEachInstr(fn, false, func(_ *ssa.Function, in ssa.Instruction) {
			ia, ok := in.(*ssa.IndexAddr)
			if !ok || ia.X != arr {
				return
			}
			if sl, ok := rangeLoopSlice(ia.Index); ok && sl == arr {
				okLoop = true
			}
		})
		// in the loop body: compare `hostLen >= len(host)` → continue; `host[len(host)-hostLen:] == w.host` → return w.index
		body := map[*ssa.BasicBlock]bool{}
		forEachInstr(fn, false, func(_ *ssa.Function, in ssa.Instruction) {
			if ia, ok := in.(*ssa.IndexAddr); ok && ia.X == arr {
				for bb := range reachableFrom(ia.Block()) {
					if reachableFrom(bb)[ia.Block()] {
						body[bb] = true
					}
				}
				body[ia.Block()] = true
			}
		})
		for bb := range body {
			for _, in := range bb.Instrs {
				bo, ok := in.(*ssa.BinOp)
				if !ok {
					continue
				}
				if bo.Op == token.GEQ || bo.Op == token.LSS {
					_, f, _, okf := loadedField(bo.X)
					if okf && f == "hostLen" {
						if call, ok := bo.Y.(*ssa.Call); ok && methodName(call.Common()) == "len" && call.Common().Args[0] == host {
							okGuard = true
						}
					}
				}
				if bo.Op == token.EQL {
					_, f, _, okf := loadedField(bo.X)
					if sl, ok := bo.Y.(*ssa.Slice); ok && okf && f == "host" && sl.X == host && sl.High == nil && sl.Low != nil {
						// low = len(host) - hostLen
						if sub, ok := sl.Low.(*ssa.BinOp); ok && sub.Op == token.SUB {
							if call, ok := sub.X.(*ssa.Call); ok && methodName(call.Common()) == "len" && call.Common().Args[0] == host {
								if _, f2, _, ok := loadedField(sub.Y); ok && f2 == "hostLen" {
									okSuffix = true
								}
							}
						}
						// true edge returns w.index
						for _, r := range refs(bo) {
							if ifi, ok := r.(*ssa.If); ok {
								for _, x := range ifi.Block().Succs[0].Instrs {
									if ret, ok := x.(*ssa.Return); ok && isReturn(x) {
										if _, f3, _, ok := loadedField(unspill(ret, 0)); ok && f3 == "index" {
											okRet = true
										}
									}
								}
							}
						}
					}
				}
			}
		}
		c.Check("C04.R2", fk+":scan-"+lv, l.Pos(), okLoop && okGuard && okSuffix && okRet, "forward scan; skipped unless hostLen < len(host); suffix compared; first match returns its index",
			fmt.Sprintf("wildcard scan shape broken (forward loop=%v, length guard=%v, suffix compare=%v, returns at first match=%v)", okLoop, okGuard, okSuffix, okRet))
	}
}

// c04HitReturns: from the hit edge (`ok` true) of lookup a, the instruction b is not reachable.
func c04HitReturns(fn *ssa.Function, a *ssa.Lookup, b ssa.Instruction) bool {
	for _, r := range refs(a) {
		ex, ok := r.(*ssa.Extract)
		if !ok || ex.Index != 1 {
			continue
		}
		for _, r2 := range refs(ex) {
			ifi, ok := r2.(*ssa.If)
			if !ok {
				continue
			}
			// wildcard levels: the hit edge enters a scan loop that may fall through to the next level on no match: allowed
			if existsPathFrom(ifi.Block().Succs[0], func(in ssa.Instruction) bool { return in == b }, nil) != nil {
				// allowed only if the hit edge contains a loop (a scan)
				hasLoop := false
				for bb := range reachableFrom(ifi.Block().Succs[0]) {
					if inLoop(bb) {
						hasLoop = true
					}
				}
				// the exact-host outer lookup also falls through to level 2
				return hasLoop
			}
			return true
		}
	}
	return false
}
